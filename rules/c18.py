"""C18 - evaluation is pure: same answer across calls, clones and threads (decided as a whole).

Argument (DESIGN.md section 3, C18): in safe Rust a `&self` method can change observable state
only through interior mutability or a `static`; it can observe anything but its arguments only
through a `static`, ambient OS state, an address or a reference count. If none of these is
reachable from the evaluation entry points, the result is a function of (expression, context,
instant) for every interleaving. Obligations R1..R7 below; all must be discharged.
"""

import re

import common
import lib
from lib import WS_LIBS

LAZY_OK = {"std::sync::lazy_lock::LazyLock", "std::sync::once::Once"}


def user_written(sp):
    """True when the span is hand-written code or only comes from syntax desugaring."""
    return all(e.startswith("desugar:") for e in sp["exp"])


def foreign_immutable(node, sid):
    """A static of a dependency is acceptable when it is not `mut` and its type is Freeze
    (plain immutable data such as `chrono_tz::TZ_VARIANTS`)."""
    ops = []
    if node["k"] == "assign":
        ops = lib.rvalue_operands(node["rv"])
    else:
        ops = lib.term_operands(node)
    for op in ops:
        if op.get("k") == "const" and op.get("static") == sid:
            return (op.get("static_crate") not in lib.WS_ALL) and op.get("static_mut") is False and op.get("static_freeze") is True
    return False


def run(ctx, prog, res):
    res.trusted += [
        "std LazyLock/Once/Arc contracts (single initialisation with happens-before)",
        "purity of third-party crates on the evaluation path (chrono, chrono-tz, sunrise, flate2, tzf-rs, country-boundaries, pest, log)",
    ]
    res.assumptions += [
        "third-party callees are summarised by effect class (path patterns), not analysed",
        "facts come from the unified workspace feature set (log, auto-country, auto-timezone on)",
    ]

    # R1 no unsafe ---------------------------------------------------------------------------
    r1 = res.rule("C18.R1", "no `unsafe` (blocks, fns, impls, extern blocks) in the three library crates outside macro expansions")
    for crate in WS_LIBS:
        if crate not in prog.crates:
            r1.anchor_missing("crate " + crate)
            continue
        n_fn = 0
        for f in prog.fns.values():
            if f.crate != crate or f.from_expansion:
                continue
            n_fn += 1
            if f.j.get("unsafe_fn"):
                r1.fail("C18.R1:unsafe-fn:%s" % f.id, "unsafe fn %s" % f.id, lib.where_of(f))
        blocks = [u for u in prog.unsafe if u["crate"] == crate and u["what"] == "block" and u["user"] and user_written(u["sp"])]
        for u in blocks:
            r1.fail("C18.R1:unsafe-block:%s" % u["sp"]["file"], "user-written unsafe block", "%s:%s" % (u["sp"]["file"], u["sp"]["line"]))
        for u in prog.unsafe:
            if u["crate"] == crate and u["what"] == "extern_block" and u["user"]:
                r1.fail("C18.R1:extern:%s" % u["sp"]["file"], "extern block", "%s:%s" % (u["sp"]["file"], u["sp"]["line"]))
        for im in prog.impls:
            if im["crate"] == crate and im["safety"] != "Safe" and user_written(im["sp"]) and not im["derived"]:
                r1.fail("C18.R1:unsafe-impl:%s" % im["id"], "unsafe impl %s" % im["id"], "%s:%s" % (im["sp"]["file"], im["sp"]["line"]))
        r1.ok({"crate": crate, "hand_written_bodies_scanned": n_fn, "unsafe": 0})
    r1.floor(3)

    # R2 statics -----------------------------------------------------------------------------
    r2 = res.rule("C18.R2", "every static of the three crates is immutable and Freeze, or a LazyLock<T> with deeply Freeze T, or a Once")
    lib_statics = [s for s in prog.statics.values() if s["crate"] in WS_LIBS]
    allowed_statics = set()
    for s in lib_statics:
        key = "C18.R2:%s" % s["id"]
        where = "%s:%s" % (s["sp"]["file"], s["sp"]["line"])
        if s["mutable"]:
            r2.fail(key, "static mut %s" % s["id"], where)
            continue
        if s["freeze"] and not s["unsafe_cell"]:
            r2.ok({"static": s["id"], "ty": s["ty"], "verdict": "Freeze"})
            allowed_statics.add(s["id"])
            continue
        if s["ty_adt"] == "std::sync::once::Once":
            r2.ok({"static": s["id"], "ty": s["ty"], "verdict": "Once"})
            allowed_statics.add(s["id"])
            continue
        if s["ty_adt"] == "std::sync::lazy_lock::LazyLock":
            inner = s["ty_args_cells"][0] if s["ty_args_cells"] else None
            if inner is not None and not inner["unsafe_cell"] and not inner["leaves"]:
                r2.ok({"static": s["id"], "ty": s["ty"], "verdict": "LazyLock of deeply Freeze %s" % inner["ty"]})
                allowed_statics.add(s["id"])
                continue
            r2.fail(key, "LazyLock static %s holds interior mutability: %s" % (s["id"], (inner or {}).get("unsafe_cell")), where)
            continue
        r2.fail(key, "static %s of type %s is interior-mutable (%s)" % (s["id"], s["ty"], s["unsafe_cell"][:1]), where)
    r2.floor(6)

    # R3 no interior mutability in library types -----------------------------------------------
    r3 = res.rule("C18.R3", "no type of the three crates (deep walk through fields and owned generic arguments) contains an UnsafeCell")
    must_have = [
        "opening_hours::opening_hours::OpeningHours", "opening_hours::context::Context", "opening_hours::context::ContextHolidays",
        "compact_calendar::CompactCalendar", "opening_hours_syntax::rules::OpeningHoursExpression", "opening_hours::schedule::Schedule",
        "opening_hours::opening_hours::TimeDomainIterator", "opening_hours::localization::localize::NoLocation",
        "opening_hours::localization::localize::TzLocation", "opening_hours::localization::coordinates::Coordinates",
    ]
    for m in must_have:
        if m not in prog.adts:
            r3.anchor_missing("type " + m)
    for a in prog.adts.values():
        if a["crate"] not in WS_LIBS:
            continue
        r3.check(not a["unsafe_cell"], {"type": a["id"], "open_leaves": a["ty_leaves"]},
                 "C18.R3:%s" % a["id"], "type %s can reach interior mutability: %s" % (a["id"], a["unsafe_cell"][:1]),
                 "%s:%s" % (a["sp"]["file"], a["sp"]["line"]))
    r3.floor(50)

    # R4 no ambient reads from evaluation --------------------------------------------------------
    r4 = res.rule("C18.R4", "nothing in the effect classes TIME/RANDOM/ENV/FS/NET/IO/THREAD/ADDRESS/REFCOUNT/INTERIOR is called, and no static outside R2's set is touched, in any function reachable from the evaluation entry points")
    roots = common.eval_roots(prog, r4)
    reach, parent = prog.reachable(roots)
    reach = {f for f in reach if prog.fns[f].crate in WS_LIBS}
    n_calls = 0
    for fid in sorted(reach):
        fn = prog.fns[fid]
        for bb, t in fn.calls():
            n_calls += 1
            for p in common.callee_paths(t):
                eff = common.classify_effect(p)
                if eff:
                    chain = " <- ".join(reversed(prog.path_to(parent, fid)[-4:]))
                    r4.fail("C18.R4:%s:%s:%s" % (eff, fn.module, p), "%s effect: call to %s reachable from evaluation (%s)" % (eff, p, chain), lib.where_of(fn, t))
                    break
        for sid, node in common.static_refs(fn):
            if sid not in allowed_statics and not foreign_immutable(node, sid):
                r4.fail("C18.R4:static:%s" % sid, "evaluation reaches static %s which is not in the reviewed immutable set" % sid, lib.where_of(fn, node))
        # pointer-to-integer casts
        for _, s in fn.stmts():
            if s["k"] == "assign" and s["rv"]["k"] == "cast" and "Expose" in s["rv"]["ck"]:
                r4.fail("C18.R4:ADDRESS:cast:%s" % fn.module, "pointer-to-integer cast in %s" % fid, lib.where_of(fn, s))
    r4.ok({"entry_points": len(roots), "reachable_library_functions": len(reach), "call_sites_classified": n_calls})
    for fid in sorted(reach)[:0]:
        pass
    r4.floor(1)
    if len(reach) < 150:
        r4.fail("C18.R4:FLOOR-reach", "FLOOR: only %d library functions reachable from the entry points (expected >= 150)" % len(reach))

    # R5 lazies are deterministic --------------------------------------------------------------
    r5 = res.rule("C18.R5", "each lazy static's initialiser reaches no ambient effect and no other mutable state; Once guards a log call only")
    for s in lib_statics:
        init = prog.fns.get(s["id"])
        if init is None:
            r5.anchor_missing("initialiser body of static " + s["id"])
            continue
        ireach, iparent = prog.reachable([s["id"]] + prog.closures(s["id"]))
        # function items referenced by the initialiser (LazyLock::new(f))
        bad = []
        ext = set()
        for fid in ireach:
            fn = prog.fns[fid]
            for bb, t in fn.calls():
                for p in common.callee_paths(t):
                    eff = common.classify_effect(p)
                    if eff:
                        bad.append((eff, p, lib.where_of(fn, t)))
                c = t["callee"]
                if "indirect" not in c and lib.callee_crate(c) not in lib.WS_ALL:
                    ext.add(lib.callee_id(c))
            for r in prog.fn_refs(fn):
                if isinstance(r, tuple):
                    ext.add(r[1]["def"])
            for sid, node in common.static_refs(fn):
                if sid != s["id"] and sid not in allowed_statics and not foreign_immutable(node, sid):
                    bad.append(("static", sid, lib.where_of(fn, node)))
        for eff, p, where in bad:
            r5.fail("C18.R5:%s:%s:%s" % (s["id"].split("::")[-1], eff, p), "initialiser of %s has %s effect via %s" % (s["id"], eff, p), where)
        if not bad:
            r5.ok({"static": s["id"], "initialiser_functions": len(ireach), "extern_callees": sorted(x for x in ext if x)[:12]})
    # users of the Once: only `call_once` with a closure that calls nothing but log
    for f in prog.fns.values():
        if f.crate not in WS_LIBS:
            continue
        for bb, t in f.calls():
            if lib.is_call_to(t, "std::sync::once::Once::call_once"):
                cl = [c for c in prog.closures(f.id)]
                callees = set()
                for c in cl:
                    for _, tt in prog.fns[c].calls():
                        callees.update(common.callee_paths(tt))
                non_log = [c for c in callees if not (c.startswith("log::") or c.startswith("core::fmt::") or c.startswith("core::ops::function::") or c.startswith("std::sync::once::"))]
                # the enclosing function has many closures; only require that the closure passed is log-only
                arg_cl = None
                for op in t["args"]:
                    pl = lib.operand_place(op)
                    if pl is not None:
                        for _, d in f.defs_of(pl["l"]):
                            if d["k"] == "assign" and d["rv"]["k"] == "agg" and d["rv"].get("ak") == "closure":
                                arg_cl = d["rv"]["closure"]
                    if op.get("k") == "const" and op.get("closure"):
                        arg_cl = op["closure"]
                if arg_cl is None or arg_cl not in prog.fns:
                    r5.fail("C18.R5:once-closure:%s" % f.id, "cannot identify the closure passed to Once::call_once", lib.where_of(f, t))
                    continue
                cs = set()
                for _, tt in prog.fns[arg_cl].calls():
                    cs.update(common.callee_paths(tt))
                non_log = sorted(c for c in cs if not re.match(r"^(log::|core::fmt::|core::cmp::|core::ops::function::|core::option::|core::panic::location|std::sync::once::)", c))
                r5.check(not non_log, {"once_user": f.id, "closure": arg_cl, "callees": sorted(cs)},
                         "C18.R5:once:%s" % f.id, "the Once-guarded closure calls more than logging: %s" % non_log, lib.where_of(f, t))
    r5.floor(6)

    # R7 shared expression is immutable ----------------------------------------------------------
    r7 = res.rule("C18.R7", "Arc contents are never mutated or observed through reference counts in the three crates (no get_mut/make_mut/strong_count/as_ptr/ptr_eq)")
    n = 0
    for f in prog.fns.values():
        if f.crate not in WS_LIBS:
            continue
        for bb, t in f.calls():
            for p in common.callee_paths(t):
                if "alloc::sync::Arc" in p or "alloc::rc::Rc" in p:
                    n += 1
                    bad = re.search(r"::(get_mut|make_mut|get_mut_unchecked|strong_count|weak_count|as_ptr|ptr_eq|is_unique|try_unwrap|into_inner|unwrap_or_clone|downgrade|into_raw|from_raw|increment_strong_count|decrement_strong_count)$", p)
                    r7.check(not bad, {"fn": f.id, "arc_op": p}, "C18.R7:%s:%s" % (f.module, p),
                             "Arc operation %s in %s" % (p, f.id), lib.where_of(f, t))
                    break
    r7.floor(3)

    # R6 Send + Sync + Clone: compile-time witnesses (see engines/witness) ------------------------
    import witness
    witness.run_positive(ctx, prog, res, "C18.R6", "Send + Sync + Clone for OpeningHours<NoLocation>, OpeningHours<TzLocation<Tz>>, Context, Schedule, CompactCalendar, DateTimeRange; Send + Sync for the iterator returned by iter_range", group="c18")
