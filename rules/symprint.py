"""Symbolic interpreter for the printer (Display impls of the syntax crate) over MIR facts.

Every CFG path of a `fmt` body is explored with `self` symbolic. Branches on the code's own
atoms (field comparisons, emptiness of lists, enum variants, options) fork the state and record
the atom in the path condition; finite-domain fields ([bool; 5]) are enumerated exhaustively.
A path yields an output *template*: literal pieces and holes (format spec + symbolic term,
or a child node printed through its own Display). Nothing of the repository is executed:
the interpreter walks the compiler's MIR with symbolic terms.
"""

import itertools
import re

import flow
import lib

SYN = "opening_hours_syntax::"


class Unmodelled(Exception):
    pass


def S(term, ty):
    return ("S", term, clean_ty(ty))


def C(v):
    return ("C", v)


UNIT = ("C", ())
NONE = ("none",)


def SOME(v):
    return ("some", v)


def clean_ty(ty):
    ty = (ty or "").strip()
    while ty.startswith("&"):
        ty = ty[1:].strip()
        if ty.startswith("mut "):
            ty = ty[4:]
        ty = re.sub(r"^'\w+ ", "", ty)
    return ty


def term_str(t):
    if t[0] == "self":
        return "self"
    if t[0] == "fld":
        return "%s.%s" % (term_str(t[1]), t[2])
    if t[0] == "var":
        return "%s@%s" % (term_str(t[1]), t[2])
    if t[0] == "elem":
        return "%s[%s]" % (term_str(t[1]), t[2])
    if t[0] == "app":
        return "%s(%s)" % (t[1], ", ".join(term_str(x) if isinstance(x, tuple) and x and x[0] in ("self", "fld", "var", "elem", "app", "bin") else str(x) for x in t[2:]))
    if t[0] == "bin":
        return "(%s %s %s)" % (val_str(t[2]), t[1], val_str(t[3]))
    return str(t)


def val_str(v):
    if v[0] == "S":
        return term_str(v[1])
    if v[0] == "C":
        return repr(v[1])
    return str(v)


class Path:
    """One explored path of a fmt body."""

    def __init__(self, out, pc, ret):
        self.out, self.pc, self.ret = out, pc, ret


class SymPrinter:
    def __init__(self, prog, max_states=400000, full_bits=False):
        self.prog = prog
        self.full_bits = full_bits
        self.states = 0
        self.max_states = max_states
        self.unmodelled = []
        self.panics = []

    # -- types -------------------------------------------------------------------------------------

    def adt_of(self, ty):
        base = clean_ty(ty).split("<")[0]
        return self.prog.adts.get(base)

    def is_option(self, ty):
        return clean_ty(ty).startswith("core::option::Option<")

    def option_inner(self, ty):
        t = clean_ty(ty)
        return t[len("core::option::Option<"):-1]

    def field_ty(self, ty, variant, name):
        a = self.adt_of(ty)
        if a is None:
            t = clean_ty(ty)
            if t.startswith("(") and name.isdigit():
                parts = split_top(t[1:-1])
                i = int(name)
                return parts[i] if i < len(parts) else ""
            m = re.match(r"core::ops::range::(RangeInclusive|Range)<(.*)>$", t)
            if m:
                return m.group(2)
            return ""
        for v in a["variants"]:
            if variant is None or v["name"] == variant:
                for f in v["fields"]:
                    if f["name"] == name:
                        return f["ty"]
        return ""

    # -- running a fmt body --------------------------------------------------------------------------

    def run_fmt(self, fn, self_ty):
        """All paths of `fmt(&self, f)`: list of Path."""
        args = (S(("self",), self_ty), ("fmt",))
        outs = self.call(fn.id, args, (), ())
        return [Path(o[1], o[2], o[0]) for o in outs]

    def call(self, fid, args, out, pc, depth=0):
        fn = self.prog.fns.get(fid)
        if fn is None:
            raise Unmodelled("call to unknown function %s" % fid)
        if depth > 12:
            raise Unmodelled("call depth exceeded in %s" % fid)
        env0 = {i + 1: a for i, a in enumerate(args)}
        results = []
        work = [(0, self._freeze(env0), out, pc)]
        seen = set()
        while work:
            bb, fenv, out, pc = work.pop()
            key = (bb, fenv, out, pc)
            if key in seen:
                continue
            seen.add(key)
            self.states += 1
            if self.states > self.max_states:
                raise lib.CheckerBroken("symbolic printer exceeded %d states" % self.max_states)
            env = dict(fenv)
            block = fn.blocks[bb]
            for s in block["stmts"]:
                if s["k"] == "assign":
                    self.write(env, s["dst"], self.rvalue(fn, env, s["rv"]))
            t = block["term"]
            k = t["k"]
            if k in ("goto", "drop"):
                work.append((t["t"], self._freeze(env), out, pc))
            elif k == "return":
                results.append((self.deref(env, env.get(0, UNIT)), out, pc))
            elif k == "assert":
                work.append((t["t"], self._freeze(env), out, pc))
            elif k == "switch":
                v = self.deref(env, self.operand(fn, env, t["op"]))
                for val, pc2 in self.decide_int(v, [x for x, _ in t["targets"]], pc):
                    tg = dict(t["targets"])
                    work.append((tg.get(val, t["otherwise"]), self._freeze(env), out, pc2))
            elif k == "call":
                for rv, env2, out2, pc2 in self.do_call(fn, env, t, out, pc, depth):
                    if t["t"] is None:
                        continue
                    e3 = dict(env2)
                    self.write(e3, t["dst"], rv)
                    work.append((t["t"], self._freeze(e3), out2, pc2))
            elif k in ("unreachable", "resume", "terminate"):
                pass
            else:
                raise Unmodelled("terminator %s in %s" % (k, fid))
        return results

    @staticmethod
    def _freeze(env):
        return tuple(sorted(env.items(), key=lambda kv: kv[0]))

    # -- deciding conditions -----------------------------------------------------------------------

    def decide_int(self, v, explicit_values, pc):
        """Possible integer values of a switch operand with the path condition for each."""
        if v[0] == "C":
            x = v[1]
            if isinstance(x, bool):
                x = 1 if x else 0
            return [(x, pc)]
        if v[0] == "atom" and v[1][0] == "lencmp":
            # a slice length compared with a constant: decided per abstract length {0, 1, >=2}
            _, op, base, off, cst = v[1]
            res = []
            lo, hi = self.len_bounds(pc, base)
            for n in range(lo, hi + 1):
                pc2 = pc
                if n > 0:
                    pc2 = self.assume(pc2, ("len>", base, n - 1), True)
                if pc2 is not None and n < 2:
                    pc2 = self.assume(pc2, ("len>", base, n), False)
                if pc2 is None:
                    continue
                if n == 2 and op in ("Eq", "Ne", "Lt", "Le", "Gt", "Ge") and cst + off >= 2:
                    raise Unmodelled("slice length compared with %d: beyond the length abstraction {0, 1, >=2}" % cst)
                x = n - off
                r = {"Eq": x == cst, "Ne": x != cst, "Lt": x < cst, "Le": x <= cst, "Gt": x > cst, "Ge": x >= cst}[op]
                res.append((1 if r else 0, pc2))
            return res
        if v[0] == "atom":
            # a pending boolean atom: fork
            res = []
            for truth in (True, False):
                pc2 = self.assume(pc, v[1], truth)
                if pc2 is not None:
                    res.append((1 if truth else 0, pc2))
            return res
        if v[0] == "S" and v[2] == "bool":
            res = []
            for truth in (True, False):
                pc2 = self.assume(pc, ("cmp", "Eq", self.key(v), C(True)), truth)
                if pc2 is not None:
                    res.append((1 if truth else 0, pc2))
            return res
        if v[0] == "S" and v[2] in ("u8", "u16", "u32", "u64", "usize", "i8", "i16", "i32", "i64", "isize", "char"):
            # `match x { 31 => .., _ => .. }` on a symbolic integer: one branch per listed value, one for the rest
            res = []
            rest = pc
            for x in explicit_values:
                pc2 = self.assume(pc, ("cmp", "Eq", self.key(v), C(x)), True)
                if pc2 is not None:
                    res.append((x, pc2))
                rest = self.assume(rest, ("cmp", "Eq", self.key(v), C(x)), False) if rest is not None else None
            if rest is not None:
                other = max(explicit_values) + 1 if explicit_values else 0
                res.append((other, rest))
            return res
        if v[0] == "pending-discr":
            sv = v[1]
            ty = sv[2]
            res = []
            if self.is_option(ty):
                for d, truth in ((1, True), (0, False)):
                    pc2 = self.assume(pc, ("is", sv[1], "Some"), truth)
                    if pc2 is not None:
                        res.append((d, pc2))
                return res
            a = self.adt_of(ty)
            if a is None:
                raise Unmodelled("discriminant of symbolic %s" % ty)
            names = [x["name"] for x in a["variants"]]
            ds = a["discrs"] or list(range(len(names)))
            for nme, d in zip(names, ds):
                pc2 = pc
                known = [x for x, t in pc if x[0] == "is" and x[1] == sv[1] and t]
                if known:
                    if known[0][2] != nme:
                        continue
                else:
                    pc2 = pc + ((("is", sv[1], nme), True),)
                res.append((d, pc2))
            return res
        raise Unmodelled("switch on %s" % (v,))

    def assume(self, pc, atom, truth):
        """Add atom=truth to the path condition; None when contradictory with what is known."""
        for a, t in pc:
            if a == atom:
                return pc if t == truth else None
        # simple theory: variants and lengths
        if atom[0] == "is":
            for a, t in pc:
                if a[0] == "is" and a[1] == atom[1] and t and truth and a[2] != atom[2]:
                    return None
        if atom[0] == "len>":
            _, term, n = atom
            lo, hi = self.len_bounds(pc, term)
            if truth:
                lo = max(lo, n + 1)
            else:
                hi = min(hi, n)
            if lo > hi:
                return None
        if atom[0] == "cmp":
            # contradictory orderings of the same pair
            _, op, a_, b_ = atom
            for (o, t) in pc:
                if o[0] == "cmp" and o[2] == a_ and o[3] == b_ and t and truth:
                    if {o[1], op} in ({"Eq", "Ne"}, {"Eq", "Lt"}, {"Eq", "Gt"}, {"Lt", "Gt"}, {"Lt", "Ge"}, {"Gt", "Le"}):
                        return None
                if o[0] == "cmp" and o[2] == a_ and o[3] == b_ and not t and not truth and {o[1], op} == {"Eq", "Ne"}:
                    return None
                if o[0] == "cmp" and o[2] == a_ and o[3] == b_ and (t != truth) and ((o[1], op) in (("Eq", "Eq"), ("Ne", "Ne"))):
                    return None
                if o[0] == "cmp" and o[2] == a_ and o[3] == b_ and o[1] == "Eq" and op == "Ne" and t == truth:
                    return None
                if o[0] == "cmp" and o[2] == a_ and o[3] == b_ and o[1] == "Ne" and op == "Eq" and t == truth:
                    return None
        return pc + ((atom, truth),)

    def len_bounds(self, pc, term):
        lo, hi = 0, 2
        for a, t in pc:
            if a[0] == "len>" and a[1] == term:
                if t:
                    lo = max(lo, a[2] + 1)
                else:
                    hi = min(hi, a[2])
        return lo, hi

    # -- places ------------------------------------------------------------------------------------

    def deref(self, env, v):
        guard = 0
        while v[0] == "ref" and guard < 16:
            v = self.project(env, env.get(v[1], UNIT), v[2])
            guard += 1
        return v

    def project(self, env, v, projs):
        for p in projs:
            if p == "*":
                v = self.deref(env, v)
                continue
            v = self.deref(env, v)
            if isinstance(p, tuple) and p[0] == "dc":
                if v[0] == "S":
                    v = S(("var", v[1], p[1]), v[2] + "@" + p[1]) if not self.is_option(v[2]) else v
                continue
            if isinstance(p, tuple) and p[0] == "f":
                i, name = p[1], p[2]
                if v[0] == "S":
                    ty = v[2]
                    variant = None
                    if "@" in ty:
                        ty, variant = ty.split("@")
                    if self.is_option(ty):
                        v = S(("var", v[1], "Some"), self.option_inner(ty))
                    else:
                        v = S(("fld", v[1], name), self.field_ty(ty, variant, name))
                elif v[0] in ("tup", "agg"):
                    v = v[-1][i]
                elif v[0] == "some":
                    v = v[1]
                elif v[0] == "ok":
                    v = v[1]
                elif v[0] == "clo":
                    v = v[2][i]
                elif v[0] == "C" and isinstance(v[1], tuple):
                    v = C(v[1][i])
                else:
                    raise Unmodelled("field %s of %s" % (name, v[:2]))
                continue
            if isinstance(p, tuple) and p[0] == "ci" and v[0] == "S" and not p[2] and (v[2].startswith("[") or v[2].startswith("alloc::vec::Vec<")):
                base, off = self.slice_base(v[1])
                v = S(("elem", base, off + p[1]), self.elem_ty(v[2]))
                continue
            if isinstance(p, tuple) and p[0] in ("ix", "ci"):
                raise Unmodelled("indexing projection")
            raise Unmodelled("projection %s" % (p,))
        return v

    @staticmethod
    def hproj(projs):
        out = []
        for p in projs:
            if p == "*":
                out.append("*")
            elif "dc" in p:
                out.append(("dc", p["dc"]))
            elif "f" in p:
                out.append(("f", p["f"], p["n"]))
            elif "ix" in p:
                out.append(("ix",))
            elif "ci" in p:
                out.append(("ci", p["ci"], bool(p.get("from_end"))))
            else:
                out.append(("x",))
        return tuple(out)

    def read(self, env, pl):
        return self.project(env, env.get(pl["l"], UNIT), self.hproj(pl["p"]))

    def write(self, env, pl, val):
        if not pl["p"]:
            env[pl["l"]] = val
            return
        base = env.get(pl["l"], UNIT)
        if pl["p"] == ["*"] and base[0] == "ref" and not base[2]:
            env[base[1]] = val
            return
        raise Unmodelled("store through projection")

    def operand(self, fn, env, op):
        k = op.get("k")
        if k in ("copy", "move"):
            return self.read(env, op["pl"])
        if k == "const":
            return self.const(fn, op)
        raise Unmodelled("operand")

    def const(self, fn, op):
        if "fn" in op:
            return ("fn", lib.callee_id(op["fn"]), op["fn"].get("path_args", ""))
        if op.get("closure"):
            return ("clo", op["closure"], ())
        if "promoted" in op:
            body = fn.j.get("promoted", [])[op["promoted"]]
            env = {}
            for b in body["blocks"]:
                for s in b["stmts"]:
                    if s["k"] == "assign" and not s["dst"]["p"]:
                        env[s["dst"]["l"]] = self.rvalue(fn, env, s["rv"])
                t = b["term"]
                if t["k"] == "call":
                    args = [self.deref(env, self.operand(fn, env, a)) for a in t["args"]]
                    env[t["dst"]["l"]] = ("agg", flow.short_name(flow.call_name(t)), tuple(args))
            return self.deref(env, env.get(0, UNIT))
        if "bytes" in op:
            return ("bytes", tuple(op["bytes"]))
        if "str" in op:
            return C(op["str"])
        if "bool" in op:
            return C(op["bool"])
        if "char" in op:
            return C(op["char"])
        if op.get("variant"):
            return C(("variant", clean_ty(op.get("ty", "")), op["variant"]))
        if "int" in op:
            return C(op["int"])
        if op.get("item"):
            return C(("item", op["item"].split("::")[-1]))
        if op.get("ty") == "()":
            return UNIT
        return C(("opaque", op.get("v", "")[:40]))

    # -- rvalues -----------------------------------------------------------------------------------

    def rvalue(self, fn, env, rv):
        k = rv["k"]
        if k == "use":
            return self.operand(fn, env, rv["op"])
        if k in ("ref", "rawptr"):
            pl = rv["pl"]
            projs = self.hproj(pl["p"])
            base = env.get(pl["l"], UNIT)
            if projs and projs[0] == "*" and base[0] == "ref":
                return ("ref", base[1], base[2] + projs[1:])
            if base[0] != "ref" and projs:
                # reference into a value: materialise the projected value (values are immutable here)
                return self.project(env, base, projs)
            return ("ref", pl["l"], projs)
        if k == "discr":
            v = self.deref(env, self.read(env, rv["pl"]))
            return self.discr(v)
        if k == "agg":
            ops = tuple(self.deref(env, self.operand(fn, env, o)) for o in rv["ops"])
            ak = rv.get("ak")
            if ak in ("tuple", "array"):
                return ("tup", ops)
            if ak == "closure":
                return ("clo", rv["closure"], ops)
            if ak == "adt":
                adt, var = rv["adt"], rv["variant"]
                if adt == "core::option::Option":
                    return NONE if var == "None" else SOME(ops[0])
                if adt == "core::result::Result":
                    return ("ok", ops[0]) if var == "Ok" else ("err",)
                if not ops:
                    return C(("variant", adt, var))
                return ("agg", "%s::%s" % (adt.split("::")[-1], var), ops)
            raise Unmodelled("aggregate %s" % ak)
        if k == "cast":
            v = self.deref(env, self.operand(fn, env, rv["op"]))
            return v
        if k == "bin":
            a = self.deref(env, self.operand(fn, env, rv["a"]))
            b = self.deref(env, self.operand(fn, env, rv["b"]))
            return self.binop(rv["op"], a, b)
        if k == "un":
            a = self.deref(env, self.operand(fn, env, rv["a"]))
            if rv["op"] == "Not":
                if a[0] == "C":
                    return C(not a[1])
                if a[0] == "atom":
                    return ("atom", ("not", a[1]))
            if rv["op"] == "Neg":
                if a[0] == "C":
                    return C(-a[1])
                return S(("app", "neg", a[1]), a[2])
            if rv["op"] == "PtrMetadata" and a[0] == "S" and (a[2].startswith("[") or a[2].startswith("alloc::vec::Vec<")):
                base, off = self.slice_base(a[1])
                return ("lenof", base, off)
            raise Unmodelled("unary %s" % rv["op"])
        if k == "repeat":
            return ("tup", ())
        raise Unmodelled("rvalue %s" % k)

    def discr(self, v):
        if v[0] == "none":
            return C(0)
        if v[0] == "some":
            return C(1)
        if v[0] == "ok":
            return C(0)
        if v[0] == "err":
            return C(1)
        if v[0] == "agg" and v[1].startswith("ControlFlow::"):
            return C(0 if v[1].endswith("Continue") else 1)
        if v[0] == "C" and isinstance(v[1], tuple) and v[1] and v[1][0] == "variant":
            if v[1][1] == "core::cmp::Ordering":
                return C({"Less": -1, "Equal": 0, "Greater": 1}[v[1][2]])
            a = self.prog.adts.get(v[1][1])
            names = [x["name"] for x in a["variants"]]
            ds = a["discrs"] or list(range(len(names)))
            return C(ds[names.index(v[1][2])])
        if v[0] == "S":
            return ("pending-discr", v)
        raise Unmodelled("discriminant of %s" % (v[:2],))

    def binop(self, op, a, b):
        base = op.replace("WithOverflow", "").replace("Unchecked", "")
        if a[0] == "C" and b[0] == "C" and not isinstance(a[1], tuple) and not isinstance(b[1], tuple):
            x, y = a[1], b[1]
            r = {"Eq": lambda: x == y, "Ne": lambda: x != y, "Lt": lambda: x < y, "Le": lambda: x <= y, "Gt": lambda: x > y, "Ge": lambda: x >= y,
                 "Add": lambda: x + y, "Sub": lambda: x - y, "Mul": lambda: x * y, "Div": lambda: int(x / y) if y else 0, "Rem": lambda: (abs(x) % abs(y)) * (1 if x >= 0 else -1) if y else 0,
                 "BitAnd": lambda: x & y, "BitOr": lambda: x | y}.get(base)
            if r is None:
                raise Unmodelled("binop %s" % op)
            v = C(r())
            return ("tup", (v, C(False))) if op.endswith("WithOverflow") else v
        if base in ("BitAnd", "BitOr") and (a[0] == "C" or b[0] == "C"):
            cst, other = (a, b) if a[0] == "C" else (b, a)
            if isinstance(cst[1], bool):
                if base == "BitAnd":
                    return other if cst[1] else C(False)
                return C(True) if cst[1] else other
        if base in ("Eq", "Ne", "Lt", "Le", "Gt", "Ge") and (a[0] == "lenof" or b[0] == "lenof"):
            flip = {"Eq": "Eq", "Ne": "Ne", "Lt": "Gt", "Le": "Ge", "Gt": "Lt", "Ge": "Le"}
            ln, cst, o = (a, b, base) if a[0] == "lenof" else (b, a, flip[base])
            if cst[0] != "C" or not isinstance(cst[1], int):
                raise Unmodelled("length compared with a non-constant")
            return ("atom", ("lencmp", o, ln[1], ln[2], cst[1]))
        if base in ("Eq", "Ne", "Lt", "Le", "Gt", "Ge"):
            return ("atom", ("cmp", base, self.key(a), self.key(b)))
        if a[0] in ("S", "C") and b[0] in ("S", "C"):
            ty = a[2] if a[0] == "S" else b[2]
            v = S(("bin", base, a, b), ty)
            return ("tup", (v, C(False))) if op.endswith("WithOverflow") else v
        raise Unmodelled("binop %s on %s, %s" % (op, a[:1], b[:1]))

    @staticmethod
    def key(v):
        if v[0] == "S":
            return ("S", v[1])
        return v

    # -- calls -------------------------------------------------------------------------------------

    def do_call(self, fn, env, t, out, pc, depth):
        c = t["callee"]
        if "indirect" in c:
            raise Unmodelled("indirect call")
        raw = [self.operand(fn, env, a) for a in t["args"]]
        args = [self.deref(env, a) for a in raw]
        names = [_nolt(c["def"])] + ([_nolt(c["resolved"]["def"])] if c.get("resolved") else [])
        name = names[-1]
        one = lambda v: [(v, env, out, pc)]

        # resolve pending discriminants lazily at use: handled in switch via ("pending-discr")
        # ---- formatting machinery
        if name.startswith("core::fmt::rt::Argument::new_"):
            kind = name.split("new_")[-1]
            ty = (c.get("gargs") or ["", ""])[-1]
            return one(("fmtarg", kind, args[0], clean_ty(ty)))
        if name.startswith("core::fmt::Arguments::new"):
            tmpl = args[0]
            arr = args[1]
            if tmpl[0] != "bytes" or arr[0] != "tup":
                raise Unmodelled("fmt::Arguments::new with untracked template")
            pieces = []
            for p in flow.decode_fmt_template(list(tmpl[1])):
                if p[0] == "lit":
                    pieces.append(("lit", p[1]))
                else:
                    a = arr[1][p[1]["index"]]
                    if a[0] != "fmtarg":
                        raise Unmodelled("format argument is not a fmt::rt::Argument")
                    spec = (p[1]["width"], p[1]["zero_pad"], p[1]["plus"], p[1]["precision"], p[1]["alternate"], p[1]["fill"])
                    pieces.append(("hole", a[1], a[2], a[3], spec))
            return one(("fmtargs", tuple(pieces)))
        if name == "core::fmt::Arguments::from_str":
            if args[0][0] != "C":
                raise Unmodelled("Arguments::from_str of non-constant")
            return one(("fmtargs", (("lit", args[0][1]),)))
        if name == "core::fmt::Formatter::write_fmt":
            if args[1][0] != "fmtargs":
                raise Unmodelled("write_fmt with untracked arguments")
            return [(("ok", UNIT), env, out + args[1][1], pc)]
        if name == "core::fmt::Formatter::write_str":
            if args[1][0] != "C":
                raise Unmodelled("write_str of non-constant")
            return [(("ok", UNIT), env, out + (("lit", args[1][1]),), pc)]
        if name.endswith("Try>::branch"):
            v = args[0]
            if v[0] in ("ok", "some"):
                return one(("agg", "ControlFlow::Continue", (v[1],)))
            if v[0] in ("err", "none"):
                return one(("agg", "ControlFlow::Break", (UNIT,)))
            raise Unmodelled("? on %s" % (v[:1],))
        if "FromResidual" in name:
            return one(("err",))
        # ---- workspace helpers: interpret
        rname = (c.get("resolved") or c)["def"]
        if names[0] in ("core::cmp::PartialEq::eq", "core::cmp::PartialEq::ne", "core::cmp::PartialOrd::lt", "core::cmp::PartialOrd::le", "core::cmp::PartialOrd::gt", "core::cmp::PartialOrd::ge", "core::cmp::Ord::cmp"):
            return self.library(fn, env, t, name, names[0], args, raw, out, pc, depth)
        tf = self.prog.fns.get(rname)
        if tf is not None and tf.crate == lib.SYN and re.match(r"&('static )?str$", tf.j.get("output", "")) and len(args) == 1 and args[0][0] == "S":
            a = self.adt_of(args[0][2])
            if a is not None and all(not v["fields"] for v in a["variants"]):
                # a token table (variant -> literal): keep it as a table lookup hole
                return one(S(("app", "table:" + rname, args[0][1]), "str"))
        if rname in self.prog.fns and self.prog.fns[rname].crate in (lib.SYN,) and not self.is_display_fmt(rname):
            res = []
            for rv, out2, pc2 in self.call(rname, tuple(args), out, pc, depth + 1):
                res.append((rv, env, out2, pc2))
            return res
        if self.is_display_fmt(rname):
            # a child printed by calling its fmt directly
            v = args[0]
            return [(("ok", UNIT), env, out + (("hole", "display", v, v[2] if v[0] == "S" else "", (None, False, False, None, False, " ")),), pc)]
        return self.library(fn, env, t, name, names[0], args, raw, out, pc, depth)

    def is_display_fmt(self, name):
        f = self.prog.fns.get(name)
        return f is not None and f.impl is not None and f.impl.get("trait") == "core::fmt::Display" and f.name == "fmt"

    def bit_choices(self, pc, term, n):
        """Concrete values of a [bool; n] field. Exhaustive; in the reduced mode a second array is
        only taken all-true / all-false when another array of the path is already mixed."""
        other = {}
        for a, t in pc:
            if a[0] == "bit" and a[1] != term:
                other.setdefault(a[1], []).append(t)
        mixed = any(len(set(v)) > 1 for v in other.values())
        if mixed and not self.full_bits:
            return [tuple([True] * n), tuple([False] * n)]
        return list(itertools.product((True, False), repeat=n))

    def fork_atom(self, env, out, pc, atom, on_true=C(True), on_false=C(False)):
        res = []
        for truth, val in ((True, on_true), (False, on_false)):
            pc2 = self.assume(pc, atom, truth)
            if pc2 is not None:
                res.append((val, env, out, pc2))
        return res

    def library(self, fn, env, t, name, decl, args, raw, out, pc, depth):
        one = lambda v: [(v, env, out, pc)]
        c = t["callee"]
        outty = c.get("output", "")
        a0 = args[0] if args else None

        def set_ref(ref, val):
            e = dict(env)
            if ref[0] == "ref" and not ref[2]:
                e[ref[1]] = val
                return e
            raise Unmodelled("mutation through a projected reference")

        # ranges / newtypes / options
        if re.search(r"core::ops::range::RangeInclusive::<Idx>::(start|end)$", name) and a0[0] == "S":
            m = re.search(r"<(.*)>$", a0[2])
            return one(S(("fld", a0[1], name.split("::")[-1]), m.group(1) if m else ""))
        if decl == "core::ops::deref::Deref::deref" and a0[0] == "S":
            if a0[2].startswith("alloc::vec::Vec<"):
                return one(S(a0[1], "[" + a0[2][len("alloc::vec::Vec<"):-1] + "]"))
            if a0[2].startswith(SYN + "sorted_vec::UniqueSortedVec<"):
                return one(S(a0[1], "[" + a0[2][len(SYN + "sorted_vec::UniqueSortedVec<"):-1] + "]"))
            return one(a0)
        if decl in ("core::clone::Clone::clone", "core::borrow::Borrow::borrow", "core::convert::AsRef::as_ref") or name.endswith("::as_slice"):
            return one(a0)
        if name == "core::option::Option::<T>::is_some" or name == "core::option::Option::<T>::is_none":
            want_some = name.endswith("is_some")
            if a0[0] in ("some", "none"):
                return one(C((a0[0] == "some") == want_some))
            if a0[0] == "S":
                return self.fork_atom(env, out, pc, ("is", a0[1], "Some"), C(want_some), C(not want_some))
        # comparisons
        if decl in ("core::cmp::PartialEq::eq", "core::cmp::PartialEq::ne"):
            x, y = args
            r = self.static_eq(x, y)
            neg = decl.endswith("ne")
            if r is not None:
                return one(C(r != neg))
            # Option<&T> == Some(&X) with a decided option
            if x[0] == "some" and y[0] == "some":
                x, y = x[1], y[1]
            elif (x[0] == "none") != (y[0] == "none") and x[0] in ("some", "none") and y[0] in ("some", "none"):
                return one(C(neg))
            atom = ("cmp", "Eq", self.key(x), self.key(y))
            # comparison with a variant constant is the same fact as a `match` on that variant
            for u, w in ((x, y), (y, x)):
                if u[0] == "S" and w[0] == "C" and isinstance(w[1], tuple) and w[1] and w[1][0] == "variant":
                    atom = ("is", u[1], w[1][2])
            return self.fork_atom(env, out, pc, atom, C(not neg), C(neg))
        if decl in ("core::cmp::PartialOrd::lt", "core::cmp::PartialOrd::le", "core::cmp::PartialOrd::gt", "core::cmp::PartialOrd::ge"):
            op = {"lt": "Lt", "le": "Le", "gt": "Gt", "ge": "Ge"}[decl.split("::")[-1]]
            v = self.binop(op, args[0], args[1])
            if v[0] == "C":
                return one(v)
            return self.fork_atom(env, out, pc, v[1])
        if decl == "core::cmp::Ord::cmp":
            x, y = args
            if x[0] == "C" and y[0] == "C":
                o = "Less" if x[1] < y[1] else ("Equal" if x[1] == y[1] else "Greater")
                return one(C(("variant", "core::cmp::Ordering", o)))
            res = []
            for o, op in (("Less", "Lt"), ("Equal", "Eq"), ("Greater", "Gt")):
                pc2 = self.assume(pc, ("cmp", op, self.key(x), self.key(y)), True)
                if pc2 is not None:
                    res.append((C(("variant", "core::cmp::Ordering", o)), env, out, pc2))
            return res
        # lists
        if name in ("core::slice::<impl [T]>::first", "core::slice::<impl [T]>::is_empty", "alloc::vec::Vec::<T>::is_empty", "alloc::vec::Vec::<T, A>::is_empty", "core::slice::<impl [T]>::len", "alloc::vec::Vec::<T, A>::len", "alloc::vec::Vec::<T>::len") and a0[0] == "S":
            term = a0[1]
            base, off = self.slice_base(term)
            elem_ty = self.elem_ty(a0[2])
            if name.endswith("::len"):
                res = []
                lo, hi = self.len_bounds(pc, base)
                for n in range(lo, hi + 1):
                    pc2 = pc
                    if n > 0:
                        pc2 = self.assume(pc2, ("len>", base, n - 1), True)
                    if pc2 is not None and n < 2:
                        pc2 = self.assume(pc2, ("len>", base, n), False)
                    if pc2 is not None:
                        res.append((C(n - off if n >= off else 0), env, out, pc2))
                return res
            some = SOME(S(("elem", base, off), elem_ty)) if name.endswith("first") else C(False)
            none = NONE if name.endswith("first") else C(True)
            return self.fork_atom(env, out, pc, ("len>", base, off), some, none)
        if decl == "core::ops::index::Index::index" and a0[0] == "S" and args[1][0] == "agg" and args[1][1].startswith("RangeFrom"):
            start = args[1][2][0]
            if start[0] != "C":
                raise Unmodelled("slice start not constant")
            base, off = self.slice_base(a0[1])
            ety = self.elem_ty(a0[2])
            return one(S(("slice", base, off + start[1]), "[" + ety + "]"))
        if decl == "core::ops::index::Index::index" and a0[0] == "C" and isinstance(a0[1], str) and args[1][0] == "agg" and args[1][1].startswith("RangeTo"):
            return one(C(a0[1][:args[1][2][0][1]]))
        if name.endswith("for str>::index") and a0[0] == "S" and a0[1][0] == "app" and a0[1][1].startswith("table:") and args[1][0] == "agg" and args[1][1].startswith("RangeTo") and args[1][2][0][0] == "C":
            # prefix of a token-table lookup: still a table hole, with the prefix length
            return one(S(("app", "%s[..%d]" % (a0[1][1], args[1][2][0][1]), a0[1][2]), "str"))
        if decl == "core::iter::traits::collect::IntoIterator::into_iter" or name == "core::slice::<impl [T]>::iter":
            if a0[0] == "S" and re.match(r"\[bool(; \d+)?\]", a0[2]):
                n = 5
                res = []
                for bits in self.bit_choices(pc, a0[1], n):
                    pc2 = pc
                    for i, b in enumerate(bits):
                        pc2 = self.assume(pc2, ("bit", a0[1], i), b) if pc2 is not None else None
                    if pc2 is not None:
                        res.append((("iterc", tuple(C(b) for b in bits)), env, out, pc2))
                return res
            if a0[0] == "S" and (a0[2].startswith("[") or a0[2].startswith("alloc::vec::Vec<")):
                base, off = self.slice_base(a0[1])
                return one(("symiter", base, off, self.elem_ty(a0[2])))
            if a0[0] == "tup":
                return one(("iterc", a0[1]))
            if a0[0] in ("iterc", "symiter"):
                return one(a0)
            if a0[0] == "S" and re.match(r"\[bool; \d+\]", a0[2]):
                n = int(re.match(r"\[bool; (\d+)\]", a0[2]).group(1))
                res = []
                for bits in itertools.product((True, False), repeat=n):
                    pc2 = pc
                    for i, b in enumerate(bits):
                        pc2 = self.assume(pc2, ("bit", a0[1], i), b) if pc2 is not None else None
                    if pc2 is not None:
                        res.append((("iterc", tuple(C(b) for b in bits)), env, out, pc2))
                return res
        if name == "core::slice::<impl [T]>::contains" and a0[0] == "S" and re.match(r"\[bool(; \d+)?\]", a0[2]):
            n = 5
            needle = args[1]
            res = []
            for bits in self.bit_choices(pc, a0[1], n):
                pc2 = pc
                for i, b in enumerate(bits):
                    pc2 = self.assume(pc2, ("bit", a0[1], i), b) if pc2 is not None else None
                if pc2 is not None:
                    res.append((C(needle[1] in bits), env, out, pc2))
            return res
        if decl == "core::iter::traits::iterator::Iterator::skip" and a0[0] == "symiter" and args[1][0] == "C" and isinstance(args[1][1], int):
            return one(("symiter", a0[1], a0[2] + args[1][1], a0[3]))
        if decl == "core::ops::index::Index::index" and a0[0] == "S" and (a0[2].startswith("[") or a0[2].startswith("alloc::vec::Vec<")) and args[1][0] == "C" and isinstance(args[1][1], int) and not isinstance(args[1][1], bool):
            # list[i] with a constant index: defined when the list is long enough (else the printer panics)
            base, off = self.slice_base(a0[1])
            i_ = off + args[1][1]
            if i_ > 1:
                raise Unmodelled("constant index %d beyond the length abstraction" % i_)
            pc2 = self.assume(pc, ("len>", base, i_), True)
            if pc2 is None:
                self.panics.append((pc, lib.where_of(fn, t)))
                return []
            pcf = self.assume(pc, ("len>", base, i_), False)
            if pcf is not None:
                self.panics.append((pcf, lib.where_of(fn, t)))
            return [(S(("elem", base, i_), self.elem_ty(a0[2])), env, out, pc2)]
        if name == "core::slice::<impl [T]>::contains" and a0[0] == "S" and (a0[2].startswith("[") or a0[2].startswith("alloc::vec::Vec<")):
            # exists i: list[i] == needle, over the abstract lengths {0, 1, >=2 (first two elements)}
            base, off = self.slice_base(a0[1])
            ety = self.elem_ty(a0[2])
            needle = self.deref(env, args[1])
            res = []
            lo, hi = self.len_bounds(pc, base)
            for n in range(lo, hi + 1):
                pc2 = pc
                if n > 0:
                    pc2 = self.assume(pc2, ("len>", base, n - 1), True)
                if pc2 is not None and n < 2:
                    pc2 = self.assume(pc2, ("len>", base, n), False)
                if pc2 is None:
                    continue
                states = [pc2]
                for i in range(off, n):
                    nxt = []
                    for q in states:
                        atom = ("cmp", "Eq", self.key(S(("elem", base, i), ety)), self.key(needle))
                        qt = self.assume(q, atom, True)
                        if qt is not None:
                            res.append((C(True), env, out, qt))
                        qf = self.assume(q, atom, False)
                        if qf is not None:
                            nxt.append(qf)
                    states = nxt
                for q in states:
                    res.append((C(False), env, out, q))
            return res
        if decl == "core::iter::traits::iterator::Iterator::enumerate" and a0[0] == "iterc":
            return one(("iterc", tuple(("tup", (C(i), x)) for i, x in enumerate(a0[1]))))
        if decl in ("core::iter::traits::iterator::Iterator::filter", "core::iter::traits::iterator::Iterator::map") and a0[0] == "iterc":
            items = []
            for x in a0[1]:
                rs = self.apply(args[1], [x], out, pc, depth)
                if len(rs) != 1:
                    raise Unmodelled("closure over concrete items forks")
                r = rs[0][0]
                if decl.endswith("filter"):
                    if r[0] != "C":
                        raise Unmodelled("filter predicate not concrete")
                    if r[1]:
                        items.append(x)
                else:
                    items.append(r)
            return one(("iterc", tuple(items)))
        if decl == "core::iter::traits::iterator::Iterator::chain" and a0[0] == "iterc" and args[1][0] == "iterc":
            return one(("iterc", a0[1] + args[1][1]))
        if decl == "core::iter::traits::iterator::Iterator::zip":
            b0 = args[1]
            if b0[0] == "S" and (b0[2].startswith("[") or b0[2].startswith("alloc::vec::Vec<")):
                bb_, bo_ = self.slice_base(b0[1])
                b0 = ("symiter", bb_, bo_, self.elem_ty(b0[2]))
            if a0[0] == "symiter" and b0[0] == "symiter" and a0[1] == b0[1]:
                # two cursors over the same list (`xs.iter().zip(&xs[1..])`): pairs (xs[i], xs[i + d])
                return one(("symzip", a0[1], a0[2], b0[2], a0[3]))
            raise Unmodelled("zip of unrelated sequences")
        if decl == "core::iter::traits::iterator::Iterator::next" and a0[0] == "symzip":
            _, base, i, j, ety = a0
            ref = raw[0]
            far = max(i, j)
            res = []
            if far < 2:
                pc2 = self.assume(pc, ("len>", base, far), True)
                if pc2 is not None:
                    res.append((SOME(("tup", (S(("elem", base, i), ety), S(("elem", base, j), ety)))), set_ref(ref, ("symzip", base, i + 1, j + 1, ety)), out, pc2))
                pc3 = self.assume(pc, ("len>", base, far), False)
                if pc3 is not None:
                    res.append((NONE, env, out, pc3))
            else:
                res.append((NONE, env, out, pc))  # lists longer than 2 are represented by length 2
            return res
        if decl == "core::iter::traits::collect::IntoIterator::into_iter" and a0[0] == "symzip":
            return one(a0)
        if decl == "core::iter::traits::iterator::Iterator::next":
            ref = raw[0]
            it = a0
            if it[0] == "iterc":
                if not it[1]:
                    return one(NONE)
                return [(SOME(it[1][0]), set_ref(ref, ("iterc", it[1][1:])), out, pc)]
            if it[0] == "symiter":
                _, base, i, ety = it
                res = []
                if i <= 2:
                    pc2 = self.assume(pc, ("len>", base, i), True)
                    if pc2 is not None and i < 2:
                        res.append((SOME(S(("elem", base, i), ety)), set_ref(ref, ("symiter", base, i + 1, ety)), out, pc2))
                    elif pc2 is not None:
                        pass  # lists longer than 2 are represented by length 2
                pc3 = self.assume(pc, ("len>", base, i), False) if i < 2 else pc
                if pc3 is not None:
                    res.append((NONE, env, out, pc3))
                return res
        if name.startswith("core::option::Option::<T>::unwrap") or name.startswith("core::option::Option::<T>::expect"):
            if a0[0] == "some":
                return one(a0[1])
            if a0[0] == "none":
                self.panics.append((pc, lib.where_of(fn, t)))
                return []  # a panic path: not an output (recorded for the caller)
        # numbers
        if re.search(r"core::num::<impl \w+>::(abs|unsigned_abs)$", name):
            if a0[0] == "C":
                return one(C(abs(a0[1])))
            return one(S(("app", "abs", a0[1]), a0[2]))
        if name in ("chrono::time_delta::TimeDelta::num_hours", "chrono::time_delta::TimeDelta::num_minutes"):
            return one(S(("app", name.split("::")[-1], a0[1]), "i64"))
        if re.search(r"core::convert::num::<impl core::convert::From<\w+> for \w+>::from$", name) or name in ("<T as core::convert::Into<U>>::into",):
            return one(a0)
        if name == "alloc::slice::<impl [S]>::join" or name.endswith("::join"):
            return one(S(("app", "join", a0[1], args[1][1] if args[1][0] == "C" else "?"), "alloc::string::String"))
        if name == "core::hint::must_use":
            return one(a0)
        m_ = re.fullmatch(r"<(\w+) as core::default::Default>::default", name)
        if m_ and m_.group(1) in ("i8", "i16", "i32", "i64", "isize", "u8", "u16", "u32", "u64", "usize"):
            return one(C(0))
        if m_ and m_.group(1) == "bool":
            return one(C(False))
        raise Unmodelled("library call %s" % name)

    def apply(self, f, args, out, pc, depth):
        if f[0] == "clo":
            return self.call(f[1], (f,) + tuple(args), out, pc, depth + 1)
        if f[0] == "fn" and f[1] in self.prog.fns:
            return self.call(f[1], tuple(args), out, pc, depth + 1)
        raise Unmodelled("apply %s" % (f[:2],))

    @staticmethod
    def slice_base(term):
        if term[0] == "slice":
            return term[1], term[2]
        return term, 0

    @staticmethod
    def elem_ty(ty):
        t = clean_ty(ty)
        if t.startswith("["):
            return t[1:-1].split(";")[0]
        m = re.match(r"alloc::vec::Vec<(.*)>$", t)
        if m:
            return m.group(1)
        m = re.match(r".*UniqueSortedVec<(.*)>$", t)
        if m:
            return m.group(1)
        return ""

    def static_eq(self, x, y):
        if x[0] == "C" and y[0] == "C":
            return x[1] == y[1]
        if x[0] in ("some", "none") and y[0] in ("some", "none") and x[0] != y[0]:
            return False
        if x[0] == "none" and y[0] == "none":
            return True
        return None


def _nolt(name):
    """Drop lifetime arguments from a path (`Formatter::<'a>::write_fmt` -> `Formatter::write_fmt`)."""
    name = re.sub(r"::<'\w+>", "", name)
    name = re.sub(r"<'\w+>", "", name)
    name = re.sub(r"'\w+, ", "", name)
    return name


def split_top(s):
    parts, depth, cur = [], 0, ""
    for ch in s:
        if ch in "<([":
            depth += 1
        if ch in ">)]":
            depth -= 1
        if ch == "," and depth == 0:
            parts.append(cur.strip())
            cur = ""
        else:
            cur += ch
    if cur.strip():
        parts.append(cur.strip())
    return parts
