"""Shared library for the static rules: fact base loading, call graph, reachability,
field-dependency analysis (reads), small dataflow helpers, violation/evidence plumbing.

Everything here works on the JSON facts written by engines/mirfacts (rustc MIR with resolved
callees and field names). No repository code is executed.
"""

import collections
import glob
import hashlib
import json
import os
import re
import subprocess
import sys
import time

VERIF = os.path.dirname(os.path.dirname(os.path.abspath(__file__)))
REPO = os.environ.get("VERIF_REPO", "/repo")
CACHE = os.environ.get("VERIF_CACHE") or os.path.join(VERIF, ".cache")
# where evidence/ is written (the self-test redirects it so that it never touches the real evidence)
OUT = os.environ.get("VERIF_OUT") or VERIF

# Workspace crates (prefix names as written by the driver)
WS_LIBS = ["compact_calendar", "opening_hours_syntax", "opening_hours"]
WS_ALL = WS_LIBS + ["opening_hours_py", "build_script_build", "schedule", "stub_gen", "fuzz", "fuzz_oh"]

SYN = "opening_hours_syntax"
OH = "opening_hours"
CC = "compact_calendar"
PY = "opening_hours_py"


# Which trait impls of a workspace type a third-party generic callee can call back
# (first match wins; no match = every trait impl of the type).
CALLBACK_TRAITS = [
    (r"core::fmt::rt::Argument::<'_>::new_display$|ToString::to_string$", {"core::fmt::Display"}),
    (r"core::fmt::rt::Argument::<'_>::new_debug$", {"core::fmt::Debug"}),
    (r"core::fmt::rt::Argument::<'_>::new_", {"core::fmt::Display", "core::fmt::Debug", "core::fmt::LowerHex", "core::fmt::UpperHex"}),
    (r"::try_into$|::into$|::try_from$|::from$", {"core::convert::From", "core::convert::TryFrom", "core::convert::Into", "core::convert::TryInto"}),
    (r"::contains$|::cmp$|::partial_cmp$|::min$|::max$|::sort|binary_search|::lt$|::le$|::gt$|::ge$|::is_sorted|::clamp$|::dedup", {"core::cmp::Ord", "core::cmp::PartialOrd", "core::cmp::PartialEq", "core::cmp::Eq"}),
    (r"::eq$|::ne$|::position$|::rposition$|::starts_with$|::ends_with$", {"core::cmp::PartialEq", "core::cmp::Eq"}),
    (r"::clone$|::cloned$|::to_owned$|::to_vec$|::clone_from$|::resize", {"core::clone::Clone"}),
    (r"::hash$|HashMap|HashSet", {"core::hash::Hash", "core::cmp::PartialEq", "core::cmp::Eq"}),
    (r"::default$|::unwrap_or_default$|::take$|mem::take", {"core::default::Default"}),
    (r"::is_empty$|::len$|::iter$|::first$|::last$|::get$|::push$|::pop$|::as_slice$|::deref$|::as_ref$|::is_some$|::is_none$|::unwrap|::expect$|::new$|::peek$|::map$|::and_then$|::ok_or|::filter$", set()),
]


class CheckerBroken(Exception):
    """The checker itself cannot run (missing facts, toolchain...). Exit code 2, never a verdict."""


# --------------------------------------------------------------------------------------------
# Fact base
# --------------------------------------------------------------------------------------------


class Fn:
    __slots__ = ("j", "id", "kind", "crate", "name", "blocks", "locals", "impl", "parent", "module",
                 "_uses", "_defs", "prog")

    def __init__(self, j, crate, prog):
        self.j = j
        self.id = j["id"]
        self.kind = j["kind"]
        self.crate = crate
        self.name = j.get("name", "")
        self.blocks = j["blocks"]
        self.locals = j["locals"]
        self.impl = j.get("impl")
        self.parent = j.get("parent")
        self.module = j.get("module")
        self._uses = None
        self._defs = None
        self.prog = prog

    @property
    def file(self):
        return self.j["sp"]["file"]

    @property
    def line(self):
        return self.j["sp"]["line"]

    @property
    def vis(self):
        return self.j.get("vis")

    @property
    def from_expansion(self):
        return bool(self.j["sp"]["exp"])

    def loc(self):
        return "%s:%s" % (self.file, self.line)

    def live_blocks(self):
        """(index, block) for non-cleanup blocks."""
        for i, b in enumerate(self.blocks):
            if not b["cleanup"]:
                yield i, b

    def calls(self, include_cleanup=False):
        for i, b in enumerate(self.blocks):
            if b["cleanup"] and not include_cleanup:
                continue
            t = b["term"]
            if t["k"] == "call":
                yield i, t

    def stmts(self):
        for i, b in self.live_blocks():
            for s in b["stmts"]:
                yield i, s

    def succs(self, i):
        t = self.blocks[i]["term"]
        k = t["k"]
        if k in ("goto", "drop", "assert"):
            return [t["t"]]
        if k == "call":
            return [t["t"]] if t["t"] is not None else []
        if k == "switch":
            return [b for _, b in t["targets"]] + [t["otherwise"]]
        return []

    def dominates(self, a, b):
        """Does block a dominate block b?"""
        cur = b
        guard = 0
        while cur is not None and guard < 100000:
            if cur == a:
                return True
            cur = self.blocks[cur]["idom"]
            guard += 1
        return False

    # -- def/use over whole locals -------------------------------------------------------------

    def _index(self):
        uses = collections.defaultdict(list)  # local -> [(bb, kind, node)]
        defs = collections.defaultdict(list)  # local -> [(bb, stmt or term)]
        for i, b in enumerate(self.blocks):
            if b["cleanup"]:
                continue
            for s in b["stmts"]:
                if s["k"] == "assign":
                    for pl in rvalue_places(s["rv"]):
                        uses[pl["l"]].append((i, "stmt", s))
                        for ix in place_index_locals(pl):
                            uses[ix].append((i, "stmt", s))
                    d = s["dst"]
                    if d["p"]:
                        # writing through a projection also "uses" the base
                        uses[d["l"]].append((i, "stmt-dst", s))
                    else:
                        defs[d["l"]].append((i, s))
            t = b["term"]
            for pl in term_places(t):
                uses[pl["l"]].append((i, "term", t))
            if t["k"] == "call":
                d = t["dst"]
                if d["p"]:
                    uses[d["l"]].append((i, "term-dst", t))
                else:
                    defs[d["l"]].append((i, t))
        self._uses, self._defs = uses, defs

    def uses_of(self, local):
        if self._uses is None:
            self._index()
        return self._uses.get(local, [])

    def defs_of(self, local):
        if self._defs is None:
            self._index()
        return self._defs.get(local, [])


def operand_place(op):
    if op and op.get("k") in ("copy", "move"):
        return op["pl"]
    return None


def rvalue_operands(rv):
    k = rv["k"]
    if k in ("use", "cast", "repeat"):
        return [rv["op"]]
    if k == "bin":
        return [rv["a"], rv["b"]]
    if k == "un":
        return [rv["a"]]
    if k == "agg":
        return rv["ops"]
    return []


def rvalue_places(rv):
    res = []
    for op in rvalue_operands(rv):
        p = operand_place(op)
        if p is not None:
            res.append(p)
    if rv["k"] in ("ref", "rawptr", "discr"):
        res.append(rv["pl"])
    return res


def term_operands(t):
    k = t["k"]
    if k == "call":
        ops = list(t["args"])
        if "indirect" in t["callee"]:
            ops.append(t["callee"]["indirect"])
        return ops
    if k == "switch":
        return [t["op"]]
    if k == "assert":
        return [t["cond"]] + t["ops"]
    return []


def term_places(t):
    res = []
    for op in term_operands(t):
        p = operand_place(op)
        if p is not None:
            res.append(p)
    if t["k"] == "drop":
        pass  # a drop is not a use for our purposes
    return res


def place_index_locals(pl):
    return [p["ix"] for p in pl["p"] if isinstance(p, dict) and "ix" in p]


def place_fields(pl):
    """Field projections of a place as [(adt, variant, field_name)]."""
    return [(p["adt"], p["v"], p["n"]) for p in pl["p"] if isinstance(p, dict) and "f" in p]


def callee_id(callee):
    """Best identifier of the function really called ('resolved' when the trait system could
    resolve the call, the declared callee otherwise)."""
    if "indirect" in callee:
        return None
    r = callee.get("resolved")
    if r:
        return r["def"]
    return callee["def"]


def callee_crate(callee):
    if "indirect" in callee:
        return None
    r = callee.get("resolved")
    if r:
        return r["crate"]
    return callee["crate"]


class Program:
    def __init__(self, facts_dir):
        self.facts_dir = facts_dir
        self.crates = {}
        self.fns = {}
        self.adts = {}
        self.statics = {}
        self.impls = []
        self.unsafe = []
        files = sorted(glob.glob(os.path.join(facts_dir, "*.json")))
        if not files:
            raise CheckerBroken("no fact files in %s" % facts_dir)
        seen = set()
        for f in files:
            with open(f) as fh:
                j = json.load(fh)
            key = (j["pkg"], j["crate"], tuple(j["crate_types"]))
            if key in seen:
                continue  # same crate compiled twice (host + target)
            seen.add(key)
            prefix = j["prefix"]
            self.crates[prefix] = j
            for fj in j["fns"]:
                fn = Fn(fj, prefix, self)
                self.fns[fn.id] = fn
            for a in j["adts"]:
                a["crate"] = prefix
                self.adts[a["id"]] = a
            for a in j.get("foreign_enums", []):
                a["crate"] = "(foreign)"
                a.setdefault("unsafe_cell", [])
                a.setdefault("ty_leaves", [])
                self.adts.setdefault(a["id"], a)
            for s in j["statics"]:
                s["crate"] = prefix
                self.statics[s["id"]] = s
            for im in j["impls"]:
                im["crate"] = prefix
                self.impls.append(im)
            for u in j["unsafe"]:
                u["crate"] = prefix
                self.unsafe.append(u)
        self._children = None
        self._cg = None
        self._impl_index = None

    # -- lookups -------------------------------------------------------------------------------

    def fn(self, fid):
        return self.fns.get(fid)

    def require_fn(self, fid):
        f = self.fns.get(fid)
        if f is None:
            raise AnchorMissing("function %s" % fid)
        return f

    def find_fns(self, pattern):
        rx = re.compile(pattern)
        return [f for f in self.fns.values() if rx.search(f.id)]

    def one_fn(self, pattern):
        r = self.find_fns(pattern)
        r = [f for f in r if f.kind in ("Fn", "AssocFn")]
        if len(r) != 1:
            raise AnchorMissing("exactly one function matching /%s/ (found %d: %s)" % (pattern, len(r), [f.id for f in r][:5]))
        return r[0]

    def impl_method(self, trait_suffix, self_adt=None, name=None, self_ty=None):
        """The method `name` of the impl of a trait (matched by path suffix) for a self type."""
        res = []
        for f in self.fns.values():
            im = f.impl
            if not im or not im.get("trait") or f.kind != "AssocFn":
                continue
            if not (im["trait"] == trait_suffix or im["trait"].endswith("::" + trait_suffix)):
                continue
            if self_adt is not None and im.get("self_adt") != self_adt:
                continue
            if self_ty is not None and im.get("self") != self_ty:
                continue
            if name is not None and f.name != name:
                continue
            res.append(f)
        return res

    def impl_method_one(self, trait_suffix, name, self_adt=None, self_ty=None):
        r = self.impl_method(trait_suffix, self_adt=self_adt, name=name, self_ty=self_ty)
        if len(r) != 1:
            raise AnchorMissing("impl %s for %s :: %s (found %d)" % (trait_suffix, self_adt or self_ty, name, len(r)))
        return r[0]

    def trait_impls(self, trait_suffix):
        return [im for im in self.impls if im.get("trait") and (im["trait"] == trait_suffix or im["trait"].endswith("::" + trait_suffix))]

    def adt(self, path):
        a = self.adts.get(path)
        if a is None:
            raise AnchorMissing("type %s" % path)
        return a

    def adt_fields(self, path):
        """{variant: [field names]}"""
        a = self.adt(path)
        return {v["name"]: [f["name"] for f in v["fields"]] for v in a["variants"]}

    def children(self, fid):
        """Closures (transitively) and nested items whose parent is fid."""
        if self._children is None:
            ch = collections.defaultdict(list)
            for f in self.fns.values():
                if f.parent:
                    ch[f.parent].append(f.id)
            self._children = ch
        res = []
        stack = list(self._children.get(fid, []))
        while stack:
            c = stack.pop()
            res.append(c)
            stack.extend(self._children.get(c, []))
        return res

    def closures(self, fid):
        return [c for c in self.children(fid) if self.fns[c].kind == "Closure"]

    def with_closures(self, fid):
        return [fid] + self.closures(fid)

    # -- call graph ----------------------------------------------------------------------------

    def trait_method_impls(self, trait, name):
        res = []
        for f in self.fns.values():
            im = f.impl
            if im and im.get("trait") == trait and f.name == name and f.kind == "AssocFn":
                res.append(f.id)
        return res

    def call_targets(self, callee):
        """Workspace function ids a call may reach. Resolved calls: the one target. Unresolved
        trait calls (generic receiver): every workspace impl of that trait method plus the
        provided method itself (class-hierarchy approximation)."""
        if "indirect" in callee:
            return []
        r = callee.get("resolved")
        if r:
            return [r["def"]] if r["def"] in self.fns else []
        res = []
        if callee.get("trait"):
            res.extend(self.trait_method_impls(callee["trait"], callee["name"]))
        if callee["def"] in self.fns:
            res.append(callee["def"])
        return res

    def callback_targets(self, callee):
        """Workspace trait-impl methods a *third-party generic* callee may call back: when such a
        callee is instantiated with a workspace type T (new_display::<T>, to_string, collect,
        sort, ...), every trait impl method of T is a possible target (over-approximation)."""
        if "indirect" in callee:
            return []
        crate = callee_crate(callee)
        if crate in WS_ALL:
            return []
        if self._impl_index is None:
            idx = collections.defaultdict(list)
            for f in self.fns.values():
                im = f.impl
                if im and im.get("trait") and im.get("self_adt") and f.kind == "AssocFn":
                    idx[im["self_adt"]].append(f.id)
            self._impl_index = idx
            self._display_all = [f.id for f in self.fns.values() if f.impl and f.impl.get("trait") in ("core::fmt::Display", "core::fmt::Debug") and f.kind == "AssocFn" and f.crate in WS_ALL]
        res = []
        name = (callee.get("resolved") or callee)["def"]
        allowed = None
        for rx, traits in CALLBACK_TRAITS:
            if re.search(rx, name) or re.search(rx, callee["def"]):
                allowed = traits
                break
        texts = list(callee.get("gargs", [])) + [callee.get("self_ty") or ""]
        for g in texts:
            base = g.replace("&", "").replace("mut ", "").strip()
            base = base.split("<")[0]
            if base in self._impl_index:
                for fid in self._impl_index[base]:
                    tr = self.fns[fid].impl.get("trait")
                    if allowed is None or tr in allowed:
                        res.append(fid)
            elif "impl " in g and ("Display" in g or "Debug" in g):
                res.extend(self._display_all)
        return res

    def fn_refs(self, fn):
        """Function items and closures mentioned as values (callbacks) in a body."""
        res = []

        def visit_op(op):
            if op.get("k") == "const":
                if "fn" in op:
                    res.extend(self.call_targets(op["fn"]))
                    res.append(("extern", op["fn"]))
                if "closure" in op and op["closure"] in self.fns:
                    res.append(op["closure"])

        for _, s in fn.stmts():
            if s["k"] != "assign":
                continue
            rv = s["rv"]
            for op in rvalue_operands(rv):
                visit_op(op)
            if rv["k"] == "agg" and rv.get("ak") == "closure" and rv["closure"] in self.fns:
                res.append(rv["closure"])
        for _, b in fn.live_blocks():
            for op in term_operands(b["term"]):
                visit_op(op)
        return res

    def callgraph(self):
        """fid -> set of workspace fids (calls, callbacks, closures)."""
        if self._cg is not None:
            return self._cg
        cg = {}
        for fid, fn in self.fns.items():
            out = set()
            for _, t in fn.calls():
                out.update(self.call_targets(t["callee"]))
                out.update(self.callback_targets(t["callee"]))
            for r in self.fn_refs(fn):
                if isinstance(r, str):
                    out.add(r)
            out.update(c for c in self.closures(fid))
            cg[fid] = out
        self._cg = cg
        return cg

    def reachable(self, roots):
        cg = self.callgraph()
        seen = set()
        stack = [r for r in roots if r in self.fns]
        parent = {}
        while stack:
            f = stack.pop()
            if f in seen:
                continue
            seen.add(f)
            for g in cg.get(f, ()):
                if g not in seen:
                    parent.setdefault(g, f)
                    stack.append(g)
        return seen, parent

    def path_to(self, parent, fid):
        p = [fid]
        guard = 0
        while fid in parent and guard < 200:
            fid = parent[fid]
            p.append(fid)
            guard += 1
        return list(reversed(p))

    def extern_calls(self, fids):
        """All call sites in the given functions, as (fn, bb, terminator)."""
        for fid in fids:
            fn = self.fns[fid]
            for i, t in fn.calls():
                yield fn, i, t


class AnchorMissing(Exception):
    pass


# --------------------------------------------------------------------------------------------
# reads(F, T): field-dependency completeness
# --------------------------------------------------------------------------------------------


def _mentions(type_strings, adt):
    return any(adt in s for s in type_strings)


def direct_reads(fn, adt):
    """{(variant, field)} of `adt` read in this body, counting a load only when the loaded value
    (or reference) is used afterwards."""
    res = {}

    def note(pl, where, bb, used=True):
        for (a, v, n) in place_fields(pl):
            if a == adt and used:
                res.setdefault((v, n), (fn.id, bb, where))

    for i, b in fn.live_blocks():
        for s in b["stmts"]:
            if s["k"] != "assign":
                continue
            dst = s["dst"]
            places = rvalue_places(s["rv"])
            if not places:
                continue
            used = True
            if not dst["p"]:
                # value lands in a plain local: require that the local is mentioned again
                used = any(u[2] is not s for u in fn.uses_of(dst["l"]))
            for pl in places:
                note(pl, s["sp"], i, used)
        t = b["term"]
        for pl in term_places(t):
            note(pl, t.get("sp"), i, True)
    # discriminant reads: a `match` on the enum itself counts as reading variant identity only
    return res


def reads(prog, fid, adt, depth=4, _seen=None):
    """Fields of `adt` read by function `fid`, its closures, and workspace callees that receive
    a value whose type mentions `adt` (recursively, bounded depth)."""
    if _seen is None:
        _seen = set()
    res = {}
    if fid in _seen or fid not in prog.fns:
        return res
    _seen.add(fid)
    for f in prog.with_closures(fid):
        fn = prog.fns[f]
        for k, v in direct_reads(fn, adt).items():
            res.setdefault(k, v)
        if depth <= 0:
            continue
        for _, t in fn.calls():
            c = t["callee"]
            if "indirect" in c:
                continue
            ins = c.get("inputs", []) + [c.get("self_ty") or ""] + c.get("gargs", [])
            if not _mentions(ins, adt):
                continue
            for g in prog.call_targets(c):
                for k, v in reads(prog, g, adt, depth - 1, _seen).items():
                    res.setdefault(k, v)
    return res


def variants_touched(fn_ids, prog, adt):
    """Variant names of `adt` whose fields are projected anywhere in the given functions."""
    res = set()
    for fid in fn_ids:
        for (v, n) in direct_reads(prog.fns[fid], adt):
            res.add(v)
    return res


# --------------------------------------------------------------------------------------------
# Small dataflow helpers
# --------------------------------------------------------------------------------------------


def backward_slice_locals(fn, start_locals, max_steps=2000):
    """Locals that (transitively) flow into the given locals through assignments and call
    results (intra-procedural, flow-insensitive). Returns {local: [defining nodes]}."""
    seen = {}
    work = list(start_locals)
    steps = 0
    while work and steps < max_steps:
        steps += 1
        l = work.pop()
        if l in seen:
            continue
        nodes = [n for _, n in fn.defs_of(l)]
        # also writes through projections / &mut
        seen[l] = nodes
        for n in nodes:
            if n["k"] == "assign":
                for pl in rvalue_places(n["rv"]):
                    work.append(pl["l"])
            elif n["k"] == "call":
                for op in n["args"]:
                    p = operand_place(op)
                    if p is not None:
                        work.append(p["l"])
    return seen


def slice_nodes(fn, start_locals):
    """All defining statements/terminators in the backward slice of the locals."""
    sl = backward_slice_locals(fn, start_locals)
    out = []
    for nodes in sl.values():
        out.extend(nodes)
    return out


def const_of(op):
    if op and op.get("k") == "const":
        return op
    return None


def is_call_to(t, *suffixes):
    if t["k"] != "call" or "indirect" in t["callee"]:
        return False
    ids = {t["callee"]["def"]}
    r = t["callee"].get("resolved")
    if r:
        ids.add(r["def"])
    for s in suffixes:
        for i in ids:
            if i == s or i.endswith("::" + s) or i.endswith(s):
                return True
    return False


# --------------------------------------------------------------------------------------------
# Tree hashing and fact extraction
# --------------------------------------------------------------------------------------------


def tree_hash(repo=REPO):
    h = hashlib.sha256()
    try:
        out = subprocess.run(["git", "-C", repo, "ls-files", "-co", "--exclude-standard", "-z"],
                             capture_output=True, check=True).stdout
        files = [f for f in out.decode().split("\0") if f]
    except Exception:
        files = []
        for root, dirs, fs in os.walk(repo):
            dirs[:] = [d for d in dirs if d not in ("target", ".git")]
            for f in fs:
                files.append(os.path.relpath(os.path.join(root, f), repo))
    for f in sorted(files):
        p = os.path.join(repo, f)
        if f.startswith("target/") or not os.path.isfile(p):
            continue
        h.update(f.encode() + b"\0")
        with open(p, "rb") as fh:
            h.update(hashlib.sha256(fh.read()).digest())
    return h.hexdigest()[:24]


def nightly_sysroot():
    return subprocess.run(["rustc", "+nightly", "--print", "sysroot"], capture_output=True, text=True, check=True).stdout.strip()


DRIVER = os.path.join(VERIF, "engines", "mirfacts", "target", "release", "mirfacts")

EXPECTED_UNITS = [
    ("compact-calendar", "compact_calendar"),
    ("opening-hours-syntax", "opening_hours_syntax"),
    ("opening-hours", "opening_hours"),
    ("opening-hours", "build_script_build"),
    ("opening-hours-py", "opening_hours"),
]


def extract_facts(config="workspace", cargo_args=None, log=None):
    """Run the MIR fact extractor over /repo's current working tree (once per tree state and
    configuration; guarded by a file lock). Returns the directory with the fact files."""
    import fcntl

    th = tree_hash()
    out = os.path.join(CACHE, "facts", th, config)
    stamp = os.path.join(out, "OK")
    os.makedirs(os.path.join(CACHE, "facts"), exist_ok=True)
    lock_path = os.path.join(CACHE, "lock-" + config)
    with open(lock_path, "w") as lk:
        fcntl.flock(lk, fcntl.LOCK_EX)
        if os.path.exists(stamp):
            return out, th, 0.0
        t0 = time.time()
        if not os.path.exists(DRIVER):
            raise CheckerBroken("mirfacts driver not built (run MANIFEST.setup_cmd): %s" % DRIVER)
        if os.path.isdir(out):
            import shutil
            shutil.rmtree(out)
        os.makedirs(out)
        target = os.path.join(CACHE, "target-" + config)
        # cargo must not skip the wrapper for workspace members: drop their fingerprints
        fp = os.path.join(target, "debug", ".fingerprint")
        if os.path.isdir(fp):
            import shutil
            for d in os.listdir(fp):
                if d.startswith(("opening-hours", "compact-calendar", "fuzz")):
                    shutil.rmtree(os.path.join(fp, d), ignore_errors=True)
        env = dict(os.environ)
        env.update({
            "LD_LIBRARY_PATH": nightly_sysroot() + "/lib",
            "RUSTFLAGS": "-Zmir-opt-level=0 -Awarnings",
            "RUSTC_WORKSPACE_WRAPPER": DRIVER,
            "MIRFACTS_OUT": out,
            "CARGO_TARGET_DIR": target,
            "CARGO_NET_OFFLINE": "true",
        })
        env.pop("RUSTC_WRAPPER", None)
        args = cargo_args or ["--workspace"]
        cmd = ["cargo", "+nightly", "check", "--offline"] + args
        p = subprocess.run(cmd, cwd=REPO, env=env, capture_output=True, text=True)
        if p.returncode != 0:
            tail = "\n".join(p.stderr.splitlines()[-40:])
            raise CheckerBroken("fact extraction failed (%s):\n%s" % (" ".join(cmd), tail))
        names = os.listdir(out)
        if config == "workspace":
            for pkg, cr in EXPECTED_UNITS:
                if not any(n.startswith("%s--%s--" % (pkg, cr)) for n in names):
                    raise CheckerBroken("fact file for %s/%s did not appear (wrapper skipped?)" % (pkg, cr))
        with open(stamp, "w") as fh:
            fh.write(th)
        # keep only the 3 most recent tree states
        root = os.path.join(CACHE, "facts")
        ds = sorted((os.path.getmtime(os.path.join(root, d)), d) for d in os.listdir(root))
        for _, d in ds[:-3]:
            if d != th:
                import shutil
                shutil.rmtree(os.path.join(root, d), ignore_errors=True)
        return out, th, time.time() - t0


_PROGRAMS = {}


def load_program(config="workspace", cargo_args=None):
    if config in _PROGRAMS:
        return _PROGRAMS[config]
    d, th, secs = extract_facts(config, cargo_args)
    prog = Program(d)
    prog.tree_hash = th
    prog.extract_s = secs
    _PROGRAMS[config] = prog
    return prog


# --------------------------------------------------------------------------------------------
# Results, violations, evidence
# --------------------------------------------------------------------------------------------


class Result:
    """Collects obligations, violations and coverage notes for one property check."""

    def __init__(self, prop):
        self.prop = prop
        self.rules = collections.OrderedDict()  # rule id -> dict
        self.violations = []  # dicts
        self.assumptions = []
        self.trusted = []
        self.notes = []

    def rule(self, rid, clause):
        r = self.rules.setdefault(rid, {"clause": clause, "obligations": 0, "discharged": 0, "instances": [], "floor": None})
        return RuleCtx(self, rid, r)

    def add_violation(self, rid, key, msg, where=None, detail=None):
        self.violations.append({
            "property": self.prop, "rule": rid, "key": key, "message": msg,
            "where": where, "detail": detail,
        })


class RuleCtx:
    def __init__(self, res, rid, r):
        self.res, self.rid, self.r = res, rid, r

    def ok(self, instance):
        """An obligation that was checked and holds."""
        self.r["obligations"] += 1
        self.r["discharged"] += 1
        if len(self.r["instances"]) < 400:
            self.r["instances"].append(instance)

    def fail(self, key, msg, where=None, detail=None):
        self.r["obligations"] += 1
        self.res.add_violation(self.rid, key, msg, where, detail)

    def check(self, cond, instance, key, msg, where=None, detail=None):
        if cond:
            self.ok(instance)
        else:
            self.fail(key, msg, where, detail)
        return cond

    def floor(self, n):
        """Fail closed when fewer instances than confirmed by hand were matched."""
        self.r["floor"] = n
        have = self.r["obligations"]
        if have < n:
            self.res.add_violation(self.rid, "%s:FLOOR" % self.rid,
                                   "FLOOR: rule matched %d instances, expected at least %d (anchor lost?)" % (have, n))

    def anchor_missing(self, what):
        self.r["obligations"] += 1
        self.res.add_violation(self.rid, "%s:ANCHOR-MISSING:%s" % (self.rid, what), "ANCHOR-MISSING: %s" % what)


def where_of(fn, node=None):
    if node is not None and node.get("sp"):
        return "%s:%s (in %s)" % (node["sp"]["file"], node["sp"]["line"], fn.id)
    return "%s (in %s)" % (fn.loc(), fn.id)


def feature_gates():
    """(additive gates, negative gates) in the non-test sources of the workspace. The facts come
    from the all-features build; it is a superset of every configuration iff no gate is negative."""
    pos, neg = 0, []
    for root, dirs, fs in os.walk(REPO):
        dirs[:] = [d for d in dirs if d not in ("target", ".git", "tests", "fuzz", "node_modules")]
        for f in fs:
            if not f.endswith(".rs"):
                continue
            p = os.path.join(root, f)
            try:
                txt = open(p, encoding="utf-8", errors="replace").read()
            except OSError:
                continue
            for m in re.finditer(r"cfg(?:_attr)?\s*\(([^\n]*)", txt):
                if "feature" not in m.group(1):
                    continue
                if re.search(r"not\s*\([^)]*feature", m.group(1)):
                    neg.append("%s:%d" % (os.path.relpath(p, REPO), txt.count("\n", 0, m.start()) + 1))
                else:
                    pos += 1
    return pos, neg


def load_known_findings():
    p = os.path.join(VERIF, "known_findings.json")
    if not os.path.exists(p):
        return []
    with open(p) as fh:
        return json.load(fh)["findings"]


def call_sccs(prog, roots, crates):
    """Non-trivial strongly connected components (recursion) of the workspace call graph
    reachable from `roots`, closures folded into their enclosing function, macro-generated and
    derived functions ignored. Edges: resolved calls, class-hierarchy targets of unresolved
    trait calls, callbacks through third-party generics, function items used as values."""
    reach, _ = prog.reachable(roots)
    reach = {f for f in reach if prog.fns[f].crate in crates}

    def root(f):
        x = prog.fns[f]
        guard = 0
        while x.kind == "Closure" and x.parent in prog.fns and guard < 16:
            x = prog.fns[x.parent]
            guard += 1
        return x.id

    def skip(f):
        x = prog.fns[f]
        return x.from_expansion or (x.impl and x.impl.get("derived"))

    g = collections.defaultdict(set)
    for f in reach:
        if skip(root(f)):
            continue
        fn = prog.fns[f]
        out = set()
        for _, t in fn.calls():
            out.update(prog.call_targets(t["callee"]))
            out.update(prog.callback_targets(t["callee"]))
        for r in prog.fn_refs(fn):
            if isinstance(r, str) and prog.fns[r].kind != "Closure":
                out.add(r)
        for h in out:
            if h in reach and not skip(root(h)):
                if root(h) == root(f) and prog.fns[h].kind == "Closure":
                    continue  # calling one's own closure is not recursion
                g[root(f)].add(root(h))
    idx, low, st, on, comps, c = {}, {}, [], set(), [], [0]

    def sc(v):
        work = [(v, iter(sorted(g.get(v, ()))))]
        idx[v] = low[v] = c[0]
        c[0] += 1
        st.append(v)
        on.add(v)
        while work:
            node, it = work[-1]
            adv = False
            for w in it:
                if w not in idx:
                    idx[w] = low[w] = c[0]
                    c[0] += 1
                    st.append(w)
                    on.add(w)
                    work.append((w, iter(sorted(g.get(w, ())))))
                    adv = True
                    break
                elif w in on:
                    low[node] = min(low[node], idx[w])
            if adv:
                continue
            work.pop()
            if work:
                low[work[-1][0]] = min(low[work[-1][0]], low[node])
            if low[node] == idx[node]:
                comp = []
                while True:
                    w = st.pop()
                    on.discard(w)
                    comp.append(w)
                    if w == node:
                        break
                if len(comp) > 1 or node in g.get(node, ()):
                    comps.append(sorted(comp))
    for v in sorted(g):
        if v not in idx:
            sc(v)
    return comps, len(reach)
