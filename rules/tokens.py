"""Token tables: grammar rule -> literals, builder Rule -> AST variant, printer variant -> text.
The three must commute for every enumerated AST type (C05.R4 / C06.R1)."""

import re

import flow
import lib
import peg

RULE = "opening_hours_syntax::parser::Rule"
P = "opening_hours_syntax::parser::"
DAY = "opening_hours_syntax::rules::day::"
TIME = "opening_hours_syntax::rules::time::"
RULES = "opening_hours_syntax::rules::"

# (grammar rule, builder fn, AST type, how the printer's text of a variant is obtained)
TABLES = [
    ("wday", P + "build_wday", "chrono::weekday::Weekday", ("fn_arms", DAY + "wday_str")),
    ("month", P + "build_month", DAY + "Month", ("month_display",)),
    ("event", P + "build_event", TIME + "TimeEvent", ("fn_arms", TIME + "TimeEvent::as_str")),
    ("rules_modifier_enum", P + "build_rules_modifier_enum", RULES + "RuleKind", ("fn_arms", RULES + "RuleKind::as_str")),
    ("holiday", P + "build_holiday", DAY + "HolidayKind", ("display_arms", DAY + "HolidayKind")),
    ("any_rule_separator", P + "build_any_rule_separator", RULES + "RuleOperator", ("separator",)),
    ("plus_or_minus", P + "build_plus_or_minus", P + "PlusOrMinus", ("none",)),
]


def builder_table(prog, fid, ast_type):
    """{grammar rule -> variant name} from the builder's match on Rule (explicit arms only)."""
    f = prog.require_fn(fid)
    arms = flow.enum_arms(prog, f, RULE)
    short = ast_type.split("::")[-1]
    table = {}
    for m in arms:
        for rule, a in m["arms"].items():
            if not a["explicit"]:
                continue
            vals = set()
            for l in range(len(f.locals)):
                for s in flow.shape_in(f, l, a["blocks"]):
                    mm = re.fullmatch(r"%s::(\w+)\{\}" % re.escape(short), s)
                    if mm:
                        vals.add(mm.group(1))
            if len(vals) == 1:
                table[rule] = sorted(vals)[0]
            elif vals:
                table[rule] = "|".join(sorted(vals))
    return f, table


def printer_table(prog, how, ast_type):
    """{variant -> printed text} or None when the type has no printer table."""
    kind = how[0]
    if kind == "fn_arms":
        f = prog.require_fn(how[1])
        arms = flow.enum_arms(prog, f, ast_type)
        if len(arms) != 1:
            raise lib.AnchorMissing("single match on %s in %s" % (ast_type, how[1]))
        out = {}
        for v, a in arms[0]["arms"].items():
            got = flow.shape_in(f, 0, a["blocks"])
            m = re.fullmatch(r"'([^']*)'", got[0]) if len(got) == 1 else None
            out[v] = m.group(1) if m else None
        return f, out
    if kind == "display_arms":
        f = prog.impl_method_one("core::fmt::Display", "fmt", self_adt=how[1])
        arms = flow.enum_arms(prog, f, ast_type)
        if len(arms) != 1:
            raise lib.AnchorMissing("single match on %s in its Display" % ast_type)
        out = {}
        for v, a in arms[0]["arms"].items():
            got = [s for s in flow.shape_in(f, 0, a["blocks"])]
            m = re.fullmatch(r"Formatter::write_fmt\(p2, Arguments::from_str\('([^']*)'\)\)", got[0]) if len(got) == 1 else None
            out[v] = m.group(1) if m else None
        return f, out
    if kind == "month_display":
        f = prog.impl_method_one("core::fmt::Display", "fmt", self_adt=ast_type)
        sh = flow.shape(f, 0)
        m = re.fullmatch(r"Formatter::write_fmt\(p2, Arguments::new\(const, array\(Argument::new_display\(traits::index\(p1, RangeTo\{end: (\d+)\}\)\)\)\)\)", sh)
        if not m:
            raise lib.AnchorMissing("Display for Month as a prefix of as_str (found %s)" % sh)
        # the template must be the bare placeholder
        tmpl = None
        for _, t in f.calls():
            if flow.call_name(t).startswith("core::fmt::Arguments::<'a>::new") and t["args"]:
                for o in flow.operand_origins(f, t["args"][0]):
                    if o.kind == "const" and o.node.get("bytes") is not None:
                        tmpl = flow.decode_fmt_template(o.node["bytes"])
        if tmpl is None or [p[0] for p in tmpl] != ["arg"]:
            raise lib.AnchorMissing("Display for Month prints more than the month name prefix")
        n = int(m.group(1))
        idx = [t for _, t in f.calls() if "as_str" in flow.call_name(t)]
        g, full = printer_table(prog, ("fn_arms", DAY + "Month::as_str"), ast_type)
        return f, {v: (s[:n] if s is not None else None) for v, s in full.items()}
    if kind == "separator":
        f = prog.impl_method_one("core::fmt::Display", "fmt", self_adt=RULES + "OpeningHoursExpression")
        arms = flow.enum_arms(prog, f, ast_type)
        if len(arms) != 1:
            raise lib.AnchorMissing("single match on RuleOperator in Display for OpeningHoursExpression")
        out = {}
        for v, a in arms[0]["arms"].items():
            vals = set()
            for l in range(len(f.locals)):
                for s in flow.shape_in(f, l, a["blocks"]):
                    mm = re.fullmatch(r"'([^']*)'", s)
                    if mm:
                        vals.add(mm.group(1))
            out[v] = sorted(vals)[0] if len(vals) == 1 else None
        return f, out
    return None, None


def grammar_literals(g, rule):
    """{alternative rule -> [literals]} for a rule that is a choice of literal rules."""
    alts = g.alternatives(rule)
    if alts is None:
        return None
    out = {}
    for a in alts:
        lits = g.literals(a)
        out[a] = lits
    return out
