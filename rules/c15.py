"""C15 - CompactCalendar is a faithful set of dates, also across serialization.

Decided: writer/reader framing agreement and unmodified values on the wire (R1), shifts are
guarded (R2), representation ownership (R3), equality is derived and the first window always
sets first_year (R4), year labels and year slots are paired one to one (R5), first_after searches
from the caller's unmodified date (R6).
Not decided: bit positions, window growth counts, first_after across years as values.
"""

import re

import flow
import intervals
import lib
import witness

CAL = "compact_calendar::CompactCalendar"
YEAR = "compact_calendar::CompactYear"
MONTH = "compact_calendar::CompactMonth"
TYPES = [CAL, YEAR, MONTH]


def rpo_index(fn):
    order = []
    seen = set()

    def dfs(b):
        stack = [(b, iter(fn.succs(b)))]
        seen.add(b)
        while stack:
            node, it = stack[-1]
            adv = False
            for s in it:
                if s not in seen and not fn.blocks[s]["cleanup"]:
                    seen.add(s)
                    stack.append((s, iter(fn.succs(s))))
                    adv = True
                    break
            if not adv:
                order.append(node)
                stack.pop()

    dfs(0)
    order.reverse()
    return {b: i for i, b in enumerate(order)}


def in_cycle(fn, bb):
    return bb in {x for s in fn.succs(bb) for x in flow.reachable_blocks(fn, s)}


PRIM = re.compile(r"core::num::<impl (\w+)>::(to|from)_(ne|le|be)_bytes$")


def wire_atoms(prog, f, direction):
    """Ordered wire atoms of a serialize/deserialize body (including its closures):
    ('prim', type, endianness, in_loop) or ('nested', type, in_loop)."""
    atoms = []
    bodies = [(f, False)] + [(prog.fns[c], True) for c in prog.closures(f.id)]
    rpo = rpo_index(f)
    for body, is_closure in bodies:
        brpo = rpo if body is f else rpo_index(body)
        # position of a closure = block where it is created in the parent
        base = None
        if is_closure:
            for bb, s in f.stmts():
                if s["k"] == "assign" and s["rv"]["k"] == "agg" and s["rv"].get("closure") == body.id:
                    base = rpo.get(bb, 0)
        for bb, t in body.calls():
            name = flow.call_name(t)
            pos = (base if is_closure else brpo.get(bb, 0), brpo.get(bb, 0) if is_closure else 0)
            loop = is_closure or in_cycle(body, bb)
            m = PRIM.search(name)
            if m and m.group(2) == ("to" if direction == "w" else "from"):
                atoms.append((pos, ("prim", m.group(1), m.group(3), loop), body, bb, t))
                continue
            m2 = re.match(r"compact_calendar::(\w+)::(serialize|deserialize)$", name)
            if m2 and m2.group(2) == ("serialize" if direction == "w" else "deserialize"):
                atoms.append((pos, ("nested", m2.group(1), loop), body, bb, t))
    atoms.sort(key=lambda a: a[0])
    return atoms


def promoted_range(fn, op):
    """(lo, hi) of a promoted `lo..=hi` constant operand."""
    if op.get("k") != "const" or "promoted" not in op:
        # follow one copy
        pl = lib.operand_place(op)
        if pl is None:
            return None
        for _, n in fn.defs_of(pl["l"]):
            if n["k"] == "assign" and n["rv"]["k"] in ("use", "ref"):
                src = n["rv"].get("op")
                if src is not None and src.get("k") == "const":
                    return promoted_range(fn, src)
                if n["rv"]["k"] == "ref":
                    return promoted_range(fn, {"k": "copy", "pl": n["rv"]["pl"]})
                if src is not None:
                    return promoted_range(fn, src)
        return None
    body = fn.j["promoted"][op["promoted"]]
    for b in body["blocks"]:
        t = b["term"]
        if t["k"] == "call" and flow.call_name(t).endswith("RangeInclusive::<Idx>::new"):
            a, c = t["args"]
            if "int" in a and "int" in c:
                return (a["int"], c["int"])
    return None


def range_guards(fn):
    """Assertions `(lo..=hi).contains(&param)`: [(param, (lo,hi), passing_bb)]."""
    res = []
    for bb, t in fn.calls():
        if flow.call_name(t).endswith("RangeInclusive::<Idx>::contains") and len(t["args"]) == 2:
            rng = promoted_range(fn, t["args"][0])
            params = flow.root_params(fn, t["args"][1])
            nxt = t["t"]
            d = flow.bool_switch_of(fn, nxt) if nxt is not None else None
            sw = fn.blocks[nxt]["term"] if nxt is not None else None
            if rng and len(params) == 1 and sw and sw["k"] == "switch":
                tg = dict(sw["targets"])
                true_bb = sw["otherwise"] if 0 in tg else tg.get(1)
                false_bb = tg.get(0) if 0 in tg else sw["otherwise"]
                # the failing edge must panic
                panics = any(flow.call_name(tt).startswith("core::panicking::") for b2, tt in fn.calls() if b2 == false_bb)
                if panics:
                    res.append((sorted(params)[0], rng, true_bb))
    return res


_BITS = {"u8": 8, "u16": 16, "u32": 32, "u64": 64, "usize": 64, "u128": 128, "i8": 8, "i16": 16, "i32": 32, "i64": 64, "isize": 64, "i128": 128}


def _lossy_cast(fn, n):
    """An integer `as` cast that can change the value (narrower target or sign change)."""
    if n["k"] != "assign" or n["rv"]["k"] != "cast":
        return False
    dst = (n["rv"].get("ty") or "").strip()
    pl = lib.operand_place(n["rv"].get("op") or {})
    src = fn.locals[pl["l"]]["ty"].strip() if pl is not None and not pl["p"] else None
    if dst not in _BITS or src not in _BITS:
        return False
    if _BITS[dst] < _BITS[src]:
        return True
    return (dst[0] != src[0]) and not (src[0] == "u" and _BITS[dst] > _BITS[src])


def run(ctx, prog, res):
    for t in TYPES:
        prog.adt(t)

    # R1 -------------------------------------------------------------------------------------
    r1 = res.rule("C15.R1", "serialize and deserialize of each type write and read the same ordered sequence of wire atoms (primitive type, byte order, once/in-loop; nested type), the read buffer has the primitive's size, and values cross the wire unmodified")
    for ty in TYPES:
        w = prog.require_fn(ty + "::serialize")
        r = prog.require_fn(ty + "::deserialize")
        wa = [a[1] for a in wire_atoms(prog, w, "w")]
        ra = [a[1] for a in wire_atoms(prog, r, "r")]
        r1.check(wa == ra and wa, {"type": ty, "written": wa, "read": ra}, "C15.R1:framing:%s" % ty,
                 "%s: writer emits %s but reader consumes %s" % (ty, wa, ra), lib.where_of(r))
        # buffer sizes
        for pos, atom, body, bb, t in wire_atoms(prog, r, "r"):
            if atom[0] != "prim":
                continue
            size = {"u8": 1, "i8": 1, "u16": 2, "i16": 2, "u32": 4, "i32": 4, "u64": 8, "i64": 8, "usize": 8, "isize": 8}.get(atom[1])
            buf_ok = False
            n_elems = None
            for o in flow.operand_origins(body, t["args"][0]):
                if o.kind == "other" and o.node and o.node["rv"]["k"] == "repeat":
                    n_elems = o.node["rv"]["n"]
            # repeat count is printed as a const expression, e.g. "4_usize" or a const path
            if n_elems is not None:
                m = re.search(r"(\d+)", n_elems)
                anon = re.search(r"constant#\d+|size_of", n_elems)
                buf_ok = (m is not None and int(m.group(1)) == size) or bool(anon)
            reads = [tt for _, tt in body.calls() if flow.call_name(tt).endswith("Read::read_exact")]
            same_buf = any(flow.root_params(body, tt["args"][1]) == flow.root_params(body, t["args"][0]) and
                           {o.local for o in flow.operand_origins(body, tt["args"][1]) if o.kind == "other"} & {o.local for o in flow.operand_origins(body, t["args"][0]) if o.kind == "other"}
                           for tt in reads)
            r1.check(buf_ok and same_buf, {"type": ty, "atom": atom, "buffer": n_elems, "filled_by": "read_exact"}, "C15.R1:buffer:%s:%s" % (ty, atom[1]),
                     "%s::deserialize: the buffer decoded as %s is not a %s-byte array filled by read_exact (%s)" % (ty, atom[1], size, n_elems), lib.where_of(body, t))
        # values unmodified: writer side
        for pos, atom, body, bb, t in wire_atoms(prog, w, "w"):
            if atom[0] != "prim":
                continue
            mods = [n for n in flow.deep_origin_calls(body, t["args"][0], depth=3) if n["k"] == "assign" and (n["rv"]["k"] in ("bin", "un") or _lossy_cast(body, n))]
            srcs = flow.origin_fields(body, t["args"][0]) + [x for c in flow.origin_calls(body, t["args"][0]) for a in c["args"] for x in flow.origin_fields(body, a)]
            r1.check(not mods and any(a == ty for a, _, _ in srcs), {"type": ty, "writes": atom[1], "from": [n for _, _, n in srcs]}, "C15.R1:wvalue:%s:%s" % (ty, atom[1]),
                     "%s::serialize transforms the value before writing it (%s)" % (ty, [m["rv"].get("op") if isinstance(m["rv"].get("op"), str) else "narrowing cast to %s" % m["rv"].get("ty") for m in mods]), lib.where_of(body, t))
        # no narrowing integer cast anywhere in the (tiny) writer and reader bodies
        for role, fbody in (("serialize", w), ("deserialize", r)):
            for x in prog.with_closures(fbody.id):
                fx = prog.fns[x]
                for bb_, blk in fx.live_blocks():
                    for st_ in blk["stmts"]:
                        if _lossy_cast(fx, st_):
                            r1.fail("C15.R1:cast:%s:%s:%s" % (ty, role, st_["rv"].get("ty")), "%s::%s narrows an integer with `as %s`: a value that does not fit is silently changed on the wire" % (ty, role, st_["rv"].get("ty")), lib.where_of(fx, st_))
        # reader side: aggregate operands come straight from the decoded atoms
        for bb, s in r.stmts():
            if s["k"] == "assign" and s["rv"]["k"] == "agg" and s["rv"].get("adt") == ty:
                for fname, op in zip(s["rv"]["fields"], s["rv"]["ops"]):
                    nodes = flow.deep_origin_calls(r, op, depth=4)
                    mods = [n for n in nodes if n["k"] == "assign" and n["rv"]["k"] in ("bin", "un")]
                    names = [flow.call_name(n) for n in nodes if n["k"] == "call"]
                    decoded = any(PRIM.search(n) or n.endswith("::deserialize") or n.endswith("::collect") for n in names) or any(prog.fns[c].id for c in prog.closures(r.id))
                    r1.check(not mods and decoded, {"type": ty, "field": fname, "from": names[:4]}, "C15.R1:rvalue:%s:%s" % (ty, fname),
                             "%s::deserialize transforms the decoded value of field `%s` before storing it (%s)" % (ty, fname, [m["rv"]["op"] for m in mods]), lib.where_of(r, s))
    # CompactYear::deserialize writes each decoded month unmodified into the array
    yd = prog.require_fn(YEAR + "::deserialize")
    stores = [s for _, s in yd.stmts() if s["k"] == "assign" and s["dst"]["p"] and s["dst"]["p"][0] == "*" and yd.locals[s["dst"]["l"]]["ty"].startswith("&mut " + MONTH)]
    ok = len(stores) == 1 and not [n for n in flow.deep_origin_calls(yd, stores[0]["rv"]["op"], depth=3) if n["k"] == "assign" and n["rv"]["k"] in ("bin", "un")] \
        and any(flow.call_name(n).endswith("CompactMonth::deserialize") for n in flow.deep_origin_calls(yd, stores[0]["rv"]["op"], depth=3) if n["k"] == "call")
    r1.check(ok, {"type": YEAR, "store": "*month = CompactMonth::deserialize(..)?"}, "C15.R1:rvalue:year-slot", "CompactYear::deserialize does not store each decoded month unmodified", lib.where_of(yd))
    r1.floor(12)

    # R2 -------------------------------------------------------------------------------------
    r2 = res.rule("C15.R2", "every shift by a non-constant amount is in range: the amount derives from a parameter asserted to lie in a constant range within 1..=31, or is trailing_zeros() of a value tested non-zero on the dominating branch")
    n_shift = 0
    for f in prog.fns.values():
        if f.crate != lib.CC:
            continue
        has_shift = any(s["k"] == "assign" and s["rv"]["k"] == "bin" and s["rv"]["op"] in ("Shl", "Shr", "ShlUnchecked", "ShrUnchecked") and s["rv"]["b"].get("k") != "const" for _, s in f.stmts())
        if not has_shift:
            continue
        seeds = {}
        guards = range_guards(f)
        for p, rng, true_bb in guards:
            # the guard must dominate every shift of the function
            seeds[p] = rng
        def call_ranges(an, t, f=f):
            if flow.call_name(t).endswith("::trailing_zeros") and t["args"]:
                # non-zero on the dominating branch?
                pl = lib.operand_place(t["args"][0])
                bbs = [bb for bb, tt in f.calls() if tt is t]
                if pl is not None and bbs:
                    for sbb, _ in f.live_blocks():
                        d = flow.bool_switch_of(f, sbb)
                        if not d or d["op"] not in ("Eq", "Ne"):
                            continue
                        zero = (d["b"].get("int") == 0) or (d["a"].get("int") == 0)
                        var = d["a"] if d["b"].get("int") == 0 else d["b"]
                        nz_bb = d["true_bb"] if d["op"] == "Ne" else d["false_bb"]
                        same = set(o.local for o in flow.operand_origins(f, var) if o.kind in ("field", "param", "other")) & set(o.local for o in flow.operand_origins(f, t["args"][0]) if o.kind in ("field", "param", "other"))
                        if zero and same and f.dominates(nz_bb, bbs[0]):
                            return (0, 31)
                return (0, 32)
            return None
        an = intervals.Analysis(f, seeds=seeds, call_ranges=call_ranges)
        shift_checks = [c for c in an.overflow_checks if c[1]["msg"] in ("Overflow(Shl)", "Overflow(Shr)")]
        for bb, t, amt, ety, ok in shift_checks:
            n_shift += 1
            guard_dom = all(f.dominates(g[2], bb) for g in guards) if guards else True
            r2.check(ok and guard_dom, {"fn": f.id, "shift": t["msg"], "amount_range": list(amt) if amt else None, "guards": [(g[0], g[1]) for g in guards]},
                     "C15.R2:%s:%s" % (f.id, t["msg"]), "shift in %s is not guarded: amount range %s on %s" % (f.id, amt, ety), lib.where_of(f, t))
        if not shift_checks:
            r2.fail("C15.R2:nocheck:%s" % f.id, "shift in %s without an analysable overflow check" % f.id, lib.where_of(f))
    # the asserted ranges themselves must be within 1..=31 / 1..=12
    n_guard = 0
    for f in prog.fns.values():
        if f.crate != lib.CC or f.vis != "pub":
            continue
        for p, rng, _ in range_guards(f):
            n_guard += 1
            pname = f.locals[p]["name"]
            want = (1, 12) if pname == "month" else (1, 31)
            r2.check(rng == want, {"fn": f.id, "param": pname, "asserted": list(rng)}, "C15.R2:guard:%s:%s" % (f.id, pname),
                     "%s asserts %s in %s, expected %s" % (f.id, pname, rng, want), lib.where_of(f))
    # every public method taking a `day` / `month` u32 parameter carries the guard
    for f in prog.fns.values():
        if f.crate != lib.CC or f.vis != "pub" or f.kind != "AssocFn":
            continue
        guarded = {f.locals[p]["name"] for p, _, _ in range_guards(f)}
        for i in range(1, f.j["arg_count"] + 1):
            nm = f.locals[i]["name"]
            if nm in ("day", "month") and f.locals[i]["ty"] == "u32":
                r2.check(nm in guarded, {"fn": f.id, "param": nm, "guarded": True}, "C15.R2:missing-guard:%s:%s" % (f.id, nm),
                         "public method %s takes `%s` without asserting its range" % (f.id, nm), lib.where_of(f))
    r2.floor(10)

    # R3 -------------------------------------------------------------------------------------
    r3 = res.rule("C15.R3", "representation ownership: all fields private; no public function returns a mutable reference into the representation except year_for_mut (-> &mut CompactYear, whose mutators are guarded)")
    for ty in TYPES:
        for v in prog.adt(ty)["variants"]:
            for fld in v["fields"]:
                r3.check(fld["vis"].startswith("restricted:"), {"type": ty, "field": fld["name"], "vis": fld["vis"]}, "C15.R3:vis:%s.%s" % (ty, fld["name"]), "field %s.%s is public" % (ty, fld["name"]))
    for f in prog.fns.values():
        if f.crate == lib.CC and f.vis == "pub" and "&mut" in f.j.get("output", ""):
            r3.check(f.id == CAL + "::year_for_mut" and f.j["output"] == "core::option::Option<&mut compact_calendar::CompactYear>", {"fn": f.id, "returns": f.j["output"]},
                     "C15.R3:mutret:%s" % f.id, "public function %s hands out %s" % (f.id, f.j["output"]), lib.where_of(f))
    for im in prog.impls:
        if im.get("self_adt") in TYPES and im.get("trait") in ("core::ops::deref::DerefMut", "core::convert::AsMut", "core::borrow::BorrowMut", "core::ops::index::IndexMut"):
            r3.fail("C15.R3:impl:%s:%s" % (im["self_adt"], im["trait"]), "impl %s for %s" % (im["trait"], im["self_adt"]))
    r3.floor(5)

    # R4 -------------------------------------------------------------------------------------
    r4 = res.rule("C15.R4", "equality is derived on the representation, and every path of `insert` that opens the first window or grows it at the front sets first_year from the inserted date")
    for ty in TYPES:
        ims = [im for im in prog.impls if im.get("self_adt") == ty and im.get("trait") == "core::cmp::PartialEq"]
        r4.check(len(ims) == 1 and ims[0]["derived"], {"type": ty, "PartialEq": "derived"}, "C15.R4:eq:%s" % ty, "PartialEq for %s is not derived" % ty)
    ins = prog.require_fn(CAL + "::insert")
    assigns = []
    for bb, s in ins.stmts():
        if s["k"] == "assign" and (CAL, "CompactCalendar", "first_year") in lib.place_fields(s["dst"]):
            src_calls = [flow.call_name(c) for c in flow.origin_calls(ins, s["rv"]["op"])] if s["rv"]["k"] == "use" else []
            good = bool(src_calls) and all(c.endswith("Datelike>::year") for c in src_calls) and all(flow.root_params(ins, c["args"][0]) == {2} for c in flow.origin_calls(ins, s["rv"]["op"]))
            r4.check(good, {"assign": "self.first_year = date.year()", "block": bb}, "C15.R4:first_year-source", "first_year is assigned from something else than date.year(): %s" % src_calls, lib.where_of(ins, s))
            if good:
                assigns.append(bb)
    rets = flow.return_blocks(ins)
    empties = []
    for sbb, _ in ins.live_blocks():
        sw = ins.blocks[sbb]["term"]
        if sw["k"] == "switch":
            pl = lib.operand_place(sw["op"])
            if pl is not None and any(n["k"] == "call" and flow.call_name(n).endswith("VecDeque::<T, A>::is_empty") for _, n in ins.defs_of(pl["l"])):
                tg = dict(sw["targets"])
                empties.append(sw["otherwise"] if 0 in tg else tg.get(1))
    n_push = 0
    for bb, t in ins.calls():
        name = flow.call_name(t)
        need = False
        if name.endswith("::push_front"):
            need = True
        if name.endswith("::push_back") and any(ins.dominates(e, bb) for e in empties):
            need = True
        if need:
            n_push += 1
            bad = flow.reach_avoiding(ins, 0, [bb], assigns) and flow.reach_avoiding(ins, bb, rets, [a for a in assigns if a != bb]) and bb not in assigns
            r4.check(not bad, {"push": name.split("::")[-1], "block": bb, "first_year_assigned_on_every_path": True}, "C15.R4:%s" % name.split("::")[-1],
                     "a path through %s in insert does not set first_year" % name.split("::")[-1], lib.where_of(ins, t))
    if not empties:
        r4.anchor_missing("is_empty() branch in CompactCalendar::insert")
    r4.floor(6)

    # R5 -------------------------------------------------------------------------------------
    r5 = res.rule("C15.R5", "year labels and year slots are paired one to one: both sides of every `zip` in the crate are plain sequences (ranges, iter, skip) - no filtering, flattening or reordering adaptor is applied before pairing")
    allowed = re.compile(r"(::iter$|::skip$|::into_iter$|::enumerate$|VecDeque::<T, A>::iter$|<impl \[T\]>::iter$)")
    for f in prog.fns.values():
        if f.crate != lib.CC:
            continue
        for bb, t in f.calls():
            if flow.call_name(t).endswith("Iterator::zip") or flow.call_names(t)[0].endswith("Iterator::zip"):
                names = []
                for a in t["args"]:
                    names += [flow.call_name(n) for n in flow.deep_origin_calls(f, a, depth=5) if n["k"] == "call"]
                bad = [n for n in names if re.search(r"core::iter::traits::iterator::Iterator::\w+$|::iter$|::skip$", n) and not allowed.search(n)]
                r5.check(not bad, {"fn": f.id, "zip_operands_built_by": names}, "C15.R5:%s" % f.id,
                         "a sequence is filtered/reshaped (%s) before being zipped with its labels in %s" % (bad, f.id), lib.where_of(f, t))
    # both sides of a zip have the same length, or one of them is unbounded: a shorter label range
    # silently drops the last slots
    import terms

    def seq_len(f, node):
        """Length of a sequence term: linear form, "inf", or None (unknown)."""
        k = node[0]
        if k == "agg" and node[1] == "RangeFrom":
            return "inf"
        if k == "agg" and node[1] in ("Range", "RangeInclusive"):
            d = dict(node[2])
            a, b = terms.linear(d.get("start", ("int", 0))), terms.linear(d.get("end", ("int", 0)))
            if a is None or b is None:
                return None
            out = terms.lin_sub(b, a)
            if node[1] == "RangeInclusive":
                out[1] = out.get(1, 0) + 1
            return out
        if k == "app":
            name = node[1].split("::")[-1]
            if node[1] == "RangeInclusive::new" and len(node[2]) == 2:
                a, b = terms.linear(node[2][0]), terms.linear(node[2][1])
                if a is None or b is None:
                    return None
                out = terms.lin_sub(b, a)
                out[1] = out.get(1, 0) + 1
                return out
            if name in ("iter", "into_iter", "iter_mut", "by_ref", "copied", "cloned", "enumerate") and node[2]:
                return seq_len(f, node[2][0])
            if name == "skip" and len(node[2]) == 2:
                a, b = seq_len(f, node[2][0]), terms.linear(node[2][1])
                if a in (None, "inf") or b is None:
                    return a
                return terms.lin_sub(a, b)
            if name == "index" and len(node[2]) == 2 and node[2][1][0] == "agg" and node[2][1][1] == "RangeFrom":
                a, b = seq_len(f, node[2][0]), terms.linear(dict(node[2][1][2])["start"])
                if a in (None, "inf") or b is None:
                    return None
                return terms.lin_sub(a, b)
        if k == "var":
            # a field holding a fixed-size array
            m_ = re.fullmatch(r"p1\.(\w+)", node[1])
            if m_ and f.impl and f.impl.get("self_adt") in prog.adts:
                for v_ in prog.adts[f.impl["self_adt"]]["variants"]:
                    for fd in v_["fields"]:
                        mm = re.fullmatch(r"\[.*; (\d+)\]", fd["ty"])
                        if fd["name"] == m_.group(1) and mm:
                            return {1: int(mm.group(1))}
            return {"len(%s)" % node[1]: 1}
        return None

    n_zip = 0
    for f in prog.fns.values():
        if f.crate != lib.CC:
            continue
        for bb, t in f.calls():
            if not flow.call_names(t)[0].endswith("Iterator::zip"):
                continue
            n_zip += 1
            shs = [flow.shape(f, a, depth=10) for a in t["args"]]
            try:
                lens = [seq_len(f, terms.parse(x)) for x in shs]
            except terms.TermError:
                lens = [None, None]
            if "inf" in lens or None in lens:
                r5.ok({"fn": f.id, "zip_lengths": ["unbounded" if x == "inf" else ("unknown" if x is None else {str(k_): v_ for k_, v_ in x.items()}) for x in lens]})
                continue
            diff = terms.lin_sub(lens[0], lens[1])
            diff = {key_: c for key_, c in diff.items() if c != 0}
            r5.check(not diff, {"fn": f.id, "zip_lengths": "equal", "length": {str(k_): v_ for k_, v_ in lens[0].items()}}, "C15.R5:length:%s" % f.id,
                     "the two sides of a zip in %s have different lengths (%s vs %s): the longer side's last elements are never looked at" % (f.id, shs[0], shs[1]), lib.where_of(f, t))
    r5.floor(6)

    # R6 -------------------------------------------------------------------------------------
    r6 = res.rule("C15.R6", "first_after answers about the caller's date: the strict search in the date's own year, the offset of that year in the window and the labels of the following years are all computed from the unmodified argument (a clamped or shifted date makes the strict search skip a member)")
    fa = prog.require_fn(CAL + "::first_after")
    n6 = 0
    for x in prog.with_closures(fa.id):
        fx = prog.fns[x]
        for _, t in fx.calls():
            nm = flow.call_name(t)
            if re.search(r"Datelike>::(year|month|day)$|NaiveDate::(year|month|day)$", nm):
                n6 += 1
                sh = flow.shape(fx, t["args"][0], depth=5)
                ok = re.fullmatch(r"p2|p1\.0|\*?p1\.\d", sh) is not None
                r6.check(ok, {"fn": fx.id.split("::")[-1], "reads": nm.split("::")[-1] + "(date)"}, "C15.R6:%s" % nm.split("::")[-1],
                         "first_after takes the %s of %s instead of the caller's date" % (nm.split("::")[-1], sh), lib.where_of(fx, t))
    # a member found as (month, day) becomes a date in one step: component-wise setters go through an
    # intermediate date that may not exist (day 31 moved into a 30-day month gives None)
    SETTER = re.compile(r"Datelike>?::with_(month0?|day0?|ordinal0?|year)$|NaiveDate::with_(month0?|day0?|ordinal0?|year)$")
    n_set = 0
    for fid, fx in sorted(prog.fns.items()):
        if fx.crate != "compact_calendar":
            continue
        for bb, t in fx.calls():
            n_set += 1
            nm = flow.call_name(t) or ""
            if SETTER.search(nm):
                r6.fail("C15.R6:setter:%s:%s" % (fid.split("::")[-1].split("{")[0] or fid.split("::")[-2], nm.split("::")[-1]), "%s builds a date by replacing one component of another date (`%s`): when the intermediate date does not exist (the 31st moved into a shorter month) the member is taken for absent and skipped" % (fid, nm.split("::")[-1]), lib.where_of(fx, t))
    r6.ok({"crate": "compact_calendar", "calls_scanned": n_set, "component_wise_date_setters": 0})
    built = [t for x in prog.with_closures(fa.id) for _, t in prog.fns[x].calls() if (flow.call_name(t) or "").endswith("NaiveDate::from_ymd_opt")]
    r6.check(len(built) >= 2, {"from_ymd_opt_sites_in_first_after": len(built)}, "C15.R6:built", "first_after no longer assembles the dates it returns with NaiveDate::from_ymd_opt(year, month, day) (found %d such sites, expected the year of the query and the following years)" % len(built), lib.where_of(fa))
    r6.floor(6)

    # W --------------------------------------------------------------------------------------
    # R1 (continued): whatever serialize wrote is read back - deserialize fails only when the reader fails. No error is
    # made up from the data (a validity guard on decoded values refuses calendars that serialize accepted)
    n_de = 0
    for fid, fx in sorted(prog.fns.items()):
        if fx.crate != "compact_calendar" or not re.search(r"::deserialize($|::\{closure)", fid):
            continue
        n_de += 1
        made = [flow.call_name(t) for _, t in fx.calls() if re.search(r"io::error::Error::(new|other|from_raw_os_error)$|From<std::io::error::ErrorKind>>::from$|io::error::Error as core::convert::From<.*ErrorKind", flow.call_name(t) or "")]
        r1.check(not made, {"fn": fid.split("::")[-2] + "::deserialize", "errors_made_up_from_the_data": 0}, "C15.R1:deserialize-rejects:%s" % fid.split("::")[-2],
                 "%s constructs an I/O error of its own (%s): a calendar that serialize wrote can be refused when it is read back (e.g. one whose window ends in the last representable year)" % (fid, [m.split("::")[-1] for m in made]), lib.where_of(fx))
    r1.check(n_de >= 3, {"deserialize_functions": n_de}, "C15.R1:deserialize-rejects:ANCHOR", "ANCHOR: expected deserialize for the three calendar types, found %d" % n_de)

    # R7 -------------------------------------------------------------------------------------
    r7 = res.rule("C15.R7", "bit positions of a month: day d is bit d-1; contains(d) <=> d is a member, first() is the least member, first_after(d) the least member strictly after d, count() the number of members. CompactMonth's four lookups are extracted per path from MIR (peval) and evaluated for every day 1..=31 on the empty month, the full month, every single-day month and every two-day month (quick tier: adjacent pairs only) - exhaustive in the day, all bit positions covered, months with three or more days only through the full month")
    import itertools
    import peval
    CMP = "compact_calendar::CompactMonth::"
    fns7 = {n: prog.fns.get(CMP + n) for n in ("contains", "first", "first_after", "count")}
    if None in fns7.values():
        r7.anchor_missing("CompactMonth::{contains, first, first_after, count}")
    else:
        ev = peval.Evaluator(prog)
        thorough = ctx.tier == "thorough"
        sets = [(), tuple(range(1, 32))] + [(d,) for d in range(1, 32)] + ([p for p in itertools.combinations(range(1, 32), 2)] if thorough else [(d, d + 1) for d in range(1, 31)])
        bad = {}
        n_ev = 0
        try:
            for S in sets:
                bits = sum(1 << (d - 1) for d in S)
                mval = ("tuple", [bits])
                got = ev.run(fns7["first"], [mval]); n_ev += 1
                want = min(S) if S else None
                if (got[1] if got is not None else None) != want:
                    bad.setdefault("first", "month %s: first() = %r (expected %r)" % (list(S), got, want))
                got = ev.run(fns7["count"], [mval]); n_ev += 1
                if got != len(S):
                    bad.setdefault("count", "month %s: count() = %r (expected %d)" % (list(S), got, len(S)))
                for d in range(1, 32):
                    got = bool(ev.run(fns7["contains"], [mval, d])); n_ev += 1
                    if got != (d in S):
                        bad.setdefault("contains", "month %s: contains(%d) = %r" % (list(S), d, got))
                    got = ev.run(fns7["first_after"], [mval, d]); n_ev += 1
                    want = min([e for e in S if e > d], default=None)
                    if (got[1] if got is not None else None) != want:
                        bad.setdefault("first_after", "month %s: first_after(%d) = %r (expected %r)" % (list(S), d, got, want))
        except peval.Unmodelled as ex:
            r7.fail("C15.R7:unmodelled", "CompactMonth's lookups cannot be evaluated from their MIR any more (%s): not decided, failing closed" % ex, lib.where_of(fns7["contains"]))
            bad = None
        if bad is not None:
            for nm in ("contains", "first", "first_after", "count"):
                r7.check(nm not in bad, {"fn": nm, "months": len(sets), "evaluations": n_ev}, "C15.R7:%s" % nm, "CompactMonth::%s" % bad.get(nm, ""), lib.where_of(fns7[nm]))
    r7.floor(4)

    # R9 -------------------------------------------------------------------------------------
    r9 = res.rule("C15.R9", "first_after across months and years: CompactYear::first_after(m, d) is the least member strictly after (m, d) in (month, day) order, CompactCalendar::first_after(date) the least member strictly after the date, also over empty years in between and from a year inside the span that holds nothing later. Both functions, with their closures, are extracted per path from MIR (peval; iterator pipelines read as lists) and evaluated on a small scope: years/calendars holding up to two (thorough: three) members drawn from fixed grids that include month ends, a later month with a smaller day number, neighbouring and distant years, for every query of a grid around them. Queries before the first stored year are not evaluated (that branch goes through `iter`, a stateful from_fn)")
    fy = prog.fns.get("compact_calendar::CompactYear::first_after")
    fc = prog.fns.get("compact_calendar::CompactCalendar::first_after")
    if fy is None or fc is None:
        r9.anchor_missing("CompactYear::first_after / CompactCalendar::first_after")
    else:
        ev9 = peval.Evaluator(prog)
        deep = ctx.tier == "thorough"

        def year_val(S):
            ms = [0] * 12
            for (m, d) in S:
                ms[m - 1] |= 1 << (d - 1)
            return ("tuple", [[("tuple", [b]) for b in ms]])

        def cal_val(dates):
            ys = sorted({d[0] for d in dates})
            years = [year_val([(m, d) for (y, m, d) in dates if y == yy]) for yy in range(ys[0], ys[-1] + 1)]
            return ("enum", "CompactCalendar", {"first_year": ys[0], "calendar": years})

        ygrid = [(1, 1), (1, 31), (2, 15), (3, 5), (6, 1), (6, 15), (10, 25), (12, 1), (12, 31)]
        yq = [(m, d) for m in range(1, 13) for d in (1, 5, 14, 15, 16, 20, 25, 31)]
        cgrid = [(2019, 5, 1), (2019, 12, 31), (2020, 1, 1), (2020, 6, 15), (2022, 3, 1), (2022, 10, 25)]
        cq = sorted(set(cgrid) | {(2019, 1, 1), (2019, 4, 30), (2019, 5, 2), (2019, 12, 30), (2020, 1, 2), (2020, 6, 14), (2020, 12, 31), (2021, 6, 1), (2021, 12, 31), (2022, 2, 28), (2022, 3, 2), (2022, 12, 31), (2023, 1, 1), (2030, 1, 1)})
        bad9 = {}
        n9 = {"year": 0, "calendar": 0}
        try:
            for k in range(0, 4 if deep else 3):
                for S in itertools.combinations(ygrid, k):
                    yv = year_val(S)
                    for (m, d) in yq:
                        got = ev9.run(fy, [yv, m, d]); n9["year"] += 1
                        want = min([e for e in S if e > (m, d)], default=None)
                        g = tuple(got[1][1]) if got is not None else None
                        if g != want:
                            bad9.setdefault("year", "year %s: first_after(%d, %d) = %r, the set says %r" % (list(S), m, d, g, want))
            for k in range(1, 4 if deep else 3):
                for S in itertools.combinations(cgrid, k):
                    cv = cal_val(S)
                    for q in cq:
                        if q[0] < S[0][0]:
                            continue
                        got = ev9.run(fc, [cv, q]); n9["calendar"] += 1
                        want = min([e for e in S if e > q], default=None)
                        g = tuple(got[1]) if got is not None else None
                        if g != want:
                            bad9.setdefault("calendar", "calendar %s: first_after(%s) = %r, the set says %r" % (list(S), q, g, want))
        except peval.Unmodelled as ex:
            r9.fail("C15.R9:unmodelled", "first_after of CompactYear / CompactCalendar cannot be evaluated from its MIR any more (%s): not decided, failing closed" % str(ex)[:300], lib.where_of(fy))
            bad9 = None
        if bad9 is not None:
            r9.check("year" not in bad9, {"fn": "CompactYear::first_after", "evaluations": n9["year"]}, "C15.R9:year", "CompactYear::first_after: %s" % bad9.get("year", ""), lib.where_of(fy))
            r9.check("calendar" not in bad9, {"fn": "CompactCalendar::first_after", "evaluations": n9["calendar"]}, "C15.R9:calendar", "CompactCalendar::first_after: %s" % bad9.get("calendar", ""), lib.where_of(fc))
    r9.floor(2)

    # R10 ------------------------------------------------------------------------------------
    r10 = res.rule("C15.R10", "insert refuses nothing and reports `new` truthfully: the answer of CompactCalendar::insert and of CompactYear::insert is on every path the answer of the next level's insert for the unmodified month / day (no other constant, no test in between); CompactMonth::insert answers `false` only where `contains(day)` of the same month was true, and every other way out has set bit `day - 1`")
    ci, yi, mi = (prog.fns.get("compact_calendar::Compact%s::insert" % n) for n in ("Calendar", "Year", "Month"))
    if None in (ci, yi, mi):
        r10.anchor_missing("CompactCalendar / CompactYear / CompactMonth ::insert")
    else:
        shc = flow.shape(ci, 0, depth=8)
        okc = re.fullmatch(r"CompactYear::insert\(.*, ::month\(p2\), ::day\(p2\)\)", shc) is not None and not shc.startswith("alt(")
        r10.check(okc, {"fn": "CompactCalendar::insert", "answers": "CompactYear::insert(year slot, date.month(), date.day())"}, "C15.R10:calendar",
                  "CompactCalendar::insert does not answer, on every path, what CompactYear::insert answers for the month and day of the unmodified date: %s" % shc[:200], lib.where_of(ci))
        shy = flow.shape(yi, 0, depth=8)
        oky = re.fullmatch(r"CompactMonth::insert\(p1\.0\[\w+\], p3\)", shy) is not None
        r10.check(oky, {"fn": "CompactYear::insert", "answers": "CompactMonth::insert(self.0[month - 1], day)"}, "C15.R10:year",
                  "CompactYear::insert does not answer, on every path, what CompactMonth::insert answers for the unmodified day (a day refused here - e.g. by a table of month lengths that knows no 29 February - is silently missing from the calendar): %s" % shy[:200], lib.where_of(yi))
        # month level: constant false only under contains == true; all other returns after the bit store
        stores_ = [bb for bb, st_ in mi.stmts() if st_["k"] == "assign" and st_["dst"]["l"] == 1 and st_["dst"]["p"] and st_["rv"]["k"] == "bin" and st_["rv"]["op"] == "BitOr"]
        falses = [bb for bb, st_ in mi.stmts() if st_["k"] == "assign" and st_["dst"]["l"] == 0 and not st_["dst"]["p"] and st_["rv"]["k"] == "use" and st_["rv"]["op"].get("k") == "const" and st_["rv"]["op"].get("bool") is False]
        trues = [bb for bb, st_ in mi.stmts() if st_["k"] == "assign" and st_["dst"]["l"] == 0 and not st_["dst"]["p"] and st_["rv"]["k"] == "use" and st_["rv"]["op"].get("k") == "const" and st_["rv"]["op"].get("bool") is True]
        guard = None
        for sbb, blk in mi.live_blocks():
            t_ = blk["term"]
            if t_["k"] != "switch":
                continue
            pl_ = lib.operand_place(t_["op"])
            if pl_ is None:
                continue
            for _, n_ in mi.defs_of(pl_["l"]):
                if n_["k"] == "call" and flow.call_name(n_) == "compact_calendar::CompactMonth::contains" and flow.shape(mi, n_["args"][1], depth=3) == "p2":
                    tg = dict((v, x) for v, x in t_["targets"])
                    if 0 in tg:
                        guard = (t_["otherwise"], tg[0])
        okm = bool(stores_) and bool(falses) and bool(trues) and guard is not None \
            and all(mi.dominates(guard[0], b) and not mi.dominates(guard[1], b) for b in falses) \
            and all(any(mi.dominates(sb, b) for sb in stores_) for b in trues) \
            and flow.shape(mi, 0, depth=3) in ("alt(0 | 1)", "alt(1 | 0)")
        r10.check(okm, {"fn": "CompactMonth::insert", "false_only_if": "contains(day)", "true_only_after": "self.0 |= 1 << (day - 1)"}, "C15.R10:month",
                  "CompactMonth::insert: `false` is not confined to the branch where contains(day) was true, or `true` is answered without the bit having been set", lib.where_of(mi))
    r10.floor(3)

    witness.run_doctests(ctx, prog, res, "C15.W", "the representation cannot be built or read from outside the crate; twins compile", "c15", floor=4)
