"""C16 - the interval-size bound is a sound approximation.

Decided (the clauses whose truth is in the shape of the code): the bound is only ever *compared*
(R1); the reporting guard measures the very interval it reports and its taken branch replaces
only the end, by DATE_END - start, kind and comments are those of the exact answer, so `state` is
unchanged and an approximated answer is `none` (with C03.R2), never another time (R2); the
early exit of the consuming loop leaves without touching the iterator (R3); the early-exit
threshold exceeds the reporting threshold by at least one day, so that a consumption that was
cut short is always reported as `none` and never as a (too early, non-existent) change (R4);
the bound evaluated is the bound given (R5).
Not decided: `exact whenever the exact change lies at most B - 24 h after the instant` and `none
whenever more than B after it` as statements about values (they follow from R2/R4 together with
`a day's range starts less than 24 h before any instant inside it`, which is arithmetic on
schedules), and the iterator state left behind for later calls by an early exit.
"""

import re

import flow
import lib
import terms

CTX = "opening_hours::context::Context"
FIELD = "approx_bound_interval_size"
IT = "opening_hours::opening_hours::TimeDomainIterator"

FLIP = {"Gt": "Lt", "Lt": "Gt", "Ge": "Le", "Le": "Ge"}
UNIT_DAYS = {"weeks": 7.0, "days": 1.0, "hours": 1 / 24.0, "minutes": 1 / 1440.0, "seconds": 1 / 86400.0}


def slack_days(sh):
    """`BOUND` or `add(BOUND, TimeDelta::unit(k))` -> k in days; None when the shape is anything else."""
    try:
        t = terms.parse(sh)
    except terms.TermError:
        return None

    def is_bound(n):
        return n[0] == "var" and FIELD in n[1]

    if is_bound(t):
        return 0.0
    if t[0] == "app" and t[1].split("::")[-1] in ("add", "checked_add", "Add") and len(t[2]) == 2:
        a, b = t[2]
        if is_bound(b):
            a, b = b, a
        if is_bound(a) and b[0] == "app" and b[1].startswith("TimeDelta::") and len(b[2]) == 1 and b[2][0][0] == "int":
            u = UNIT_DAYS.get(b[1].split("::")[-1])
            if u is not None:
                return u * b[2][0][1]
    return None


def guards(fn):
    """Comparisons of a difference with the bound: [{minuend, subtrahend, op (bound on the right),
    slack_days, true_bb, false_bb, bb}]."""
    out = []
    for sbb, _ in fn.live_blocks():
        d = flow.bool_switch_of(fn, sbb)
        if not d or d["op"] not in FLIP:
            continue
        a, b = flow.shape(fn, d["a"], depth=10), flow.shape(fn, d["b"], depth=10)
        op = d["op"]
        if FIELD in a and FIELD not in b:
            a, b, op = b, a, FLIP[op]
        elif not (FIELD in b and FIELD not in a):
            continue
        m = re.fullmatch(r"(?:::sub|NaiveDateTime::signed_duration_since|NaiveDate::signed_duration_since)\((.*)\)", a)
        parts = None
        if m:
            try:
                t = terms.parse(a)
                parts = (t[2][0], t[2][1]) if t[0] == "app" and len(t[2]) == 2 else None
            except terms.TermError:
                parts = None
        out.append({"diff": a, "parts": parts, "op": op, "bound_side": b, "slack": slack_days(b), "true_bb": d["true_bb"], "false_bb": d["false_bb"], "bb": sbb})
    return out


def run(ctx, prog, res):
    nx = prog.require_fn("<%s<L> as core::iter::traits::iterator::Iterator>::next" % IT)
    cu = prog.require_fn("%s::<L>::consume_until_next_kind" % IT)

    # R1 -------------------------------------------------------------------------------------
    r1 = res.rule("C16.R1", "the bound is only ever compared: outside the context's own builders the field is read in the interval iterator only, and every value derived from it is an operand of an ordering comparison (possibly after adding a constant duration) - it is never stored, returned or passed on")
    readers = []
    for f in prog.fns.values():
        if f.crate not in (lib.OH, lib.PY) or f.from_expansion:
            continue
        if any(n == FIELD for (_, n) in lib.direct_reads(f, CTX)):
            readers.append(f)
    for f in readers:
        root = f
        while root.kind == "Closure" and root.parent in prog.fns:
            root = prog.fns[root.parent]
        in_ctx = root.module == "opening_hours::context"
        in_iter = root.id in (nx.id, cu.id)
        r1.check(in_ctx or in_iter, {"reader": f.id, "role": "context builder" if in_ctx else "interval iterator"}, "C16.R1:reader:%s" % root.id,
                 "%s reads the interval-size bound: only the context's builders and the interval iterator may" % f.id, lib.where_of(f))
    for f in (nx, cu):
        for bb, t in f.calls():
            shs = [flow.shape(f, a, depth=8) for a in t["args"]]
            if not any(FIELD in s for s in shs):
                continue
            nm = flow.call_name(t)
            ok = bool(re.search(r"core::cmp::PartialOrd::(gt|lt|ge|le)$|PartialOrd(<.*>)?>::(gt|lt|ge|le|partial_cmp)$", nm)) or bool(re.search(r"TimeDelta as core::ops::arith::Add", nm))
            r1.check(ok, {"fn": f.id.split("::")[-1], "use": flow.short_name(nm)}, "C16.R1:use:%s:%s" % (f.id, flow.short_name(nm)),
                     "the bound is passed to %s in %s: it must only be compared" % (nm, f.id), lib.where_of(f, t))
        for bb, b in f.live_blocks():
            for st in b["stmts"]:
                if st["k"] == "assign" and st["dst"]["p"] and any(isinstance(p, dict) and "f" in p for p in st["dst"]["p"]):
                    if st["rv"]["k"] == "use" and FIELD in flow.shape(f, st["rv"]["op"], depth=6):
                        r1.fail("C16.R1:store:%s" % f.id, "a value derived from the bound is stored into iterator state in %s" % f.id, lib.where_of(f, st))
    r1.floor(4)

    # R2 -------------------------------------------------------------------------------------
    r2 = res.rule("C16.R2", "the approximation only replaces the end of the reported interval, by DATE_END: the reporting guard compares (end - start) of the very interval that is reported; on its taken branch the interval is built with the same start, kind and comments as on the exact branch and with the constant DATE_END as end (which next_change reports as none, C03.R2); so state is unchanged and no time other than the exact one is ever reported")
    gs = guards(nx)
    r2.check(len(gs) == 1, {"fn": nx.id, "reporting_guards": len(gs)}, "C16.R2:guard", "expected exactly one comparison with the bound in the iterator's next(), found %d" % len(gs), lib.where_of(nx))
    news = [(bb, t) for bb, t in nx.calls() if flow.call_name(t).endswith("DateTimeRange::<D>::new_with_sorted_comments") or flow.call_name(t).endswith("DateTimeRange::<D>::new")]
    if len(gs) == 1:
        g = gs[0]
        approx = [(bb, t) for bb, t in news if nx.dominates(g["true_bb"], bb)]
        exact = [(bb, t) for bb, t in news if not nx.dominates(g["true_bb"], bb)]
        r2.check(len(approx) == 1 and len(exact) == 1, {"constructors_on_taken_branch": len(approx), "elsewhere": len(exact)}, "C16.R2:constructors",
                 "expected one interval constructor on the approximating branch and one on the exact branch, found %d / %d" % (len(approx), len(exact)), lib.where_of(nx))
        if len(approx) == 1 and len(exact) == 1:
            def parts(t):
                rng = flow.shape(nx, t["args"][0], depth=10)
                m = re.fullmatch(r"Range\{start: (.*), end: (.*)\}", rng)
                # split at the top-level `, end: `
                depth, cut = 0, None
                body = rng[len("Range{start: "):-1] if rng.startswith("Range{start: ") else ""
                for i, ch in enumerate(body):
                    if ch in "([{":
                        depth += 1
                    elif ch in ")]}":
                        depth -= 1
                    elif depth == 0 and body.startswith(", end: ", i):
                        cut = i
                        break
                if cut is None:
                    return None
                return body[:cut], body[cut + len(", end: "):], [flow.shape(nx, a, depth=10) for a in t["args"][1:]]
            pa, pe = parts(approx[0][1]), parts(exact[0][1])
            ok = pa is not None and pe is not None
            r2.check(ok, {"constructor_arguments": "range literal"}, "C16.R2:range-literal", "the reported interval is not built from a range literal (start..end)", lib.where_of(nx, approx[0][1]))
            if ok:
                r2.check(pa[1] == "const:DATE_END", {"approximated_end": pa[1]}, "C16.R2:end", "the approximated interval ends at %s, not at the constant DATE_END" % pa[1], lib.where_of(nx, approx[0][1]))
                r2.check(pa[0] == pe[0] and pa[2] == pe[2], {"same_start_kind_comments": True}, "C16.R2:same",
                         "the approximated interval differs from the exact one in more than its end: start %s vs %s, kind/comments %s vs %s" % (pa[0], pe[0], pa[2], pe[2]), lib.where_of(nx, approx[0][1]))
                same = any(g["diff"] == "%s(%s, %s)" % (fnm, pe[1], pe[0]) for fnm in ("::sub", "NaiveDateTime::signed_duration_since"))
                r2.check(same and g["op"] in ("Gt", "Ge"), {"guard": "(exact end - start) %s bound" % g["op"]}, "C16.R2:measures",
                         "the reporting guard does not compare (end - start) of the interval it reports with the bound: %s %s bound" % (g["diff"], g["op"]), lib.where_of(nx))
    r2.floor(5)

    # R7 -------------------------------------------------------------------------------------
    r7 = res.rule("C16.R7", "an interval reported as infinite is the last one (`consider that any interval bigger than this size is infinite`): on the approximating branch of the iterator's next(), before the interval start..DATE_END is returned, the iterator's own position is changed - a call or store through `&mut self.curr_schedule` / `self.curr_date` - so that it does not go on from the place where its early exit stopped and report further intervals that overlap the infinite one")
    if len(gs) == 1 and len([1 for bb, t in news if nx.dominates(gs[0]["true_bb"], bb)]) == 1:
        g = gs[0]
        abb = [bb for bb, t in news if nx.dominates(g["true_bb"], bb)][0]
        touched = set()
        for bb, b in nx.live_blocks():
            if not nx.dominates(g["true_bb"], bb):
                continue
            for st in b["stmts"]:
                if st["k"] != "assign":
                    continue
                for (adt_, _v, fld) in lib.place_fields(st["dst"]):
                    if adt_.endswith("TimeDomainIterator") and fld in ("curr_schedule", "curr_date"):
                        touched.add(fld)
                if st["rv"]["k"] == "ref" and st["rv"].get("mut"):
                    for (adt_, _v, fld) in lib.place_fields(st["rv"]["pl"]):
                        if adt_.endswith("TimeDomainIterator") and fld in ("curr_schedule", "curr_date"):
                            touched.add(fld)
        r7.check("curr_schedule" in touched, {"fn": nx.id.split("::")[-1], "approximating_branch_changes": sorted(touched)}, "C16.R7:last",
                 "the iterator reports start..DATE_END on its approximating branch and leaves its position as the early exit left it (changes on that branch: %s): the following calls of next() report further intervals inside the one that was declared infinite - overlapping, not increasing" % (sorted(touched) or "none"), lib.where_of(nx))
    else:
        r7.anchor_missing("the approximating branch of TimeDomainIterator::next")
    r7.floor(1)

    # R3 -------------------------------------------------------------------------------------
    r3 = res.rule("C16.R3", "the early exit of the consuming loop only stops consuming: the taken branch of its guard returns without any further call or store")
    gc = guards(cu)
    r3.check(len(gc) == 1, {"fn": cu.id, "early_exit_guards": len(gc)}, "C16.R3:guard", "expected exactly one comparison with the bound in consume_until_next_kind, found %d" % len(gc), lib.where_of(cu))
    if len(gc) == 1:
        g = gc[0]
        region = flow.reachable_blocks(cu, g["true_bb"])
        calls = [flow.short_name(flow.call_name(cu.blocks[bb]["term"])) for bb in region if cu.blocks[bb]["term"]["k"] == "call"]
        stores = [bb for bb in region for st in cu.blocks[bb]["stmts"] if st["k"] == "assign" and st["dst"]["p"]]
        rets = [bb for bb in region if cu.blocks[bb]["term"]["k"] == "return"]
        r3.check(not calls and not stores and rets, {"taken_branch": "returns", "calls": calls, "stores": len(stores)}, "C16.R3:exit",
                 "the early exit does more than return (calls %s, %d stores)" % (calls, len(stores)), lib.where_of(cu))
        r3.check(g["op"] in ("Gt", "Ge") and g["parts"] is not None, {"guard": "%s %s bound + %s day(s)" % (g["diff"], g["op"], g["slack"])}, "C16.R3:shape",
                 "the early-exit guard is not `elapsed days > bound (+ constant)`: %s %s %s" % (g["diff"], g["op"], g["bound_side"]), lib.where_of(cu))
    r3.floor(3)

    # R4 -------------------------------------------------------------------------------------
    r4 = res.rule("C16.R4", "a consumption that was cut short is always reported as none: the early exit fires on whole days elapsed since the day the interval started (which is less than one day after its start instant), so its threshold must exceed the reporting threshold by at least one day; both compare with the same bound")
    if len(gs) == 1 and len(gc) == 1:
        s_rep, s_exit = gs[0]["slack"], gc[0]["slack"]
        ok = s_rep is not None and s_exit is not None and s_exit - s_rep >= 1.0 - 1e-9
        r4.check(ok, {"early_exit_threshold": "bound + %s d" % s_exit, "reporting_threshold": "bound + %s d" % s_rep}, "C16.R4:slack",
                 "early exit at bound + %s d, reporting at bound + %s d: an interval cut short after less than (bound + 1 day) can be reported with a truncated end, i.e. a change that does not exist" % (s_exit, s_rep), lib.where_of(cu))
        b1 = terms.leaves(terms.parse(gs[0]["bound_side"]), lambda n: n[0] == "var" and FIELD in n[1])
        b2 = terms.leaves(terms.parse(gc[0]["bound_side"]), lambda n: n[0] == "var" and FIELD in n[1])
        r4.check(b1 and b1 == b2, {"same_bound": [x[1] for x in b1]}, "C16.R4:same-bound", "the two guards do not read the same bound: %s vs %s" % (b1, b2), lib.where_of(cu))
    else:
        r4.anchor_missing("both guards (R2, R3)")
    r4.floor(2)

    # R5 -------------------------------------------------------------------------------------
    r5 = res.rule("C16.R5", "the bound evaluated is the bound given: the builder stores its argument unchanged and keeps the other fields")
    b = prog.require_fn(CTX + "::<L>::" + FIELD)
    sh = flow.shape(b, 0, depth=6)
    ok = re.search(r"%s: Option::Some\{0: p2\}" % FIELD, sh) is not None and "holidays: p1.holidays" in sh and "locale: p1.locale" in sh
    r5.check(ok, {"fn": b.id, "returns": sh}, "C16.R5:builder", "Context::approx_bound_interval_size returns %s" % sh, lib.where_of(b))

    # R6 -------------------------------------------------------------------------------------
    r6 = res.rule("C16.R6", "a bound once given stays in the context: every method that turns a Context into a Context (with_holidays, with_locale, the bound's own setter, any later builder) carries every component it is not given over from the receiver - in particular `approx_bound_interval_size` is the receiver's, or `Some` of an argument; none of them resets it")

    def top_fields(shape):
        m = re.fullmatch(r"Context\{(.*)\}", shape)
        if not m:
            return None
        out, depth, cur = [], 0, ""
        for ch in m.group(1):
            if ch in "({[":
                depth += 1
            elif ch in ")}]":
                depth -= 1
            if ch == "," and depth == 0:
                out.append(cur.strip())
                cur = ""
            else:
                cur += ch
        if cur.strip():
            out.append(cur.strip())
        return dict(x.split(": ", 1) for x in out if ": " in x)

    n_b = 0
    for f in prog.fns.values():
        if f.crate != lib.OH or f.kind != "AssocFn" or f.from_expansion or (f.impl and f.impl.get("derived")):
            continue
        ins_ = f.j.get("inputs", [])
        if not ins_ or not re.match(r"&?(mut )?" + re.escape(CTX) + r"<", ins_[0]) or not re.match(re.escape(CTX) + r"<", f.j.get("output", "")):
            continue
        n_b += 1
        shp = flow.shape(f, 0, depth=6)
        alts = [a.strip() for a in (shp[4:-1].split(" | ") if shp.startswith("alt(") else [shp])]
        for a in alts:
            if re.fullmatch(r"\*?p1", a):
                r6.ok({"builder": f.name, "returns": "the receiver"})
                continue
            fl = top_fields(a)
            if fl is None:
                r6.fail("C16.R6:%s:unmodelled" % f.name, "Context builder %s returns %s: not a struct expression over the receiver's fields - not decided, failing closed" % (f.id, a[:160]), lib.where_of(f))
                continue
            for name, val in sorted(fl.items()):
                kept = re.fullmatch(r"\(?\*?p1\)?\.%s" % re.escape(name), val) is not None
                given = "p1" not in re.findall(r"p\d+", val) and bool(re.findall(r"p[2-9]", val))
                if name == FIELD:
                    given = re.fullmatch(r"Option::Some\{0: p[2-9]\}", val) is not None
                r6.check(kept or given, {"builder": f.name, "field": name, "value": val[:80], "kept_from_receiver": kept, "given_by_argument": given}, "C16.R6:%s:%s" % (f.name, name),
                         "Context::%s builds a context whose `%s` is %s: neither the receiver's nor the argument's - a %s configured earlier is silently lost%s" % (f.name, name, val[:80], "bound" if name == FIELD else "component", " (next_change is then exact / unbounded although a bound was given: `none whenever more than B after` fails)" if name == FIELD else ""), lib.where_of(f))
    r6.floor(9)
