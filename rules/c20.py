"""C20 - UniqueSortedVec keeps its sorted-unique invariant.

Decided: the inner vector can only be created sorted+deduplicated (R1), is never handed out
mutably (R2), `union` only appends in order (R3, structural part), lookups use binary search
consistently (R4), `union` drops no operand and no element unless known empty / compared Equal
(R7, conservation on every path). Not decided: that `union` returns exactly the set union for
every interleaving (value reasoning; R3 + R7 are its structural necessary conditions).
"""

import re

import flow
import lib
import witness

USV = "opening_hours_syntax::sorted_vec::UniqueSortedVec"
SORT_NATURAL = re.compile(r"core::slice::<impl \[T\]>::(sort|sort_unstable)$")
DEDUP = re.compile(r"alloc::vec::Vec::<T(, A)?>::dedup$")


def usv_aggregates(prog):
    """Every construction of a UniqueSortedVec in the workspace: (fn, bb, node, operand)."""
    for f in prog.fns.values():
        for bb, s in f.stmts():
            if s["k"] == "assign" and s["rv"]["k"] == "agg" and s["rv"].get("adt") == USV:
                yield f, bb, s, s["rv"]["ops"][0]
        for bb, t in f.calls():
            c = t["callee"]
            if "indirect" not in c and c.get("ctor_adt") == USV:
                yield f, bb, t, t["args"][0]
        # the constructor used as a function value (e.g. `.map(UniqueSortedVec)`)
        for r in prog.fn_refs(f):
            if isinstance(r, tuple) and r[1].get("ctor_adt") == USV:
                yield f, None, {"sp": f.j["sp"], "k": "fnref"}, None


def run(ctx, prog, res):
    adt = prog.adt(USV)

    # R1 -------------------------------------------------------------------------------------
    r1 = res.rule("C20.R1", "the inner vector is born sorted and deduplicated: UniqueSortedVec is only constructed in `new` (empty), `From<Vec<T>>` (after sort then dedup of the same vector), `to_ref` (element-wise Borrow of an existing instance) and derive expansions")
    for f, bb, node, operand in usv_aggregates(prog):
        key = "C20.R1:%s" % f.id
        where = lib.where_of(f, node)
        if f.impl and f.impl.get("derived"):
            r1.ok({"site": f.id, "kind": "derive expansion"})
            continue
        if operand is None:
            r1.fail(key + ":ctor-as-fn", "UniqueSortedVec constructor used as a function value in %s" % f.id, where)
            continue
        if f.id == USV + "::<T>::new":
            calls = flow.origin_calls(f, operand)
            ok = len(calls) == 1 and flow.call_name(calls[0]) == "alloc::vec::Vec::<T>::new"
            r1.check(ok, {"site": f.id, "operand": "Vec::new()"}, key, "`new` does not build the empty vector", where)
            continue
        if f.impl and f.impl.get("trait") == "core::convert::From" and f.impl.get("self_adt") == USV:
            params = flow.root_params(f, operand)
            calls = flow.origin_calls(f, operand)
            sort_bbs, dedup_bbs = [], []
            for cbb, t in f.calls():
                if not t["args"]:
                    continue
                if any(SORT_NATURAL.search(n) for n in flow.call_names(t)) and flow.root_params(f, t["args"][0]) == params:
                    sort_bbs.append(cbb)
                if any(DEDUP.search(n) for n in flow.call_names(t)) and flow.root_params(f, t["args"][0]) == params:
                    dedup_bbs.append(cbb)
            ok = (params == {1} and not calls and sort_bbs and dedup_bbs
                  and any(f.dominates(s, d) and s != d for s in sort_bbs for d in dedup_bbs)
                  and any(f.dominates(d, bb) for d in dedup_bbs)
                  and not flow.reach_avoiding(f, 0, [bb], dedup_bbs)
                  and not flow.reach_avoiding(f, 0, dedup_bbs, sort_bbs))
            r1.check(ok, {"site": f.id, "operand": "param vec", "sort_blocks": sort_bbs, "dedup_blocks": dedup_bbs},
                     key, "From<Vec<T>>: the stored vector is not (the parameter after natural-order sort, then dedup) on every path", where,
                     {"operand_params": sorted(params), "other_calls": [flow.call_name(c) for c in calls]})
            continue
        if f.id == USV + "::<T>::to_ref":
            calls = [flow.call_name(c) for c in flow.deep_origin_calls(f, operand)]
            allowed = re.compile(r"(::collect$|::map$|core::slice::<impl \[T\]>::iter$)")
            extra = [c for c in calls if not allowed.search(c)]
            fields = flow.origin_fields(f, operand) + [x for c in flow.deep_origin_calls(f, operand) if c["k"] == "call" for a in c["args"] for x in flow.origin_fields(f, a)]
            maps = [c for c in flow.deep_origin_calls(f, operand) if c["k"] == "call" and flow.call_name(c).endswith("::map")]
            borrow_only = all(any(a.get("k") == "const" and a.get("fn", {}).get("def") == "core::borrow::Borrow::borrow" for a in m["args"]) for m in maps) and len(maps) == 1
            ok = not extra and borrow_only and (USV, "UniqueSortedVec", "0") in fields
            r1.check(ok, {"site": f.id, "operand": "self.0.iter().map(Borrow::borrow).collect()"}, key,
                     "to_ref no longer maps the existing vector element-wise through Borrow::borrow only", where, {"calls": calls})
            continue
        r1.fail(key, "new construction site of UniqueSortedVec outside new/From<Vec>/to_ref: %s" % f.id, where)
    r1.floor(3)

    # R2 -------------------------------------------------------------------------------------
    r2 = res.rule("C20.R2", "the vector is never handed out mutably: private field, no DerefMut/AsMut/BorrowMut/IndexMut impl, no method returning &mut, mutable access to `.0` only inside `union`")
    fld = adt["variants"][0]["fields"][0]
    r2.check(fld["vis"].startswith("restricted:") and fld["vis"].endswith("sorted_vec"), {"field": "0", "vis": fld["vis"]},
             "C20.R2:field-vis", "the inner vector field is visible outside its module (%s)" % fld["vis"])
    bad_traits = ("core::ops::deref::DerefMut", "core::convert::AsMut", "core::borrow::BorrowMut", "core::ops::index::IndexMut")
    for im in prog.impls:
        if im.get("self_adt") == USV:
            r2.check(im.get("trait") not in bad_traits, {"impl": im["id"]}, "C20.R2:impl:%s" % im.get("trait"),
                     "impl of %s for UniqueSortedVec hands out the vector mutably" % im.get("trait"), "%s:%s" % (im["sp"]["file"], im["sp"]["line"]))
    for f in prog.fns.values():
        if f.kind == "AssocFn" and f.impl and f.impl.get("self_adt") == USV:
            out = f.j.get("output", "")
            r2.check("&mut" not in out, {"method": f.id, "returns": out}, "C20.R2:ret:%s" % f.name,
                     "method %s returns a mutable reference (%s)" % (f.id, out), lib.where_of(f))
    n_mut = 0
    for f in prog.fns.values():
        for bb, s in f.stmts():
            if s["k"] != "assign":
                continue
            mut_borrow = s["rv"]["k"] == "ref" and s["rv"]["mut"] and (USV, "UniqueSortedVec", "0") in lib.place_fields(s["rv"]["pl"])
            write = (USV, "UniqueSortedVec", "0") in lib.place_fields(s["dst"])
            if mut_borrow or write:
                n_mut += 1
                allowed = f.id == USV + "::<T>::union" or (f.impl and f.impl.get("derived"))
                r2.check(allowed, {"mutable_access_in": f.id}, "C20.R2:mut-access:%s" % f.id,
                         "mutable access to the inner vector outside `union`: %s" % f.id, lib.where_of(f, s))
    r2.floor(8)

    # R3 -------------------------------------------------------------------------------------
    r3 = res.rule("C20.R3", "`union` only appends in order: every `extend` is guarded by a strict `<` between the last element of the receiver and the first element of the argument; every `push` pushes the element popped in the same activation; the recursive call is preceded by a `pop` on every path")
    un = prog.require_fn(USV + "::<T>::union")

    def elem_of(op):
        """(param, 'first'|'last') for a reference to the first/last element of a parameter's slice."""
        seen = set()
        work = [lib.operand_place(op)]
        while work:
            pl = work.pop()
            if pl is None or pl["l"] in seen:
                continue
            seen.add(pl["l"])
            for _, n in un.defs_of(pl["l"]):
                if n["k"] != "assign" or n["rv"]["k"] not in ("ref", "use"):
                    continue
                npl = n["rv"]["pl"] if n["rv"]["k"] == "ref" else lib.operand_place(n["rv"]["op"])
                if npl is None:
                    continue
                ci = [e for e in npl["p"] if isinstance(e, dict) and "ci" in e]
                if ci:
                    e = ci[0]
                    pos = "last" if (e["from_end"] and e["ci"] == 1) else ("first" if (not e["from_end"] and e["ci"] == 0) else "other")
                    ps = flow.root_params(un, npl["l"])
                    return (sorted(ps)[0] if len(ps) == 1 else None, pos)
                work.append(npl)
        return (None, None)

    n_ext = 0
    for bb, t in un.calls():
        names = flow.call_names(t)
        if any(n.endswith("::extend") for n in names):
            n_ext += 1
            recv = flow.root_params(un, t["args"][0])
            arg = flow.root_params(un, t["args"][1])
            guard = None
            for sbb, _ in un.live_blocks():
                d = flow.bool_switch_of(un, sbb)
                if d and d["op"] == "Lt" and un.dominates(d["true_bb"], bb) and not un.dominates(d["false_bb"], bb):
                    guard = d
            ok = False
            detail = {"receiver": sorted(recv), "argument": sorted(arg)}
            if guard is not None and len(recv) == 1 and len(arg) == 1:
                a, b = elem_of(guard["a"]), elem_of(guard["b"])
                detail.update({"lt_left": a, "lt_right": b})
                ok = a == (sorted(recv)[0], "last") and b == (sorted(arg)[0], "first") and not guard["negated"]
            r3.check(ok, {"extend_in_block": bb, **detail}, "C20.R3:extend:%s" % sorted(recv),
                     "`extend` in union is not guarded by `last(receiver) < first(argument)` (strict)", lib.where_of(un, t), detail)
        if any(re.search(r"alloc::vec::Vec::<T(, A)?>::push$", n) for n in names):
            calls = [flow.call_name(c) for c in flow.origin_calls(un, t["args"][1])]
            r3.check(bool(calls) and all(c.endswith("::pop") for c in calls), {"push_value_from": calls}, "C20.R3:push",
                     "`push` in union pushes a value that was not popped in the same activation: %s" % calls, lib.where_of(un, t))
            recv_calls = [flow.call_name(c) for c in flow.origin_calls(un, t["args"][0])]
            r3.check(recv_calls == [USV + "::<T>::union"], {"push_onto": recv_calls}, "C20.R3:push-recv",
                     "`push` target is not the result of the recursive union: %s" % recv_calls, lib.where_of(un, t))
        if USV + "::<T>::union" in names:
            pops = [b for b, tt in un.calls() if any(n.endswith("::pop") for n in flow.call_names(tt))]
            r3.check(bool(pops) and not flow.reach_avoiding(un, 0, [bb], pops), {"recursive_call_block": bb, "pop_blocks": pops},
                     "C20.R3:recursion", "the recursive call of union is reachable without popping an element (no decreasing measure)", lib.where_of(un, t))
    # the order argument above covers `extend` (guarded), `pop` and `push`; any other way of changing an inner vector
    # (insert, splice, append, retain, drain, swap, sort, ...) places elements by an argument these rules do not make
    ALLOWED_MUT = re.compile(r"(::extend|::pop|::push)$")
    for bb, t in un.calls():
        if not t["args"]:
            continue
        pl0 = lib.operand_place(t["args"][0])
        if pl0 is None:
            continue
        mutref = False
        for _, n in un.defs_of(pl0["l"]):
            if n["k"] == "assign" and n["rv"]["k"] == "ref" and n["rv"].get("mut") and (USV, "UniqueSortedVec", "0") in lib.place_fields(n["rv"]["pl"]):
                mutref = True
        if not mutref:
            continue
        nm = flow.call_name(t) or "?"
        r3.check(ALLOWED_MUT.search(nm) is not None, {"mutation_in_union": nm.split("::")[-1], "block": bb}, "C20.R3:mutation:%s" % nm.split("::")[-1],
                 "union changes an inner vector through `%s`: only a guarded `extend`, `pop` and `push` of the popped maximum are argued to keep the vector sorted and free of duplicates; where this call puts its elements is not decided (failing closed)" % nm, lib.where_of(un, t))
    r3.floor(5)

    # R4 -------------------------------------------------------------------------------------
    r4 = res.rule("C20.R4", "`contains` and `find_first_following` rely on order through binary search; the latter indexes with the position from either arm of the search result")
    for name in ("contains", "find_first_following"):
        f = prog.require_fn(USV + "::<T>::" + name)
        bs = [t for _, t in f.calls() if flow.call_name(t).endswith("<impl [T]>::binary_search")]
        ok = len(bs) == 1 and (USV, "UniqueSortedVec", "0") in flow.origin_fields(f, bs[0]["args"][0]) and flow.root_params(f, bs[0]["args"][1]) == {2}
        r4.check(ok, {"fn": f.id, "binary_search_on": "self.0", "needle": "param x"}, "C20.R4:%s" % name,
                 "%s does not binary-search the inner vector for its argument" % name, lib.where_of(f))
    # a membership test may answer `false` without searching only for the empty vector or after an
    # ordering comparison that excludes the needle
    cf = prog.require_fn(USV + "::<T>::contains")
    n_false = 0
    for bb, b in cf.live_blocks():
        for st in b["stmts"]:
            if not (st["k"] == "assign" and st["dst"]["l"] == 0 and not st["dst"]["p"] and st["rv"]["k"] == "use" and st["rv"]["op"].get("k") == "const" and st["rv"]["op"].get("bool") is False):
                continue
            n_false += 1
            justified = any(cf.dominates(sb, bb) for sb, t_ in cf.calls() if flow.call_name(t_).endswith("<impl [T]>::binary_search"))  # the search already ran
            for sbb, _ in cf.live_blocks():
                d = flow.bool_switch_of(cf, sbb)
                if not d or not (cf.dominates(d["true_bb"], bb) or cf.dominates(d["false_bb"], bb)):
                    continue
                a_, b_ = flow.shape(cf, d["a"], depth=5), flow.shape(cf, d["b"], depth=5)
                if d["node"]["k"] == "call" and ("p2" in a_ or "p2" in b_) and d["op"] in ("Lt", "Le", "Gt", "Ge"):
                    justified = True  # ordering comparison with the needle
                lens = [x for x in (a_, b_) if re.search(r"len|PtrMetadata|Len", x)]
                consts = [x for x in (a_, b_) if re.fullmatch(r"\d+", x)]
                if lens and consts:
                    c_ = int(consts[0])
                    op_ = d["op"] if re.fullmatch(r"\d+", b_) else {"Lt": "Gt", "Gt": "Lt", "Le": "Ge", "Ge": "Le"}.get(d["op"], d["op"])
                    on_true = cf.dominates(d["true_bb"], bb)
                    # which lengths reach this block?
                    empty_only = (op_ == "Eq" and c_ == 0 and on_true) or (op_ == "Ne" and c_ == 0 and not on_true) or (op_ == "Lt" and c_ == 1 and on_true) or (op_ == "Ge" and c_ == 1 and not on_true) or (op_ == "Gt" and c_ == 0 and not on_true) or (op_ == "Le" and c_ == 0 and on_true)
                    if empty_only:
                        justified = True
            r4.check(justified, {"fn": cf.id, "constant_false": "only for the empty vector or after an ordering comparison"}, "C20.R4:contains:false",
                     "contains answers `false` without searching on a path that is neither `the vector is empty` nor guarded by an ordering comparison with the needle (e.g. a slice pattern that does not match one-element vectors)", lib.where_of(cf, st))
    r4.ok({"fn": cf.id, "constant_false_answers": n_false})
    f = prog.require_fn(USV + "::<T>::find_first_following")
    gets = [t for _, t in f.calls() if flow.call_name(t).endswith("<impl [T]>::get")]
    ok = False
    if len(gets) == 1:
        flds = set(flow.origin_fields(f, gets[0]["args"][1]))
        ok = ("core::result::Result", "Ok", "0") in flds and ("core::result::Result", "Err", "0") in flds and not [c for c in flow.origin_calls(f, gets[0]["args"][1]) if not flow.call_name(c).endswith("binary_search")]
        ok = ok and not [n for n in flow.deep_origin_calls(f, gets[0]["args"][1], depth=1) if n["k"] == "assign"]
    r4.check(ok, {"fn": f.id, "index": "Ok(i) | Err(i) unmodified"}, "C20.R4:index",
             "find_first_following does not index with the unmodified position of either search outcome", lib.where_of(f))
    r4.floor(3)

    # R6 -------------------------------------------------------------------------------------
    r6 = res.rule("C20.R6", "lookups agree with the set: `contains(x)` <=> x is an element, `find_first_following(x)` = the least element >= x (None when there is none); both functions are extracted per path from MIR and evaluated on every strictly increasing vector over {0..4} (32 vectors) and every x in -1..=5 (small scope: the functions only compare, so only ranks matter; vectors longer than 5 are not explored)")
    import itertools
    import peval
    ev = peval.Evaluator(prog)
    fns = {f.name: f for k, f in prog.fns.items() if "sorted_vec::UniqueSortedVec" in k and f.name in ("contains", "find_first_following") and f.kind == "AssocFn"}
    if set(fns) != {"contains", "find_first_following"}:
        r6.anchor_missing("UniqueSortedVec::contains / find_first_following")
    else:
        n_eval = 0
        bad = {}
        try:
            for k in range(0, 6):
                for v in itertools.combinations(range(5), k):
                    v = list(v)
                    for x in range(-1, 6):
                        n_eval += 2
                        got = ev.run(fns["contains"], [("tuple", [v]), x])
                        if bool(got) != (x in v):
                            bad.setdefault("contains", (v, x, got, x in v))
                        got = ev.run(fns["find_first_following"], [("tuple", [v]), x])
                        want = min([e for e in v if e >= x], default=None)
                        g = got[1] if got is not None else None
                        if g != want:
                            bad.setdefault("find_first_following", (v, x, g, want))
        except peval.Unmodelled as ex:
            r6.fail("C20.R6:unmodelled", "the lookups of UniqueSortedVec cannot be evaluated from their MIR any more (%s): not decided, failing closed" % ex, lib.where_of(fns["contains"]))
            bad = None
        if bad is not None:
            for nm in ("contains", "find_first_following"):
                b = bad.get(nm)
                r6.check(b is None, {"fn": nm, "vectors": 32, "needles": 7, "evaluations": n_eval // 2}, "C20.R6:%s" % nm,
                         "" if b is None else "%s(%r) on %r gives %r, the set says %r" % (nm, b[1], b[0], b[2], b[3]), lib.where_of(fns[nm]))
    r6.floor(2)

    # R7 -------------------------------------------------------------------------------------
    r7 = res.rule("C20.R7", "`union` loses nothing: on every path to a result, each operand is moved into the result (returned, appended with `extend`, or handed to the recursive call) unless the path has established that its slice is empty; and every element popped is pushed back, except one of two elements the path has compared `Equal`")
    import pathterms
    result_blocks = []
    for bb, b in un.live_blocks():
        for st in b["stmts"]:
            if st["k"] == "assign" and st["dst"]["l"] == 0 and not st["dst"]["p"]:
                result_blocks.append(bb)
    result_blocks = sorted(set(result_blocks))
    if not result_blocks:
        r7.anchor_missing("an assignment of the result in union")

    def moved_params(bb):
        """Parameters moved (whole, or their inner vector) out in block bb: into the result, into a call."""
        out = set()
        blk = un.blocks[bb]
        ops = []
        for st in blk["stmts"]:
            if st["k"] == "assign" and st["rv"]["k"] == "use":
                ops.append(st["rv"]["op"])
        if blk["term"]["k"] == "call":
            ops.extend(blk["term"]["args"])
        for o in ops:
            if o.get("k") != "move":
                continue
            pl = lib.operand_place(o)
            if pl is None or pl["l"] not in (1, 2):
                continue
            proj = [e for e in pl["p"]]
            if not proj or (len(proj) == 1 and isinstance(proj[0], dict) and proj[0].get("n") == "0"):
                out.add(pl["l"])
        return out

    def len_of(op, depth=6):
        """Parameters of which `op` is the slice length (slice metadata or a `len()` call)."""
        pl = lib.operand_place(op)
        if pl is None or depth == 0:
            return set()
        out = set()
        for _, n in un.defs_of(pl["l"]):
            if n["k"] == "assign" and n["rv"]["k"] == "use":
                out |= len_of(n["rv"]["op"], depth - 1)
            elif n["k"] == "assign" and n["rv"]["k"] == "un" and n["rv"]["op"] == "PtrMetadata":
                out |= flow.root_params(un, n["rv"]["a"])
            elif n["k"] == "call" and re.search(r"::len$", flow.call_name(n)):
                out |= flow.root_params(un, n["args"][0])
        return out

    def known_empty(path):
        """Parameters whose slice the path has found empty: `len == 0` on its true edge or `is_empty()`."""
        out = set()
        for b, nxt in zip(path, path[1:]):
            d = flow.bool_switch_of(un, b)
            if d and d["op"] == "Eq" and nxt == d["true_bb"] and nxt != d["false_bb"]:
                for x, y in ((d["a"], d["b"]), (d["b"], d["a"])):
                    cs = flow.origin_consts(un, y)
                    if len(cs) == 1 and cs[0].get("int") == 0:
                        ps = len_of(x)
                        if len(ps) == 1:
                            out |= ps
            t = un.blocks[b]["term"]
            if t["k"] == "switch":
                pl = lib.operand_place(t["op"])
                if pl is not None:
                    for _, n in un.defs_of(pl["l"]):
                        if n["k"] == "call" and flow.call_name(n).endswith("::is_empty"):
                            tg = dict((v, x) for v, x in t["targets"])
                            true_bb = t["otherwise"] if 0 in tg else tg.get(1)
                            if nxt == true_bb and nxt != tg.get(0, None):
                                ps = flow.root_params(un, n["args"][0])
                                if len(ps) == 1:
                                    out |= ps
        return out

    def took_equal(path):
        for b, nxt in zip(path, path[1:]):
            t = un.blocks[b]["term"]
            if t["k"] != "switch":
                continue
            pl = lib.operand_place(t["op"])
            if pl is None:
                continue
            for _, n in un.defs_of(pl["l"]):
                if n["k"] == "assign" and n["rv"]["k"] == "discr":
                    src = lib.operand_place(n["rv"].get("op") or {"k": "copy", "pl": n["rv"].get("pl")})
                    calls = flow.origin_calls(un, src["l"]) if src is not None else []
                    if any(flow.call_name(c).endswith("::cmp") for c in calls):
                        if [v for v, tgt in t["targets"] if tgt == nxt] == [0] and t["otherwise"] != nxt:
                            return True
        return False

    n_paths = 0
    for rb in result_blocks:
        for path in pathterms.acyclic_paths(un, rb):
            n_paths += 1
            moved = set()
            for b in path:
                moved |= moved_params(b)
            empty = known_empty(path)
            lost = sorted(p for p in (1, 2) if p not in moved and p not in empty)
            names = {1: "self", 2: "other"}
            pops = sum(1 for b in path if un.blocks[b]["term"]["k"] == "call" and flow.call_name(un.blocks[b]["term"]).endswith("::pop"))
            pushes = sum(1 for b in path if un.blocks[b]["term"]["k"] == "call" and re.search(r"::push$", flow.call_name(un.blocks[b]["term"])))
            want = 1 if took_equal(path) else 0
            ok_ops = not lost
            ok_el = (pops - pushes) == want
            detail = {"result_block": rb, "path": path, "moved": sorted(names[p] for p in moved), "known_empty": sorted(names[p] for p in empty), "pops": pops, "pushes": pushes, "compared_equal": bool(want)}
            r7.check(ok_ops, detail, "C20.R7:operand-lost:%s" % ",".join(names[p] for p in lost),
                     "a path of union returns without `%s` although nothing on the path says it is empty: its elements are dropped (path through blocks %s)" % (",".join(names[p] for p in lost), path), lib.where_of(un))
            r7.check(ok_el, dict(detail, clause="elements"), "C20.R7:element-lost",
                     "a path of union pops %d element(s) and pushes %d back%s (path through blocks %s)" % (pops, pushes, " after comparing them Equal" if want else " without having compared them Equal", path), lib.where_of(un))
    r7.floor(14)

    # W compile-time witnesses ---------------------------------------------------------------
    witness.run_doctests(ctx, prog, res, "C20.W", "outside the crate the vector can neither be built unsorted (tuple constructor is private) nor mutated in place (no DerefMut); twins compile", "c20", floor=4)
