"""Shared rule: a merge-by-start loop keeps the farther end (used by C14 and C01).

Instances are found by query, not by name: functions (with their closures) that sort a
collection with a key/comparator reading `Range::start` and assign a `Range::end` from another
item's `Range::end`."""

import re

import flow
import lib

RANGE = "core::ops::range::Range"
MAX_CLASS = re.compile(r"(core::cmp::max$|core::cmp::Ord::max$|core::cmp::max_by|core::cmp::Ord::max_by|::max$)")
SORT_ANY = re.compile(r"core::slice::<impl \[T\]>::sort(_unstable)?(_by|_by_key|_by_cached_key)?$")


def _is_end(fields):
    return bool(fields) and fields[-1][0] == RANGE and fields[-1][2] == "end"


def _end_op(fn, op):
    nf = flow.nearest_field(fn, op)
    return nf is not None and nf[0] == RANGE and nf[2] == "end"


def _ident(fn, op):
    """Comparable identity of where an operand's value lives: base locals of field origins."""
    res = set()
    for o in flow.operand_origins(fn, op):
        if o.kind == "field" and o.local is not None:
            res.add(("l", o.local))
            for r in flow.origins(fn, o.local):
                if r.kind in ("param", "other") and r.local is not None:
                    res.add(("l", r.local))
                if r.kind == "call":
                    res.add(("c", id(r.node)))
        if o.kind == "param":
            res.add(("l", o.local))
    return res


def instances(prog, crates):
    for f in prog.fns.values():
        if f.crate not in crates or f.kind == "Closure":
            continue
        bodies = [prog.fns[x] for x in prog.with_closures(f.id)]
        sorts = []
        for b in bodies:
            for bb, t in b.calls():
                if any(SORT_ANY.search(n) for n in flow.call_names(t)):
                    # comparator / key closures mentioned in the call read Range.start?
                    cl = [a.get("closure") for a in t["args"] if a.get("k") == "const" and a.get("closure")]
                    for a in t["args"]:
                        pl = lib.operand_place(a)
                        if pl is not None:
                            for _, d in b.defs_of(pl["l"]):
                                if d["k"] == "assign" and d["rv"]["k"] == "agg" and d["rv"].get("ak") == "closure":
                                    cl.append(d["rv"]["closure"])
                    reads_start = False
                    for c in cl:
                        cf = prog.fns.get(c)
                        if cf is None:
                            continue
                        for _, s in cf.stmts():
                            if s["k"] == "assign":
                                for pl in lib.rvalue_places(s["rv"]):
                                    fs = lib.place_fields(pl)
                                    if fs and fs[-1][0] == RANGE and fs[-1][2] == "start":
                                        reads_start = True
                    if reads_start:
                        sorts.append((b, bb, t))
        if not sorts:
            continue
        assigns = []
        for b in bodies:
            for bb, s in b.stmts():
                if s["k"] == "assign" and _is_end(lib.place_fields(s["dst"])) and s["rv"]["k"] == "use":
                    assigns.append((b, bb, s))
        yield f, sorts, assigns


def check(prog, rule, crates, prefix):
    n = 0
    for f, sorts, assigns in instances(prog, crates):
        for b, bb, s in assigns:
            op = s["rv"]["op"]
            calls = [] if _end_op(b, op) else flow.origin_calls(b, op)
            key = "%s:%s" % (prefix, f.id)
            if calls and all(any(MAX_CLASS.search(n_) for n_ in flow.call_names(c)) for c in calls):
                args_ok = all(sum(1 for a in c["args"] if _end_op(b, a)) == 2 for c in calls)
                rule.check(args_ok, {"fn": f.id, "merge": "end = max(end, other.end)", "sorted_by": "start"}, key,
                           "merge in %s takes a max of something else than the two ends" % f.id, lib.where_of(b, s))
                n += 1
                continue
            if not _end_op(b, op):
                # end assigned from something that is not another end (a start, a constant): not a merge of two ends
                continue
            n += 1
            src_id = _ident(b, op)
            dst_id = {("l", s["dst"]["l"])} | {("l", r.local) for r in flow.origins(b, s["dst"]["l"]) if r.local is not None}
            guarded = False
            for sbb, _ in b.live_blocks():
                d = flow.bool_switch_of(b, sbb)
                if not d or d["op"] not in ("Gt", "Lt", "Ge", "Le"):
                    continue
                if not (_end_op(b, d["a"]) and _end_op(b, d["b"])):
                    continue
                if not (b.dominates(d["true_bb"], bb) and not b.dominates(d["false_bb"], bb)):
                    continue
                a_id, b_id = _ident(b, d["a"]), _ident(b, d["b"])
                # true edge must mean: source end is (strictly) greater than the end being overwritten
                if d["op"] == "Gt" and a_id & src_id and not (b_id & src_id):
                    guarded = True
                if d["op"] == "Lt" and b_id & src_id and not (a_id & src_id):
                    guarded = True
            rule.check(guarded, {"fn": f.id, "merge": "if other.end > end { end = other.end }", "sorted_by": "start"}, key,
                       "after sorting by start only, %s overwrites a range end with the absorbed range's end without taking the maximum (a nested range shortens the merged one)" % f.id,
                       lib.where_of(b, s))
    return n
