"""C03 - state and next_change are mutually consistent.

Decided: is_open/is_closed/is_unknown are exactly the three cases of state (R1); next_change
returns the end of the first interval of the open-ended stream and is none exactly from the
upper bound on (R2); state asks for a non-empty window starting at the instant (or its wall clock) and defaults to
closed (R3). Not decided: 'never earlier, never later' (iterator values), sub-minute behaviour.
"""

import re

import flow
import lib

OHT = "opening_hours::opening_hours::OpeningHours::<L>::"
KIND = "opening_hours_syntax::rules::RuleKind"
RANGE = "core::ops::range::Range"
DTR = "opening_hours::utils::range::DateTimeRange"
DATE_END = "opening_hours::opening_hours::DATE_END"


def predicate_variant(prog, f):
    """Which RuleKind variant makes the predicate true, and whether the comparison is with the
    result of `state` on the unmodified instant. Returns (variant or None, reason)."""
    states = [t for _, t in f.calls() if flow.call_name(t) == OHT + "state"]
    if len(states) != 1:
        return None, "does not call state exactly once"
    st = states[0]
    if flow.root_params(f, st["args"][0]) != {1} or flow.root_params(f, st["args"][1]) != {2} or flow.origin_calls(f, st["args"][1]):
        return None, "state is not called on (self, the instant passed in)"
    # form (a): return PartialEq::eq(&state, &RuleKind::V)
    rets = [o for o in flow.origins(f, 0)]
    if len(rets) == 1 and rets[0].kind == "call":
        d = flow._cmp_of_node(rets[0].node)
        if d and d["op"] in ("Eq",):
            sides = [d["a"], d["b"]]
            from_state = [any(c is st for c in flow.origin_calls(f, s)) for s in sides]
            variants = [flow.const_variants(f, s) for s in sides]
            if from_state[0] and variants[1] and not from_state[1]:
                return variants[1][0].split("::")[-1] if len(set(variants[1])) == 1 else None, "eq"
            if from_state[1] and variants[0] and not from_state[0]:
                return variants[0][0].split("::")[-1] if len(set(variants[0])) == 1 else None, "eq"
        if d and d["op"] == "Ne":
            return None, "compares with != (negated predicate)"
    # form (b): match on the discriminant, `true` stored on exactly one arm
    discrs = prog.adt(KIND)
    names = [v["name"] for v in discrs["variants"]]
    for bb, b in f.live_blocks():
        t = b["term"]
        if t["k"] != "switch":
            continue
        pl = lib.operand_place(t["op"])
        if pl is None:
            continue
        is_discr = any(n["k"] == "assign" and n["rv"]["k"] == "discr" and any(c is st for c in flow.origin_calls(f, n["rv"]["pl"]["l"])) for _, n in f.defs_of(pl["l"]))
        if not is_discr:
            continue
        true_vals = []
        for v, tgt in t["targets"] + [["otherwise", t["otherwise"]]]:
            # does this arm store `true` in the return place?
            stores = [s["rv"]["op"].get("bool") for x in flow.reachable_blocks(f, tgt) for s in f.blocks[x]["stmts"]
                      if s["k"] == "assign" and s["dst"]["l"] == 0 and not s["dst"]["p"] and s["rv"]["k"] == "use" and s["rv"]["op"].get("k") == "const"]
            if stores and all(stores) and v != "otherwise":
                true_vals.append(v)
            elif stores and any(stores) and v == "otherwise":
                return None, "default arm yields true"
        if len(true_vals) == 1 and discrs["discrs"]:
            idx = discrs["discrs"].index(true_vals[0])
            return names[idx], "match"
    return None, "unrecognised comparison shape"


def run(ctx, prog, res):
    # R1 -------------------------------------------------------------------------------------
    r1 = res.rule("C03.R1", "is_open / is_closed / is_unknown call state on the same instant and are true exactly for the RuleKind variant of the same name; together they cover all variants")
    covered = set()
    for x in ("open", "closed", "unknown"):
        f = prog.require_fn(OHT + "is_" + x)
        v, why = predicate_variant(prog, f)
        ok = v is not None and v.lower() == x
        if v:
            covered.add(v)
        r1.check(ok, {"fn": f.id, "true_iff_state_is": v, "form": why}, "C03.R1:is_%s" % x,
                 "is_%s is true for RuleKind::%s (%s)" % (x, v, why), lib.where_of(f))
    all_variants = {v["name"] for v in prog.adt(KIND)["variants"]}
    r1.check(covered == all_variants, {"variants": sorted(all_variants), "covered": sorted(covered)}, "C03.R1:cover", "the three predicates do not cover %s" % sorted(all_variants - covered))

    # R2 -------------------------------------------------------------------------------------
    r2 = res.rule("C03.R2", "next_change returns the end of the first interval of iter_from(instant), and none exactly when the naive value of that end is >= DATE_END (true at equality, false below)")
    nc = prog.require_fn(OHT + "next_change")
    it = [t for _, t in nc.calls() if flow.call_name(t) == OHT + "iter_from"]
    ok_src = len(it) == 1 and flow.root_params(nc, it[0]["args"][1]) == {2} and not flow.origin_calls(nc, it[0]["args"][1])
    r2.check(ok_src, {"fn": nc.id, "stream": "iter_from(instant)"}, "C03.R2:stream", "next_change does not iterate from the instant passed in", lib.where_of(nc))
    somes = [(bb, s) for bb, s in nc.stmts() if s["k"] == "assign" and s["dst"]["l"] == 0 and s["rv"]["k"] == "agg" and s["rv"].get("variant") == "Some"]
    nones = [(bb, s) for bb, s in nc.stmts() if s["k"] == "assign" and s["dst"]["l"] == 0 and s["rv"]["k"] == "agg" and s["rv"].get("variant") == "None"]
    ok_val = len(somes) == 1
    first_item_local = None
    if ok_val:
        op = somes[0][1]["rv"]["ops"][0]
        nf = flow.nearest_field(nc, op)
        calls = [flow.call_names(c)[0] for c in flow.origin_calls(nc, op)]
        ok_val = nf is not None and nf[0] == RANGE and nf[2] == "end" and calls == ["core::iter::traits::iterator::Iterator::next"]
        nexts = flow.origin_calls(nc, op)
        if ok_val and nexts:
            ok_val = any(c is it[0] for c in flow.origin_calls(nc, nexts[0]["args"][0])) if it else False
        for o in flow.operand_origins(nc, op):
            if o.kind == "field":
                first_item_local = o.local
                break
    r2.check(ok_val, {"fn": nc.id, "returns": "Some(first_interval.range.end)"}, "C03.R2:value", "next_change does not return the end of the first interval of the stream", lib.where_of(nc))
    ok_none = False
    detail = {}
    for sbb, _ in nc.live_blocks():
        d = flow.bool_switch_of(nc, sbb)
        if not d or d["op"] not in ("Ge", "Gt", "Le", "Lt", "Eq", "Ne"):
            continue
        sides = {"a": d["a"], "b": d["b"]}
        end_side = [k for k, v in sides.items() if DATE_END in flow.const_items(nc, v)]
        if len(end_side) != 1:
            continue
        other = "b" if end_side[0] == "a" else "a"
        # the other side: naive(end of the same first interval)
        ocalls = flow.origin_calls(nc, sides[other])
        naive_ok = len(ocalls) == 1 and flow.call_names(ocalls[0])[0].endswith("Localize::naive")
        same_end = False
        if naive_ok:
            nf = flow.nearest_field(nc, ocalls[0]["args"][1])
            same_end = nf is not None and nf[0] == RANGE and nf[2] == "end" and any(o.kind == "field" and o.local == first_item_local for o in flow.operand_origins(nc, ocalls[0]["args"][1]))
        op = d["op"]
        if end_side[0] == "a":
            op = {"Ge": "Le", "Gt": "Lt", "Le": "Ge", "Lt": "Gt", "Eq": "Eq", "Ne": "Ne"}[op]
        truth = {"Ge": (False, True, True), "Gt": (False, False, True), "Le": (True, True, False), "Lt": (True, False, False), "Eq": (False, True, False), "Ne": (True, False, True)}[op]
        # which branch yields None?
        none_on_true = any(nc.dominates(d["true_bb"], bb) for bb, _ in nones) and not any(nc.dominates(d["true_bb"], bb) for bb, _ in somes)
        none_on_false = any(nc.dominates(d["false_bb"], bb) for bb, _ in nones) and not any(nc.dominates(d["false_bb"], bb) for bb, _ in somes)
        if none_on_true:
            none_at = truth
        elif none_on_false:
            none_at = tuple(not x for x in truth)
        else:
            continue
        detail = {"comparison": "naive(end) %s DATE_END" % op, "none_when(less,equal,greater)": list(none_at), "naive_of_same_end": naive_ok and same_end}
        ok_none = naive_ok and same_end and none_at[0] is False and none_at[1] is True
    r2.check(ok_none, {"fn": nc.id, **detail}, "C03.R2:none", "next_change does not map 'end >= DATE_END' (true at equality, false below) of the returned end to None: %s" % detail, lib.where_of(nc))

    # R3 -------------------------------------------------------------------------------------
    r3 = res.rule("C03.R3", "state evaluates a window [instant, instant + positive constant) - on the instant itself or on its wall-clock value L::naive(instant) - and reports the kind of its first interval, closed when the stream is empty")
    st = prog.require_fn(OHT + "state")
    ir = [t for _, t in st.calls() if flow.call_name(t) in (OHT + "iter_range", OHT + "iter_range_naive")]
    ok = len(ir) == 1
    detail = {}
    if ok:
        a1, a2 = ir[0]["args"][1], ir[0]["args"][2]
        detail["evaluates"] = flow.call_name(ir[0]).split("::")[-1]
        # the window starts at the instant passed in, converted at most by the locale's wall-clock view
        import terms
        sh1, sh2 = flow.shape(st, a1, depth=8), flow.shape(st, a2, depth=10)
        ok = re.fullmatch(r"p2|Localize::naive\(p1\.ctx\.locale, p2\)", sh1) is not None
        if ok:
            try:
                t1, t2 = terms.parse(sh1), terms.parse(sh2)
            except terms.TermError:
                ok = False
        if ok:
            def is_add(n):
                return n[0] == "app" and n[1].split("::")[-1] in ("add", "checked_add_signed") and len(n[2]) == 2
            adds = terms.leaves(t2, is_add)
            ok = len(adds) == 1 and adds[0][2][0] == t1
            if ok:
                d = adds[0][2][1]
                ok = d[0] == "app" and re.fullmatch(r"TimeDelta::(minutes|seconds|milliseconds|hours|days|weeks)", d[1]) is not None and len(d[2]) == 1 and d[2][0][0] == "int" and d[2][0][1] > 0
                if ok:
                    detail["window"] = "%s(%s)" % (d[1], d[2][0][1])
                    detail["starts_at"] = sh1
            # wrappers around the sum may only saturate it (unwrap_or / expect / min)
            if ok:
                def wrappers(n, acc):
                    if is_add(n):
                        return acc
                    if n[0] == "app":
                        acc.append(n[1].split("::")[-1])
                        for a in n[2]:
                            if terms.leaves(a, is_add):
                                return wrappers(a, acc)
                    return acc
                ws = wrappers(t2, [])
                ok = all(w in ("unwrap_or", "expect", "unwrap", "min") for w in ws)
    r3.check(ok, {"fn": st.id, **detail}, "C03.R3:window", "state does not evaluate a non-empty window [instant, instant + positive constant)", lib.where_of(st))
    # result: the kind of the first interval of that stream, or the constant Closed when it is empty -
    # whatever combinator spells it (map + unwrap_or, map_or, unwrap_or_default, match)
    bodies = [prog.fns[x] for x in prog.with_closures(st.id)]
    kinds = set()
    for b_ in bodies:
        for bb_, blk in b_.live_blocks():
            for s_ in blk["stmts"]:
                if s_["k"] == "assign":
                    for o_ in ([s_["rv"].get("op")] if s_["rv"]["k"] == "use" else s_["rv"].get("ops", [])):
                        if isinstance(o_, dict) and o_.get("k") == "const" and o_.get("variant") and KIND in (o_.get("ty") or ""):
                            kinds.add(o_["variant"])
            t_ = blk["term"]
            if t_["k"] == "call":
                for o_ in t_["args"]:
                    for v_ in flow.const_variants(b_, o_):
                        if v_.startswith(KIND + "::"):
                            kinds.add(v_.split("::")[-1])
    default_ok = kinds == {"Closed"}
    if not kinds and any(flow.call_name(t_).endswith("unwrap_or_default") for b_ in bodies for _, t_ in b_.calls()):
        dflt = prog.impl_method_one("core::default::Default", "default", self_adt=KIND)
        default_ok = flow.shape(dflt, 0) == "RuleKind::Closed{}"
    reads_kind = any((flow.nearest_field(b_, 0) or (None, None, None))[0] == DTR and (flow.nearest_field(b_, 0) or (None, None, None))[2] == "kind" for b_ in bodies)
    nexts = [t_ for _, t_ in st.calls() if flow.call_names(t_)[0] == "core::iter::traits::iterator::Iterator::next"]
    first = len(nexts) == 1 and len(ir) == 1 and any(c is ir[0] for c in flow.origin_calls(st, nexts[0]["args"][0]))
    other_iter = [flow.call_names(t_)[0].split("::")[-1] for _, t_ in st.calls() if flow.call_names(t_)[0].startswith("core::iter::traits::iterator::Iterator::") and flow.call_names(t_)[0].split("::")[-1] not in ("next",)]
    ok = default_ok and reads_kind and first and not other_iter
    r3.check(ok, {"fn": st.id, "result": "first interval's kind, default RuleKind::Closed"}, "C03.R3:result", "state does not return the first interval's kind with RuleKind::Closed as default", lib.where_of(st))
    r3.floor(2)
