"""Panic-site inventory over the workspace call graph (C04.R1) with third-party summaries (C04.R4)."""

import re

import common
import flow
import lib

# ---- classes of potentially panicking callees ---------------------------------------------------

STD_PANIC = [
    (r"^core::option::Option::<T>::(unwrap|expect)$", "Option::unwrap/expect"),
    (r"^core::result::Result::<T, E>::(unwrap|expect|unwrap_err|expect_err)$", "Result::unwrap/expect"),
    (r"^core::panicking::assert_failed", "assert_eq/assert_ne"),
    (r"^core::panicking::(panic|panic_fmt|panic_display|panic_explicit|unreachable_display|panic_nounwind)", "panic/assert/unreachable"),
    (r"^std::rt::(begin_panic|panic_fmt)", "panic/assert/unreachable"),
    (r"core::ops::index::Index(Mut)?(<.*>)?>::index(_mut)?$", "indexing"),
    (r"^core::slice::index::|^core::str::traits::<impl core::ops::index::Index", "indexing"),
    (r"^alloc::vec::Vec::<T(, A)?>::(remove|insert|swap_remove|drain|split_off|truncate_front)$", "Vec position"),
    (r"^alloc::collections::vec_deque::VecDeque::<T(, A)?>::(remove|insert|swap|drain|split_off|range|range_mut)$", "VecDeque position"),
    (r"^core::cell::RefCell::<T>::(borrow|borrow_mut)$", "RefCell borrow"),
    (r"^core::slice::<impl \[T\]>::(copy_from_slice|clone_from_slice|split_at|split_at_mut|chunks|chunks_exact|windows|swap|rotate_left|rotate_right|select_nth_unstable)", "slice position"),
    (r"^core::iter::traits::iterator::Iterator::step_by$", "step_by(0)"),
    (r"^core::num::<impl \w+>::(pow|abs|div_euclid|rem_euclid|isqrt|ilog|ilog2|ilog10|next_power_of_two|div_ceil)$", "integer op"),
    (r"^core::time::Duration::|<core::time::Duration as core::ops::arith::", "std Duration arithmetic"),
    (r"^alloc::string::String::(remove|insert|insert_str|truncate|split_off|drain|replace_range)$", "String position"),
    (r"^alloc::sync::Arc::<T>::(unwrap_or_clone)$", None),
]

CHRONO_PANIC = [
    (r"^<chrono::naive::(date::NaiveDate|datetime::NaiveDateTime) as core::ops::arith::(Add|Sub|AddAssign|SubAssign)<chrono::(time_delta::TimeDelta|month::Months|naive::date::Days)>>::", "chrono date arithmetic"),
    (r"^<chrono::datetime::DateTime<Tz> as core::ops::arith::(Add|Sub|AddAssign|SubAssign)<", "chrono datetime arithmetic"),
    (r"^<<L as opening_hours::localization::localize::Localize>::DateTime as core::ops::arith::Add<chrono::time_delta::TimeDelta>>::add$", "locale datetime arithmetic"),
    (r"^<chrono::naive::time::NaiveTime as core::ops::arith::", None),
    (r"^chrono::time_delta::TimeDelta::(weeks|days|hours|minutes|seconds|milliseconds)$", "TimeDelta constructor"),
    (r"^<chrono::time_delta::TimeDelta as core::ops::arith::(Add|Sub|Mul|Div|Neg|AddAssign|SubAssign)", "TimeDelta arithmetic"),
    (r"^chrono::datetime::DateTime::<Tz>::(naive_local|date_naive|date|time)$", "DateTime local view"),
    (r"^chrono::naive::date::NaiveDate::(succ|pred|from_ymd|from_yo|from_isoywd|from_num_days_from_ce|and_hms|and_hms_milli|and_hms_micro|and_hms_nano|and_time|years_since)$", "chrono non-opt constructor"),
    (r"^chrono::naive::time::NaiveTime::(from_hms|from_hms_milli|from_hms_micro|from_hms_nano|from_num_seconds_from_midnight)$", "chrono non-opt constructor"),
    (r"^<Tz as chrono::offset::TimeZone>::(ymd|yo|isoywd|timestamp|timestamp_millis|timestamp_nanos|datetime_from_str)$|chrono::offset::LocalResult::<T>::unwrap$", "chrono non-opt constructor"),
    (r"^chrono::naive::date::NaiveDate::(signed_duration_since)$", None),
]

# Opaque-trusted third-party crates (listed in trusted_base); a call into any *other* external
# crate needs a summary.
TRUSTED_CRATES = {"core", "alloc", "std", "chrono", "chrono_tz", "sunrise", "tzf_rs", "country_boundaries", "flate2", "pest", "log", "compact_calendar", "opening_hours_syntax", "opening_hours", "pyo3", "pyo3_log", "pyo3_stub_gen"}

PINNED = {"chrono": "0.4.39"}


def classify(path):
    for rx, cls in STD_PANIC + CHRONO_PANIC:
        if re.search(rx, path):
            return cls
    return None


def module_file(fn):
    return fn.file


def message_of(fn, t):
    msg = ""
    for a in t["args"]:
        if a.get("k") == "const" and a.get("str"):
            msg = a["str"]
        else:
            for c in flow.origin_consts(fn, a):
                if c.get("str"):
                    msg = c["str"]
    if not msg:
        for a in t["args"]:
            sh = flow.shape(fn, a, depth=3)
            m = re.search(r"'([^']{4,})'", sh)
            if m:
                msg = m.group(1)
    return msg


def const_args_in_range(fn, t):
    """`from_hms_opt/from_ymd_opt(consts).unwrap()`: all-constant arguments (guard discharge)."""
    if t.get("k") != "call" or not re.search(r"Option::<T>::(unwrap|expect)$", flow.call_name(t)):
        return False
    calls = flow.origin_calls(fn, t["args"][0])
    if len(calls) != 1:
        return False
    c = calls[0]
    nm = flow.call_name(c)
    if nm.endswith("NaiveTime::from_hms_opt"):
        v = [a.get("int") for a in c["args"]]
        return all(x is not None for x in v) and v[0] < 24 and v[1] < 60 and v[2] < 60
    if nm.endswith("NaiveDate::from_ymd_opt"):
        v = [a.get("int") for a in c["args"]]
        return all(x is not None for x in v) and 1 <= v[1] <= 12 and 1 <= v[2] <= 28 and -262000 < v[0] < 262000
    if nm.endswith("ExtendedTime::new"):
        v = [a.get("int") for a in c["args"]]
        return all(x is not None for x in v) and v[1] < 60 and 60 * v[0] + v[1] <= 2880
    return False


def inventory(prog, roots, crates):
    """Reachable potentially-panicking sites: list of dicts with a line-free key."""
    reach, parent = prog.reachable(roots)
    sites = []
    unknown_crates = {}
    for fid in sorted(reach):
        fn = prog.fns[fid]
        if fn.crate not in crates:
            continue
        if fn.kind in ("Const", "AssocConst", "AnonConst", "InlineConst") or fn.kind.startswith("Static") or fn.kind.startswith("AssocConst") or fn.kind.startswith("Const"):
            continue  # evaluated by the compiler: a panic there is a build failure
        root = fn
        while root.kind == "Closure" and root.parent in prog.fns:
            root = prog.fns[root.parent]
        if root.impl and root.impl.get("derived"):
            continue
        for bb, t in fn.calls():
            c = t["callee"]
            if "indirect" in c:
                continue
            paths = common.callee_paths(t) + [re.sub(r"'\w+ ?", "", c.get("path_args", ""))]
            cls = None
            for p in paths:
                cls = cls or classify(p)
            crate = lib.callee_crate(c)
            if crate and crate not in TRUSTED_CRATES and crate not in lib.WS_ALL:
                unknown_crates.setdefault(crate, lib.where_of(fn, t))
            if cls is None:
                continue
            callee = (c.get("resolved") or c)["def"]
            pa = c.get("path_args", callee)
            msg = message_of(fn, t) if cls in ("Option::unwrap/expect", "Result::unwrap/expect", "panic/assert/unreachable") else ""
            macro = ""
            for e in t["sp"]["exp"]:
                m = re.match(r"bang:(\$crate::)?(assert|debug_assert|assert_eq|debug_assert_eq|unreachable|panic|assert_ne)$", e)
                if m:
                    macro = m.group(2)
            tyarg = ""
            m = re.search(r"::<(.*)>::(unwrap|expect)", pa)
            if m:
                tyarg = m.group(1)
            elif cls in ("chrono date arithmetic", "chrono datetime arithmetic", "locale datetime arithmetic", "TimeDelta arithmetic", "indexing", "DateTime local view", "TimeDelta constructor"):
                tyarg = re.sub(r"'\w+ ?", "", pa)
            key = "%s|%s|%s|%s|%s" % (module_file(fn), cls, macro or callee.split("::")[-1], tyarg, msg)
            sites.append({"key": key, "fn": fn, "node": t, "class": cls, "callee": callee, "message": msg, "macro": macro, "chain": prog.path_to(parent, fid)[-3:]})
        for bb, b in fn.live_blocks():
            t = b["term"]
            if t["k"] == "assert" and t["msg"] in ("BoundsCheck", "DivisionByZero", "RemainderByZero"):
                if t["msg"] != "BoundsCheck":
                    # constant non-zero divisor: discharged by a one-step constant lookup
                    cond_pl = lib.operand_place(t["cond"])
                    const_div = False
                    if cond_pl is not None:
                        for _, n in fn.defs_of(cond_pl["l"]):
                            if n["k"] == "assign" and n["rv"]["k"] == "bin" and n["rv"]["op"] == "Eq":
                                a, b_ = n["rv"]["a"], n["rv"]["b"]
                                if a.get("k") == "const" and b_.get("k") == "const" and a.get("int") not in (None, 0):
                                    const_div = True
                    if const_div:
                        continue
                key = "%s|%s|||" % (module_file(fn), t["msg"])
                sites.append({"key": key, "fn": fn, "node": t, "class": t["msg"], "callee": "", "message": "", "macro": "", "chain": prog.path_to(parent, fid)[-3:]})
    return sites, reach, unknown_crates
