"""Grammar model for the pest grammar of the repository.

* loads the grammar through engines/grammardump (pest_meta, the front end pest_derive uses)
* `kids(R)`: the regular language over token-producing rule names of the children a pair of
  rule R can have (terminals and predicates erased, silent rules inlined, atomic rules cut),
  as a DFA. PEG ordered choice only removes sentences, so this is a superset of what pest can
  produce: sound for 'a next child exists', conservative elsewhere.
* a faithful PEG matcher (ordered choice, possessive repetition, predicates, built-ins, atomic
  rules) used only on the grammar artefact: finite token languages, printer shapes.
"""

import json
import os
import subprocess

import lib

DUMP = os.path.join(lib.VERIF, "engines", "grammardump", "target", "release", "grammardump")
GRAMMAR = os.path.join(lib.REPO, "opening-hours-syntax", "src", "grammar.pest")

BUILTIN_CHARS = {
    "ANY": lambda c: True,
    "ASCII_DIGIT": lambda c: c in "0123456789",
    "ASCII_NONZERO_DIGIT": lambda c: c in "123456789",
    "ASCII_ALPHA": lambda c: c.isascii() and c.isalpha(),
    "ASCII_ALPHANUMERIC": lambda c: c.isascii() and c.isalnum(),
    "ASCII_ALPHA_LOWER": lambda c: "a" <= c <= "z",
    "ASCII_ALPHA_UPPER": lambda c: "A" <= c <= "Z",
    "ASCII_HEX_DIGIT": lambda c: c in "0123456789abcdefABCDEF",
    "NEWLINE": None,
}


class GrammarError(Exception):
    pass


class Grammar:
    def __init__(self, path=GRAMMAR):
        if not os.path.exists(DUMP):
            raise lib.CheckerBroken("grammardump not built (run MANIFEST.setup_cmd)")
        p = subprocess.run([DUMP, path], capture_output=True, text=True)
        if p.returncode != 0:
            raise GrammarError("grammar does not load: " + p.stderr.strip()[:400])
        j = json.loads(p.stdout)
        self.rules = {r["name"]: r for r in j["rules"]}
        self.order = [r["name"] for r in j["rules"]]
        for n in ("WHITESPACE", "COMMENT"):
            if n in self.rules:
                raise GrammarError("grammar defines %s: implicit skipping is not modelled" % n)
        for r in self.rules.values():
            self._check_supported(r["expr"], r["name"])
            if r["ty"] not in ("Normal", "Silent", "Atomic"):
                raise GrammarError("rule %s has unsupported type %s" % (r["name"], r["ty"]))
        self._dfa = {}
        self._memo = {}

    def _check_supported(self, e, rule):
        k = e["k"]
        if k in ("unsupported", "peek", "push"):
            raise GrammarError("rule %s uses an unmodelled construct (%s)" % (rule, k))
        if k == "ident" and e["s"] not in self.rules and e["s"] not in BUILTIN_CHARS and e["s"] not in ("SOI", "EOI"):
            raise GrammarError("rule %s refers to unknown rule %s" % (rule, e["s"]))
        for key in ("a", "b"):
            if isinstance(e.get(key), dict):
                self._check_supported(e[key], rule)

    # -- rule graph ------------------------------------------------------------------------------

    def refs(self, name):
        out = []

        def walk(e):
            if e["k"] == "ident" and e["s"] in self.rules:
                out.append(e["s"])
            for key in ("a", "b"):
                if isinstance(e.get(key), dict):
                    walk(e[key])
        walk(self.rules[name]["expr"])
        return out

    def cycles(self):
        """Rules on a reference cycle (pest recursion): [] when the rule graph is acyclic."""
        color = {}
        bad = []

        def dfs(n, stack):
            color[n] = 1
            for m in self.refs(n):
                if color.get(m) == 1:
                    bad.append(stack[stack.index(m):] + [m] if m in stack else [n, m])
                elif color.get(m) is None:
                    dfs(m, stack + [m])
            color[n] = 2
        for n in self.order:
            if color.get(n) is None:
                dfs(n, [n])
        return bad

    def produces_token(self, name):
        return name == "EOI" or (name in self.rules and self.rules[name]["ty"] != "Silent")

    # -- child-sequence automaton ----------------------------------------------------------------

    def kids_dfa(self, name):
        """DFA of child sequences of rule `name`: (start, accepting set, {state: {symbol: state}})."""
        if name in self._dfa:
            return self._dfa[name]
        r = self.rules[name]
        nfa = _NFA()
        if r["ty"] == "Atomic":
            s = nfa.new()
            dfa = (0, {0}, {0: {}})
            self._dfa[name] = dfa
            return dfa
        start, end = self._build(nfa, r["expr"], set([name]))
        dfa = nfa.determinize(start, end)
        self._dfa[name] = dfa
        return dfa

    def _build(self, nfa, e, inlining):
        k = e["k"]
        if k in ("str", "insens", "range", "pos", "neg"):
            s = nfa.new()
            return s, s
        if k == "ident":
            n = e["s"]
            if n == "EOI":
                a, b = nfa.new(), nfa.new()
                nfa.edge(a, "EOI", b)
                return a, b
            if n in BUILTIN_CHARS or n == "SOI":
                s = nfa.new()
                return s, s
            r = self.rules[n]
            if r["ty"] == "Silent":
                if n in inlining:
                    raise GrammarError("recursive silent rule %s" % n)
                return self._build(nfa, r["expr"], inlining | {n})
            a, b = nfa.new(), nfa.new()
            nfa.edge(a, n, b)
            return a, b
        if k == "seq":
            a1, b1 = self._build(nfa, e["a"], inlining)
            a2, b2 = self._build(nfa, e["b"], inlining)
            nfa.eps(b1, a2)
            return a1, b2
        if k == "choice":
            a1, b1 = self._build(nfa, e["a"], inlining)
            a2, b2 = self._build(nfa, e["b"], inlining)
            s, t = nfa.new(), nfa.new()
            nfa.eps(s, a1), nfa.eps(s, a2), nfa.eps(b1, t), nfa.eps(b2, t)
            return s, t
        if k == "opt":
            a, b = self._build(nfa, e["a"], inlining)
            nfa.eps(a, b)
            return a, b
        if k in ("rep", "rep1"):
            a, b = self._build(nfa, e["a"], inlining)
            nfa.eps(b, a)
            if k == "rep":
                s = nfa.new()
                nfa.eps(s, a), nfa.eps(s, b)
                t = nfa.new()
                nfa.eps(b, t), nfa.eps(s, t)
                return s, t
            return a, b
        if k == "repn":
            lo, hi = e["min"], e["max"]
            s = nfa.new()
            cur = s
            for _ in range(lo):
                a, b = self._build(nfa, e["a"], inlining)
                nfa.eps(cur, a)
                cur = b
            if hi is None:
                a, b = self._build(nfa, e["a"], inlining)
                nfa.eps(cur, a), nfa.eps(b, a)
                t = nfa.new()
                nfa.eps(cur, t), nfa.eps(b, t)
                return s, t
            t = nfa.new()
            nfa.eps(cur, t)
            for _ in range(hi - lo):
                a, b = self._build(nfa, e["a"], inlining)
                nfa.eps(cur, a)
                cur = b
                nfa.eps(cur, t)
            return s, t
        raise GrammarError("unmodelled expression kind %s" % k)

    def symbols_from(self, name, state):
        """All symbols on any path from a DFA state (the elements a consumer may still see)."""
        start, acc, delta = self.kids_dfa(name)
        seen, out, work = set(), set(), [state]
        while work:
            q = work.pop()
            if q in seen:
                continue
            seen.add(q)
            for s, t in delta.get(q, {}).items():
                out.add(s)
                work.append(t)
        return out

    # -- PEG matcher -----------------------------------------------------------------------------

    def match_rule(self, name, text, pos=0):
        """End position of rule `name` matched at pos (pest semantics), or None."""
        self._memo = {}
        return self._rule(name, text, pos)

    def full_match(self, name, text):
        return self.match_rule(name, text) == len(text)

    def parse_tree(self, name, text):
        """Token tree [(rule, start, end, children)] when `name` matches all of text, else None."""
        self._memo = {}
        r = self._rule_t(name, text, 0, False)
        if r is None or r[0] != len(text):
            return None
        return r[1]

    def _rule(self, name, text, pos):
        key = (name, pos)
        if key in self._memo:
            return self._memo[key]
        self._memo[key] = None  # left recursion guard (grammar is checked acyclic elsewhere)
        res = self._expr(self.rules[name]["expr"], text, pos)
        self._memo[key] = res
        return res

    def _expr(self, e, text, pos):
        k = e["k"]
        if k == "str":
            return pos + len(e["s"]) if text.startswith(e["s"], pos) else None
        if k == "insens":
            return pos + len(e["s"]) if text[pos:pos + len(e["s"])].lower() == e["s"].lower() else None
        if k == "range":
            return pos + 1 if pos < len(text) and e["lo"] <= text[pos] <= e["hi"] else None
        if k == "ident":
            n = e["s"]
            if n == "SOI":
                return pos if pos == 0 else None
            if n == "EOI":
                return pos if pos == len(text) else None
            if n in BUILTIN_CHARS:
                f = BUILTIN_CHARS[n]
                if f is None:
                    raise GrammarError("builtin %s not modelled" % n)
                return pos + 1 if pos < len(text) and f(text[pos]) else None
            return self._rule(n, text, pos)
        if k == "seq":
            p = self._expr(e["a"], text, pos)
            return None if p is None else self._expr(e["b"], text, p)
        if k == "choice":
            p = self._expr(e["a"], text, pos)
            return p if p is not None else self._expr(e["b"], text, pos)
        if k == "opt":
            p = self._expr(e["a"], text, pos)
            return pos if p is None else p
        if k in ("rep", "rep1"):
            p = pos
            n = 0
            while True:
                q = self._expr(e["a"], text, p)
                if q is None or q == p:
                    break
                p = q
                n += 1
            if k == "rep1" and n == 0:
                q = self._expr(e["a"], text, pos)
                return q
            return p
        if k == "repn":
            p = pos
            n = 0
            while e["max"] is None or n < e["max"]:
                q = self._expr(e["a"], text, p)
                if q is None:
                    break
                n += 1
                if q == p:
                    break
                p = q
            return p if n >= e["min"] else None
        if k == "pos":
            return pos if self._expr(e["a"], text, pos) is not None else None
        if k == "neg":
            return pos if self._expr(e["a"], text, pos) is None else None
        raise GrammarError("unmodelled expression kind %s" % k)

    # token-producing variant (only used for printer shapes / round trips)
    def _rule_t(self, name, text, pos, in_atomic):
        r = self.rules[name]
        atomic = in_atomic or r["ty"] == "Atomic"
        res = self._expr_t(r["expr"], text, pos, atomic)
        if res is None:
            return None
        end, kids = res
        if r["ty"] == "Silent" or in_atomic:
            return end, kids if not in_atomic else []
        return end, [(name, pos, end, kids if r["ty"] != "Atomic" else [])]

    def _expr_t(self, e, text, pos, atomic):
        k = e["k"]
        if k in ("str", "insens", "range", "pos", "neg"):
            p = self._expr(e, text, pos)
            return None if p is None else (p, [])
        if k == "ident":
            n = e["s"]
            if n in ("SOI",) or n in BUILTIN_CHARS:
                p = self._expr(e, text, pos)
                return None if p is None else (p, [])
            if n == "EOI":
                return (pos, [("EOI", pos, pos, [])]) if pos == len(text) else None
            return self._rule_t(n, text, pos, atomic)
        if k == "seq":
            a = self._expr_t(e["a"], text, pos, atomic)
            if a is None:
                return None
            b = self._expr_t(e["b"], text, a[0], atomic)
            if b is None:
                return None
            return b[0], a[1] + b[1]
        if k == "choice":
            a = self._expr_t(e["a"], text, pos, atomic)
            return a if a is not None else self._expr_t(e["b"], text, pos, atomic)
        if k == "opt":
            a = self._expr_t(e["a"], text, pos, atomic)
            return (pos, []) if a is None else a
        if k in ("rep", "rep1", "repn"):
            lo = 1 if k == "rep1" else (e.get("min", 0) if k == "repn" else 0)
            hi = e.get("max") if k == "repn" else None
            p, kids, n = pos, [], 0
            while hi is None or n < hi:
                a = self._expr_t(e["a"], text, p, atomic)
                if a is None:
                    break
                n += 1
                kids += a[1]
                if a[0] == p:
                    break
                p = a[0]
            return (p, kids) if n >= lo else None
        raise GrammarError("unmodelled expression kind %s" % k)

    # -- finite token languages ------------------------------------------------------------------

    def digit_language(self, name, max_len=5):
        """All digit strings (length 1..max_len) fully matched by rule `name`."""
        key = (name, max_len)
        if not hasattr(self, "_dl"):
            self._dl = {}
        if key in self._dl:
            return self._dl[key]
        out = []
        self._dl[key] = out
        import itertools
        for ln in range(1, max_len + 1):
            for tup in itertools.product("0123456789", repeat=ln):
                s = "".join(tup)
                if self.full_match(name, s):
                    out.append(s)
        return out

    def unbounded(self, name, _seen=None):
        """Does the rule's text language contain an unbounded repetition?"""
        _seen = _seen or set()
        if name in _seen:
            return True
        _seen = _seen | {name}

        def walk(e):
            k = e["k"]
            if k in ("rep", "rep1"):
                return True
            if k == "repn":
                return e["max"] is None or walk(e["a"])
            if k == "ident" and e["s"] in self.rules:
                return self.unbounded(e["s"], _seen)
            if k in ("pos", "neg"):
                return False
            return any(walk(e[x]) for x in ("a", "b") if isinstance(e.get(x), dict))
        return walk(self.rules[name]["expr"])

    def literals(self, name):
        """Literal set of a rule made of string alternatives only (e.g. `"closed" | "off"`), else None."""
        def walk(e):
            if e["k"] == "str":
                return [e["s"]]
            if e["k"] == "choice":
                a, b = walk(e["a"]), walk(e["b"])
                return None if a is None or b is None else a + b
            return None
        return walk(self.rules[name]["expr"])

    def alternatives(self, name):
        """Rule names of a rule that is a plain choice of rule references, else None."""
        def walk(e):
            if e["k"] == "ident" and e["s"] in self.rules:
                return [e["s"]]
            if e["k"] == "choice":
                a, b = walk(e["a"]), walk(e["b"])
                return None if a is None or b is None else a + b
            return None
        return walk(self.rules[name]["expr"])


class _NFA:
    def __init__(self):
        self.n = 0
        self.e = {}
        self.ep = {}

    def new(self):
        self.n += 1
        return self.n - 1

    def edge(self, a, sym, b):
        self.e.setdefault(a, []).append((sym, b))

    def eps(self, a, b):
        self.ep.setdefault(a, set()).add(b)

    def closure(self, states):
        seen = set(states)
        work = list(states)
        while work:
            s = work.pop()
            for t in self.ep.get(s, ()):
                if t not in seen:
                    seen.add(t)
                    work.append(t)
        return frozenset(seen)

    def determinize(self, start, end):
        s0 = self.closure([start])
        ids = {s0: 0}
        delta = {}
        acc = set()
        work = [s0]
        while work:
            S = work.pop()
            i = ids[S]
            if end in S:
                acc.add(i)
            moves = {}
            for s in S:
                for sym, t in self.e.get(s, ()):
                    moves.setdefault(sym, set()).add(t)
            delta[i] = {}
            for sym, T in moves.items():
                C = self.closure(T)
                if C not in ids:
                    ids[C] = len(ids)
                    work.append(C)
                delta[i][sym] = ids[C]
        return 0, acc, delta


_G = {}


def load():
    key = lib.tree_hash()
    if key not in _G:
        _G.clear()
        _G[key] = Grammar()
    return _G[key]
