"""C11 - sun events are physically ordered and consistent with coordinates and zone.

Decided: the default event table 06/07/19/20 (R1, exactly); event -> solar event table with
one twilight definition (R2); latitude/longitude never swapped at any call boundary (R3); the
UTC event is converted to the context zone on the only data path to the result (R4); offsets
are added with the sign written (R5); coordinates validation is delegated unchanged (R6).
Not decided: physical ordering of the instants (inside `sunrise`), accept-iff for coordinates
and zone inference results (inside `sunrise`/`tzf_rs`).
"""

import re

import flow
import lib

EVENT = "opening_hours_syntax::rules::time::TimeEvent"
TZ = "<opening_hours::localization::localize::TzLocation<Tz> as opening_hours::localization::localize::Localize>::"


def names_on_path(fn, op, depth=5):
    """Identifier-ish names met on the backward data path of an operand: debug names of locals,
    callee names, field names."""
    names = []
    seen = set()
    work = [(op, 0)]
    while work:
        cur, d = work.pop()
        pl = lib.operand_place(cur) if isinstance(cur, dict) else {"l": cur, "p": []}
        if pl is None:
            continue
        for p in pl["p"]:
            if isinstance(p, dict) and "f" in p:
                names.append("." + p["n"])
        l = pl["l"]
        if l in seen or d > depth:
            continue
        seen.add(l)
        if fn.locals[l]["name"]:
            names.append(fn.locals[l]["name"])
        for _, n in fn.defs_of(l):
            if n["k"] == "assign":
                for o in lib.rvalue_operands(n["rv"]):
                    work.append((o, d + 1))
                if n["rv"]["k"] in ("ref", "discr"):
                    work.append(({"k": "copy", "pl": n["rv"]["pl"]}, d + 1))
            elif n["k"] == "call":
                names.append(flow.call_name(n).split("::")[-1] + "()")
                for a in n["args"]:
                    work.append((a, d + 1))
    return names


def run(ctx, prog, res):
    # R1 -------------------------------------------------------------------------------------
    r1 = res.rule("C11.R1", "without coordinates dawn, sunrise, sunset, dusk are 06:00, 07:00, 19:00, 20:00: the provided Localize::event_time maps each event to that constant, NoLocation does not override it, and TzLocation without coordinates calls it")
    f = prog.require_fn("opening_hours::localization::localize::Localize::event_time")
    want = {"Dawn": (6, 0, 0), "Sunrise": (7, 0, 0), "Sunset": (19, 0, 0), "Dusk": (20, 0, 0)}
    arms = [m for m in flow.enum_arms(prog, f, EVENT)]
    if len(arms) != 1:
        r1.fail("C11.R1:match", "Localize::event_time does not match once on the event", lib.where_of(f))
    else:
        for v, hms in want.items():
            got = flow.shape_in(f, 0, arms[0]["arms"][v]["blocks"])
            ok = len(got) == 1 and re.fullmatch(r"(Option::unwrap\()?NaiveTime::from_hms_opt\(%d, %d, %d\)\)?" % hms, got[0]) is not None
            r1.check(ok, {"event": v, "time": got}, "C11.R1:%s" % v, "default time of %s is %s, expected %02d:%02d" % (v, got, hms[0], hms[1]), lib.where_of(f))
    over = [x.id for x in prog.fns.values() if x.impl and x.impl.get("self") == "opening_hours::localization::localize::NoLocation" and x.name == "event_time"]
    r1.check(not over, {"NoLocation": "uses the provided event_time"}, "C11.R1:NoLocation", "NoLocation overrides event_time: %s" % over)

    # R2 -------------------------------------------------------------------------------------
    r2 = res.rule("C11.R2", "with coordinates each event maps to the solar event of the same name, dawn and dusk with the same (civil) twilight definition")
    f = prog.require_fn("opening_hours::localization::coordinates::Coordinates::event_time")
    arms = flow.enum_arms(prog, f, EVENT)
    want = {"Dawn": r"SolarEvent::Dawn\{0: DawnType::(\w+)\{\}\}", "Sunrise": r"SolarEvent::Sunrise\{\}", "Sunset": r"SolarEvent::Sunset\{\}", "Dusk": r"SolarEvent::Dusk\{0: DawnType::(\w+)\{\}\}"}
    tw = {}
    if len(arms) != 1:
        r2.fail("C11.R2:match", "Coordinates::event_time does not match once on the event", lib.where_of(f))
    else:
        for v, pat in want.items():
            got = sorted({s for l in range(len(f.locals)) for s in flow.shape_in(f, l, arms[0]["arms"][v]["blocks"]) if s.startswith("SolarEvent::")})
            m = re.fullmatch(pat, got[0]) if len(got) == 1 else None
            if m and m.groups():
                tw[v] = m.group(1)
            r2.check(m is not None, {"event": v, "solar_event": got}, "C11.R2:%s" % v, "%s maps to %s" % (v, got), lib.where_of(f))
        r2.check(tw.get("Dawn") == tw.get("Dusk") == "Civil", {"twilight": tw}, "C11.R2:twilight", "dawn and dusk do not use the same civil twilight: %s" % tw, lib.where_of(f))
    sh = flow.shape(f, 0)
    r2.check(re.fullmatch(r"SolarDay::event_time\(SolarDay::new\(p1\.0, p2\), .*\)", sh) is not None, {"fn": f.id, "computes": sh[:120]}, "C11.R2:solar-day",
             "the event time is not computed for (these coordinates, the requested date): %s" % sh, lib.where_of(f))

    # R3 -------------------------------------------------------------------------------------
    r3 = res.rule("C11.R3", "latitude and longitude are never swapped: wherever a callee has parameters named lat*/lon*/lng*, the argument in a latitude position derives from something named latitude and vice versa")
    n = 0
    for f in prog.fns.values():
        if f.crate not in lib.WS_ALL or f.from_expansion:
            continue
        for bb, t in f.calls():
            c = t["callee"]
            if "indirect" in c:
                continue
            an = c.get("arg_names") or []
            for i, pn in enumerate(an):
                if not pn or i >= len(t["args"]):
                    continue
                kind = "lat" if re.match(r"^_?lat", pn) else ("lon" if re.match(r"^_?(lon|lng)", pn) else None)
                if kind is None:
                    continue
                nm = [x.lower() for x in names_on_path(f, t["args"][i])]
                has_lat = any(re.search(r"lat", x) for x in nm)
                has_lon = any(re.search(r"lon|lng", x) for x in nm)
                n += 1
                ok = (kind == "lat" and has_lat and not has_lon) or (kind == "lon" and has_lon and not has_lat)
                r3.check(ok, {"call": flow.call_name(t), "param": pn, "argument_from": sorted(set(x for x in nm if re.search(r"lat|lon|lng", x)))}, "C11.R3:%s:%s:%s" % (f.id, flow.call_name(t), pn),
                         "argument for `%s` of %s in %s derives from %s" % (pn, flow.call_name(t), f.id, sorted(set(nm))[:8]), lib.where_of(f, t))
    r3.floor(6)

    # R4 -------------------------------------------------------------------------------------
    r4 = res.rule("C11.R4", "TzLocation::event_time: with coordinates the result is the local time-of-day of the UTC event converted to the context zone (through with_timezone(&self.tz) and the wall-clock conversion); without coordinates it is the default table; there is no other way to produce the result")
    f = prog.require_fn(TZ + "event_time")
    sh = flow.shape(f, 0)
    pat = r"alt\(Localize::event_time\(NoLocation::NoLocation, p2, p3\) \| NaiveDateTime::time\(::naive\(p1, DateTime::with_timezone\(Coordinates::event_time\(p1\.coords@Some\.0, p2, p3\), p1\.tz\)\)\)\)"
    r4.check(re.fullmatch(pat, sh) is not None, {"fn": f.id, "returns": sh}, "C11.R4:shape", "TzLocation::event_time returns %s" % sh, lib.where_of(f))
    nv = [t for _, t in f.calls() if flow.call_name(t).endswith("Localize>::naive")]
    r4.check(len(nv) == 1 and flow.call_name(nv[0]) == TZ + "naive", {"wall_clock_conversion": "TzLocation::naive (C09.R1)"}, "C11.R4:naive", "the wall-clock conversion is not TzLocation::naive", lib.where_of(f))

    # R5 -------------------------------------------------------------------------------------
    r5 = res.rule("C11.R5", "event offsets are added unchanged to the event time, and the parser negates the offset exactly for '-'")
    f = prog.impl_method_one("TimeFilter", "as_naive", self_adt="opening_hours_syntax::rules::time::VariableTime")
    sh = flow.shape(f, 0)
    r5.check(re.search(r"ExtendedTime::add_minutes\(::as_naive\(p1\.event, p2, p3\), p1\.offset\)", sh) is not None and "Neg(" not in sh, {"fn": f.id, "returns": sh}, "C11.R5:add",
             "VariableTime::as_naive is not event.as_naive(ctx, date).add_minutes(self.offset): %s" % sh, lib.where_of(f))
    # an offset that leaves 00:00..48:00 is cut at an end of that range - a constant - and never replaced by something
    # that depends on the event (dropping the offset makes a larger offset open later than a smaller one)
    vt = f
    m_fb = re.fullmatch(r"Option::(?:unwrap_or|unwrap_or_else|map_or)\((.*)\)", flow.shape(vt, 0, depth=6))
    fallback = None
    if m_fb:
        depth_ = 0
        inner = m_fb.group(1)
        for i_, ch in enumerate(inner):
            if ch in "([{":
                depth_ += 1
            elif ch in ")]}":
                depth_ -= 1
            elif ch == "," and depth_ == 0:
                fallback = inner[i_ + 1:].strip()
        r5.check(fallback is not None and re.fullmatch(r"const:MIDNIGHT_(00|24|48)|ExtendedTime::MIDNIGHT_\d+", fallback) is not None, {"fn": vt.id.split("::")[-1], "offset_out_of_range_gives": fallback}, "C11.R5:cut",
                 "VariableTime::as_naive answers `%s` when the offset leaves 00:00..48:00: not an end of the range, so the offset is dropped instead of cut (`(sunrise-06:00)-12:00` opens later than `(sunrise-05:00)-12:00`)" % fallback, lib.where_of(vt))
    else:
        r5.ok({"fn": "VariableTime::as_naive", "offset_out_of_range": "no fallback form recognised: decided by the `add` obligation only"})
    f = prog.impl_method_one("TimeFilter", "as_naive", self_adt=EVENT)
    sh = flow.shape(f, 0)
    r5.check(re.fullmatch(r"Localize::event_time\(p2\.locale, p3, p1\)", sh) is not None, {"fn": f.id, "returns": sh}, "C11.R5:event", "TimeEvent::as_naive is not ctx.locale.event_time(date, event): %s" % sh, lib.where_of(f))
    bv = prog.require_fn("opening_hours_syntax::parser::build_variable_time")
    POM = "opening_hours_syntax::parser::PlusOrMinus"
    arms = flow.enum_arms(prog, bv, POM)
    if len(arms) != 1:
        r5.fail("C11.R5:sign-match", "build_variable_time does not match once on the sign", lib.where_of(bv))
    else:
        def has_neg(blocks):
            return any(s["k"] == "assign" and s["rv"]["k"] == "un" and s["rv"]["op"] == "Neg" for b in blocks for s in bv.blocks[b]["stmts"])
        r5.check(has_neg(arms[0]["arms"]["Minus"]["blocks"]) and not has_neg(arms[0]["arms"]["Plus"]["blocks"]), {"fn": bv.id, "negated_in": "Minus arm only"}, "C11.R5:sign",
                 "the event offset is not negated exactly in the Minus arm", lib.where_of(bv))

    # R6 -------------------------------------------------------------------------------------
    r6 = res.rule("C11.R6", "Coordinates::new accepts exactly what the solar library accepts for (lat, lon) in this order, and lat()/lon() return the matching components")
    f = prog.require_fn("opening_hours::localization::coordinates::Coordinates::new")
    sh = flow.shape(f, 0)
    r6.check(re.fullmatch(r"alt\(Option::None\{\} \| Option::Some\{0: Coordinates\{0: Coordinates::new\(p1, p2\)@Some\.0\}\}\)", sh) is not None, {"fn": f.id, "returns": sh}, "C11.R6:new", "Coordinates::new is not a plain wrapper of sunrise::Coordinates::new(lat, lon): %s" % sh, lib.where_of(f))
    # path by path: `None` is returned only where the solar library said None, `Some` only where it said Some
    import pathterms
    LIBCALL = "Coordinates::new(p1, p2)"
    n_paths = 0
    for rb, b in f.live_blocks():
        if b["term"]["k"] != "return":
            continue
        for path in pathterms.acyclic_paths(f, rb):
            n_paths += 1
            ret = flow.shape_on(f, 0, path)
            conds = [(flow.shape_on(f, op, path), taken, excl) for _, op, taken, excl in pathterms.conditions(f, path)]
            lib_none = any(t == "discr(%s)" % LIBCALL and ((taken == [0]) or (taken is None and 1 in (excl or []))) for t, taken, excl in conds)
            lib_some = any(t == "discr(%s)" % LIBCALL and ((taken == [1]) or (taken is None and 0 in (excl or []))) for t, taken, excl in conds)
            other = [t for t, _, _ in conds if t != "discr(%s)" % LIBCALL]
            if ret.startswith("Option::None"):
                r6.check(lib_none, {"path_returns": "None", "on_the_library_None_branch": True}, "C11.R6:none-path", "Coordinates::new returns None on a path where the solar library did not reject the pair (conditions: %s): a pair the documentation accepts (|lat| <= 90, |lon| <= 180) is refused" % [c[0] for c in conds], lib.where_of(f))
            else:
                r6.check(lib_some and not other, {"path_returns": "Some", "on_the_library_Some_branch": True}, "C11.R6:some-path", "Coordinates::new returns %s under conditions %s" % (ret, [c[0] for c in conds]), lib.where_of(f))
    r6.check(n_paths >= 2, {"return_paths": n_paths}, "C11.R6:FLOOR", "FLOOR: Coordinates::new has %d return paths" % n_paths)
    for nm in ("lat", "lon"):
        g = prog.require_fn("opening_hours::localization::coordinates::Coordinates::" + nm)
        sh = flow.shape(g, 0)
        r6.check(re.fullmatch(r"Coordinates::%s\(p1\.0\)" % nm, sh) is not None, {"fn": g.id, "returns": sh}, "C11.R6:%s" % nm, "Coordinates::%s returns %s" % (nm, sh), lib.where_of(g))

    # R7 -------------------------------------------------------------------------------------
    r7 = res.rule("C11.R7", "the zone inferred from coordinates is the chrono-tz zone whose name is exactly the name the finder returns for (lon, lat): the name is looked up unmodified, in a table that pairs every zone of TZ_VARIANTS with its own unmodified name (or is parsed as a zone name), and only an unknown name falls back to UTC")
    fc = prog.require_fn("opening_hours::localization::localize::TzLocation::<chrono_tz::timezones::Tz>::from_coords")
    sh = flow.shape(fc, 0, depth=9)
    NAME = r"DefaultFinder::get_tz_name\(static:\w+, Coordinates::lon\(p1\), Coordinates::lat\(p1\)\)"
    m_map = re.search(r"HashMap::get\(static:(\w+), (%s)\)" % NAME, sh) or re.search(r"BTreeMap::get\(static:(\w+), (%s)\)" % NAME, sh)
    m_parse = re.search(r"(?:str::parse|Tz::from_str|::from_str)\((%s)\)" % NAME, sh)
    r7.check(bool(m_map or m_parse), {"fn": fc.id.split("::")[-1], "lookup_key": "the finder's name, unmodified"}, "C11.R7:key",
             "TzLocation::from_coords does not look the finder's zone name up as it is: %s - names that differ only in what was normalised away (`Etc/GMT+3` / `Etc/GMT-3`) resolve to one zone" % sh[:300], lib.where_of(fc))
    if m_map:
        static = m_map.group(1)
        inits = [f for k, f in prog.fns.items() if k.startswith(fc.id + "::" + static + "::{closure")]
        pair = [f for f in inits if re.fullmatch(r"tuple\(Tz::name\(p2\), p2\)", flow.shape(f, 0))]
        coll = [f for f in inits if re.fullmatch(r"Iterator::collect\(Iterator::map\((?:Iterator::copied\(|Iterator::cloned\()?slice::iter\(static:TZ_VARIANTS\)\)?, closure\[\]\)\)", flow.shape(f, 0))]
        r7.check(bool(pair), {"table": static, "entry": "(tz.name(), tz)"}, "C11.R7:entry", "the entries of %s are not (tz.name(), tz): %s" % (static, [flow.shape(f, 0)[:120] for f in inits]), lib.where_of(fc))
        r7.check(bool(coll), {"table": static, "built_from": "every zone of chrono_tz::TZ_VARIANTS"}, "C11.R7:all", "%s is not collected from every zone of TZ_VARIANTS: %s" % (static, [flow.shape(f, 0)[:160] for f in inits]), lib.where_of(fc))
    fb = [f for k, f in prog.fns.items() if k.startswith(fc.id + "::{closure")]
    r7.check(any(flow.shape(f, 0) == "const:UTC" for f in fb) or "const:UTC" in sh, {"fallback": "UTC"}, "C11.R7:fallback", "the fallback for an unknown zone name is not UTC", lib.where_of(fc))
    r7.floor(3)

    # R8 -------------------------------------------------------------------------------------
    r8 = res.rule("C11.R8", "`the zone inferred from them`: every way out of Context::from_coords carries the locale TzLocation::from_coords(coords) built from the unmodified argument - whatever the country lookup answered; no path substitutes another zone")
    cf = prog.fns.get("opening_hours::context::Context::<opening_hours::localization::localize::TzLocation<chrono_tz::timezones::Tz>>::from_coords")
    if cf is None:
        r8.anchor_missing("Context::from_coords")
    else:
        shp = flow.shape(cf, 0, depth=8)
        alts = [a.strip() for a in (shp[4:-1].split(" | ") if shp.startswith("alt(") else [shp])]
        for a in alts:
            m = re.search(r"locale: ((?:[^,{}()]|\([^()]*\))*)", a) if a.startswith("Context{") else None
            loc = m.group(1).strip() if m else None
            ok = loc is not None and re.fullmatch(r"(?:[\w:<>]*::)?TzLocation::from_coords\(p1\)", loc) is not None
            r8.check(ok, {"fn": "Context::from_coords", "locale": loc or a[:100]}, "C11.R8:locale:%s" % ("other" if not ok else "from_coords"),
                     "Context::from_coords has a way out whose locale is not TzLocation::from_coords(coords): %s - events are then computed for the coordinates but read on the clock of another zone (sunrise in the evening far from that zone)" % (loc or a[:160]), lib.where_of(cf))
        # ... and nothing returns before that locale was computed
        locs = [bb for bb, t in cf.calls() if flow.call_name(t).endswith("TzLocation::<chrono_tz::timezones::Tz>::from_coords")]
        rets = flow.return_blocks(cf)
        esc = flow.reach_avoiding(cf, 0, rets, locs) if locs else True
        r8.check(bool(locs) and not esc, {"fn": "Context::from_coords", "every_return_after": "TzLocation::from_coords"}, "C11.R8:must-pass",
                 "Context::from_coords can return without having inferred the zone from the coordinates", lib.where_of(cf))
    r8.floor(2)

