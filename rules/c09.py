"""C09 - time-zone contexts evaluate on local wall-clock time and map results back.

Decided: naive() is the wall clock of the context zone (R1); datetime() maps ambiguous times
to the later instant and steps minute by minute over gaps (R2); the generic evaluator can only
convert through the locale and builds every returned bound with locale.datetime (R3, plus a
compile-time witness with an opaque DateTime type); the Python locale delegates per variant
(R4). Not decided: monotonicity of returned bounds in absolute time, zone database content.
"""

import re

import flow
import lib
import witness

TZ = "<opening_hours::localization::localize::TzLocation<Tz> as opening_hours::localization::localize::Localize>::"
OHT = "opening_hours::opening_hours::OpeningHours::<L>::"


def run(ctx, prog, res):
    # R1 -------------------------------------------------------------------------------------
    r1 = res.rule("C09.R1", "TzLocation::naive is the local wall-clock time (naive_local, not naive_utc) of the instant converted with with_timezone(&self.tz)")
    f = prog.require_fn(TZ + "naive")
    sh = flow.shape(f, 0)
    r1.check(re.fullmatch(r"DateTime::naive_local\(DateTime::with_timezone\(p2, p1\.tz\)\)", sh) is not None, {"fn": f.id, "returns": sh}, "C09.R1:naive",
             "TzLocation::naive is not dt.with_timezone(&self.tz).naive_local(): %s" % sh, lib.where_of(f))

    # R2 -------------------------------------------------------------------------------------
    r2 = res.rule("C09.R2", "TzLocation::datetime resolves the naive time in the context zone with LocalResult::latest (ambiguous -> later instant) and otherwise retries after adding exactly one minute to the same naive value (gap -> first valid instant after it)")
    f = prog.require_fn(TZ + "datetime")
    sh = flow.shape(f, 0)
    m = re.fullmatch(r"LocalResult::latest\(TimeZone::from_local_datetime\(p1\.tz, alt\((.*) \| p2\)\)\)@Some\.0", sh)
    r2.check(m is not None, {"fn": f.id, "returns": sh[:160]}, "C09.R2:latest",
             "TzLocation::datetime does not return from_local_datetime(&naive) resolved with latest() in the context zone: %s" % sh, lib.where_of(f))
    if m:
        step = m.group(1)
        sm = re.fullmatch(r"(?:Option::expect\()?(?:NaiveDateTime::checked_add_signed|::add|NaiveDateTime::add)\((_2|p2), TimeDelta::(minutes|seconds)\((\d+)\)\)(?:, '[^']*'\))?", step)
        ok = sm is not None and ((sm.group(2) == "minutes" and sm.group(3) == "1") or (sm.group(2) == "seconds" and 1 <= int(sm.group(3)) <= 60))
        r2.check(ok, {"fn": f.id, "retry_with": step}, "C09.R2:step", "the gap-stepping of TzLocation::datetime is not `naive + 1 minute` on the unmodified naive value: %s" % step, lib.where_of(f))
    bad = [flow.call_name(t) for _, t in f.calls() if re.search(r"LocalResult::<T>::(earliest|single|unwrap)$", flow.call_name(t))]
    r2.check(not bad, {"fn": f.id, "no": "earliest/single/unwrap"}, "C09.R2:no-earliest", "TzLocation::datetime uses %s" % bad, lib.where_of(f))

    # R3 -------------------------------------------------------------------------------------
    r3 = res.rule("C09.R3", "the evaluator is generic in the locale: it converts inputs only through L::naive and builds every returned bound with L::datetime; no unsafe/transmute/Any in those bodies (parametricity does the rest)")
    ir = prog.require_fn(OHT + "iter_range")
    maps = [t for _, t in ir.calls() if flow.call_names(t)[0] == "core::iter::traits::iterator::Iterator::map"]
    ok = False
    sh = ""
    if len(maps) == 1:
        cl = prog.fns.get(flow.closure_of_operand(ir, maps[0]["args"][1]) or "")
        if cl is not None:
            sh = flow.shape(cl, 0)
            ok = re.fullmatch(r"DateTimeRange::new_with_sorted_comments\(Range\{start: Localize::datetime\(p1\.0, p2\.range\.start\), end: Localize::datetime\(p1\.0, p2\.range\.end\)\}, p2\.kind, p2\.comments\)", sh) is not None
            caps = flow.closure_captures(ir, maps[0]["args"][1])
            ok = ok and len(caps) == 1 and flow.shape(ir, caps[0]) == "p1.ctx.locale"
    r3.check(ok, {"fn": ir.id, "emits": sh}, "C09.R3:emit", "iter_range does not build each returned interval as locale.datetime(start)..locale.datetime(end) with the context's locale: %s" % sh, lib.where_of(ir))
    for name in ("iter_range", "iter_from", "next_change", "state"):
        f = prog.require_fn(OHT + name)
        bodies = [prog.fns[x] for x in prog.with_closures(f.id)]
        concrete = []
        for b in bodies:
            for _, t in b.calls():
                c = t["callee"]
                if "indirect" not in c and c.get("trait") == "opening_hours::localization::localize::Localize" and c.get("resolved"):
                    concrete.append(c["resolved"]["def"])
                for n in flow.call_names(t):
                    if re.search(r"(core::mem::transmute|core::any::Any|core::intrinsics::transmute)", n):
                        concrete.append(n)
        r3.check(not concrete, {"fn": f.id, "locale_calls": "through the Localize trait of the type parameter only"}, "C09.R3:generic:%s" % name,
                 "%s bypasses the locale parameter: %s" % (name, concrete), lib.where_of(f))
    witness.run_positive(ctx, prog, res, "C09.W", "a Localize implementation with an opaque DateTime type (only Clone + Add<Duration>) compiles against iter_range/iter_from/next_change/state: the evaluator cannot construct or inspect localized instants except through the locale", group="c09")

    # R5 -------------------------------------------------------------------------------------
    r5 = res.rule("C09.R5", "all time arithmetic of the evaluator is done on wall-clock values: no function of the generic evaluator adds to, subtracts from or compares localized instants (L::DateTime) - one minute later in absolute time can be an earlier wall-clock time when the clock is set back, so a window built on localized instants can be inverted")
    import common
    reach, _ = prog.reachable([prog.require_fn(OHT + n).id for n in ("iter_range", "iter_from", "next_change", "state", "is_open", "is_closed", "is_unknown")])
    n_fns = 0
    for fid in sorted(reach):
        f = prog.fns[fid]
        if f.crate != lib.OH or f.from_expansion:
            continue
        n_fns += 1
        for _, t in f.calls():
            c = t["callee"]
            if "indirect" in c:
                continue
            pa = re.sub(r"'\w+ ?", "", c.get("path_args", ""))
            m = re.match(r"<<L as opening_hours::localization::localize::Localize>::DateTime as core::(ops::arith::(Add|Sub|AddAssign|SubAssign)|cmp::(PartialOrd|Ord))", pa)
            if m:
                r5.fail("C09.R5:%s:%s" % (f.id, m.group(2) or m.group(3)), "%s does %s on a localized instant (L::DateTime): time arithmetic must be done on the wall-clock value returned by L::naive" % (f.id, m.group(2) or m.group(3)), lib.where_of(f, t))
    r5.ok({"evaluator_functions_inspected": n_fns, "arithmetic_or_ordering_on_localized_instants": 0})

    # R4 -------------------------------------------------------------------------------------
    r4 = res.rule("C09.R4", "the Python locale delegates naive/datetime/event_time to NoLocation resp. the wrapped TzLocation per variant")
    PL = "opening_hours_py::types::location::PyLocation"
    P = "<%s as opening_hours::localization::localize::Localize>::" % PL
    want = {
        "naive": {"Naive": [r"::naive\(NoLocation::NoLocation, DateTimeMaybeAware::as_naive_local\(p2\)\)"], "Aware": [r"::naive\(p1@Aware\.0, p2@Aware\.0\)", r"p2@Naive\.0"]},
        "datetime": {"Naive": [r"DateTimeMaybeAware::Naive\{0: ::datetime\(NoLocation::NoLocation, p2\)\}"], "Aware": [r"DateTimeMaybeAware::Aware\{0: ::datetime\(p1@Aware\.0, p2\)\}"]},
        "event_time": {"Naive": [r"Localize::event_time\(NoLocation::NoLocation, p2, p3\)"], "Aware": [r"::event_time\(p1@Aware\.0, p2, p3\)"]},
    }
    for name, per in want.items():
        f = prog.fns.get(P + name)
        if f is None:
            r4.anchor_missing(P + name)
            continue
        arms = [m for m in flow.enum_arms(prog, f, PL) if flow.root_params(f, {"k": "copy", "pl": m["place"]}) == {1} or m["place"]["l"] == 1]
        if not arms:
            r4.fail("C09.R4:%s:nomatch" % name, "PyLocation::%s does not match on self" % name, lib.where_of(f))
            continue
        for variant, pats in per.items():
            got = flow.shape_in(f, 0, arms[0]["arms"][variant]["blocks"])
            ok = len(got) == len(pats) and all(any(re.fullmatch(p, g) for g in got) for p in pats)
            r4.check(ok, {"fn": name, "variant": variant, "delegates_to": got}, "C09.R4:%s:%s" % (name, variant),
                     "PyLocation::%s for %s does not delegate to the wrapped locale: %s" % (name, variant, got), lib.where_of(f))
    r4.floor(6)
