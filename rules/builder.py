"""Grammar <-> AST builder analysis shared by C04 (no panic) and C05 (conformance).

Runs the abstract interpreter (absint) from `opening_hours_syntax::parser::parse` over the
child-sequence automata of the grammar and turns its findings into obligations."""

import re

import absint
import flow
import intervals
import lib
import peg

RULE = "opening_hours_syntax::parser::Rule"
PARSE = "opening_hours_syntax::parser::parse"
MOD = "opening_hours_syntax::parser"
ET_MINS = "opening_hours_syntax::extended_time::ExtendedTime::mins_from_midnight"

_CACHE = {}


def finite_language(g, name, limit=64):
    """Finite text language of a rule built from strings, sequences, options and choices only."""
    def walk(e):
        k = e["k"]
        if k == "str":
            return [e["s"]]
        if k == "seq":
            a, b = walk(e["a"]), walk(e["b"])
            if a is None or b is None or len(a) * len(b) > limit:
                return None
            return [x + y for x in a for y in b]
        if k == "choice":
            a, b = walk(e["a"]), walk(e["b"])
            return None if a is None or b is None else a + b
        if k == "opt":
            a = walk(e["a"])
            return None if a is None else [""] + a
        if k == "ident" and e["s"] in g.rules and g.rules[e["s"]]["ty"] == "Silent":
            return walk(g.rules[e["s"]]["expr"])
        return None
    return walk(g.rules[name]["expr"])


def marker_rules(g):
    """Rules whose token carries no information: no token children and a text language with a
    single element modulo spaces (`24/7`, `+`, `-`, ` easter`)."""
    out = set()
    for n in g.order:
        if not g.produces_token(n):
            continue
        start, acc, delta = g.kids_dfa(n)
        if delta.get(start):
            continue
        lang = finite_language(g, n)
        if lang and len({x.replace(" ", "") for x in lang}) == 1:
            out.add(n)
    out.add("EOI")
    return out


class Analysis:
    def __init__(self, prog):
        self.prog = prog
        self.g = peg.load()
        self.it = absint.Interp(prog, self.g, RULE)
        # summary of a callee outside the builder, justified by C19.R2 (interval analysis)
        rng = self._mins_summary()
        if rng is not None:
            self.it.summaries[ET_MINS] = absint.INT(rng[0], rng[1])
        self.outs = self.it.call_fn(PARSE, (absint.UNK,))
        self.builders = sorted(f.id for f in prog.fns.values() if f.crate == lib.SYN and f.module == MOD and f.kind == "Fn" and not f.from_expansion)
        self.interpreted = sorted({fid for (fid, _) in self.it.memo if fid in prog.fns and prog.fns[fid].module == MOD})
        self.markers = marker_rules(self.g)

    def _mins_summary(self):
        f = self.prog.fns.get(ET_MINS)
        if f is None:
            return None
        ET = "opening_hours_syntax::extended_time::ExtendedTime"
        new = self.prog.fns.get(ET + "::new")
        max_h, max_m = 48, 59
        an = intervals.Analysis(f, field_ranges={(ET, "hour"): (0, max_h), (ET, "minute"): (0, max_m)})
        return an.env.get(0)

    # -- inventories of the builder's own panic sites (from MIR, independent of the interpreter) ----

    def panic_sites(self):
        """Every potentially panicking call/assert in the builder module: [(fn, node, class, message)]."""
        res = []
        for f in self.prog.fns.values():
            if f.crate != lib.SYN:
                continue
            root = f
            while root.kind == "Closure" and root.parent in self.prog.fns:
                root = self.prog.fns[root.parent]
            if root.module != MOD or root.from_expansion:
                continue
            for bb, t in f.calls():
                nm = flow.call_name(t)
                cls = None
                if re.search(r"core::option::Option::<T>::(expect|unwrap)$", nm):
                    cls = "Option::" + nm.split("::")[-1]
                elif re.search(r"core::result::Result::<T, E>::(expect|unwrap)$", nm):
                    cls = "Result::" + nm.split("::")[-1]
                elif nm.startswith("core::panicking::assert_failed"):
                    cls = "assert_eq"
                elif nm.startswith("core::panicking::panic"):
                    cls = "assert" if any("assert" in e for e in t["sp"]["exp"]) else "panic"
                elif nm == MOD + "::unexpected_token":
                    cls = "unexpected_token"
                if cls:
                    msg = ""
                    for a in t["args"]:
                        if a.get("k") == "const" and a.get("str"):
                            msg = a["str"]
                        else:
                            for c in flow.origin_consts(f, a):
                                if c.get("str"):
                                    msg = c["str"]
                    res.append((f, t, cls, msg))
            for bb, b in f.live_blocks():
                t = b["term"]
                if t["k"] == "assert" and t["msg"] in ("BoundsCheck", "DivisionByZero", "RemainderByZero"):
                    res.append((f, t, t["msg"], ""))
        return res

    def violations(self):
        """Reachable panics and undischarged obligations found by the interpreter."""
        out = []
        for key, s in sorted(self.it.sites.items()):
            wit = None
            out.append(s)
        return out

    def leftovers(self):
        """Builders that can return while children carrying information are still unconsumed."""
        res = {}
        for fn, pv in self.it.unconsumed:
            _, rule, q, pk = pv
            if pk == absint.END:
                continue
            if pk is not None:
                start, acc, delta = self.g.kids_dfa(rule)
                syms = {pk} | self.g.symbols_from(rule, delta[q][pk])
            else:
                syms = self.g.symbols_from(rule, q)
            left = sorted(s for s in syms if s not in self.markers)
            if left:
                w = self.it.witness(pv)
                res.setdefault((fn.id, rule, tuple(left)), w)
        return res

    def parse_checks(self):
        """(e) `as_str().parse::<T>().expect(..)`: the token language must fit T."""
        out = []
        seen = set()
        for fn, t, rule, target, msg in self.it.parse_obligations:
            k = (fn.id, rule, target, msg)
            if k in seen:
                continue
            seen.add(k)
            tr = intervals.ty_range(target)
            bad = []
            if self.g.unbounded(rule):
                lang = []
                bad = ["language of %s is unbounded" % rule]
            else:
                lang = self.g.digit_language(rule, 5)
                if not lang or tr is None:
                    bad = ["language of %s is not a finite digit language" % rule]
                elif any(len(x) >= 5 for x in lang):
                    bad = ["language of %s has members of 5 digits or more" % rule]
                else:
                    bad = [x for x in lang if not (tr[0] <= int(x) <= tr[1])][:3]
            out.append({"fn": fn.id, "node": t, "rule": rule, "type": target, "message": msg, "language_size": len(lang), "max": max(int(x) for x in lang) if lang else None, "bad": bad})
        return out


def get(prog):
    key = getattr(prog, "tree_hash", None)
    if key not in _CACHE:
        _CACHE.clear()
        _CACHE[key] = Analysis(prog)
    return _CACHE[key]
