"""Concrete AST models for the paths of the symbolic printer (C06.R3 / C06.R5).

`symprint` turns every `Display::fmt` body of the syntax crate into a decision tree: a set of
paths, each with a path condition over the fields of `self` and an output template.  This module
builds, *per path*, concrete AST values that satisfy the path condition (a small model finder over
finite candidate sets: predicate abstraction with the constants the printer itself compares
against), evaluates the templates on them, and hands the resulting text to the grammar model.

Nothing of /repo is executed: the templates come from MIR, the values from the type declarations
and the domain table below, the verdict from the PEG model of grammar.pest."""

import itertools
import re

import lib
import symprint
from symprint import clean_ty, split_top

SYN = "opening_hours_syntax::"
DAY = SYN + "rules::day::"
TIME = SYN + "rules::time::"

INT_TYPES = {"u8": (0, 255), "u16": (0, 65535), "u32": (0, 2 ** 32 - 1), "u64": (0, 2 ** 64 - 1), "usize": (0, 2 ** 64 - 1),
             "i8": (-128, 127), "i16": (-32768, 32767), "i32": (-2 ** 31, 2 ** 31 - 1), "i64": (-2 ** 63, 2 ** 63 - 1), "isize": (-2 ** 63, 2 ** 63 - 1)}


class Infeasible(Exception):
    pass


class ModelError(Exception):
    pass


def adt(tid, variant, fields):
    return ("adt", tid, variant, tuple(fields))


def short(tid):
    return tid.split("::")[-1]


class Domains:
    """Representative values of the numeric/text leaves of the AST.

    Each row: (owner, field) -> (lo, hi, representatives, where the bound comes from).  Bounds that
    come from a grammar token are *computed* from the grammar's digit language on every run."""

    def __init__(self, g):
        self.g = g
        self.rows = {}
        self.notes = {}

        def token(rule, extra=()):
            lang = sorted({int(x) for x in g.digit_language(rule, 5)})
            if not lang:
                raise lib.AnchorMissing("digit language of grammar rule %s" % rule)
            lo, hi = lang[0], lang[-1]
            reps = {lo, hi}
            for v in lang:
                # boundaries where the number of digits changes
                if len(str(v)) != len(str(v + 1)) and v + 1 in lang or v in (9, 10, 99, 100, 999, 1000):
                    reps.add(v)
                    if v + 1 <= hi:
                        reps.add(v + 1)
            reps |= {x for x in extra if lo <= x <= hi}
            return lo, hi, sorted(reps), "digit language of `%s`" % rule

        def row(key, val):
            self.rows[key] = val[:3]
            self.notes["%s.%s" % key] = "%s: [%s..%s] reps %s" % (val[3], val[0], val[1], val[2])

        row(("Year", "0"), token("year", (2024,)))
        row(("Date::Fixed", "year"), token("year", (2024,)))
        row(("Date::Easter", "year"), token("year", (2024,)))
        row(("MonthdayRange::Month", "year"), token("year", (2024,)))
        row(("WeekNum", "0"), token("weeknum"))
        row(("Date::Fixed", "day"), token("daynum"))
        # steps: `positive_number` narrowed to the field type by the builder (try_into, else Err)
        row(("WeekRange", "step"), (1, 255, [1, 2, 3, 10, 255], "positive_number -> u8"))
        row(("YearRange", "step"), (1, 65535, [1, 2, 3, 10, 65535], "positive_number -> u16"))
        offs = [0, 1, -1, 2, -2, 10, -10, 365]
        row(("DateOffset", "day_offset"), (-2 ** 63, 2 ** 63 - 1, offs, "sign * positive_number -> i64"))
        row(("WeekDayRange::Fixed", "offset"), (-2 ** 63, 2 ** 63 - 1, offs, "sign * positive_number -> i64"))
        row(("WeekDayRange::Holiday", "offset"), (-2 ** 63, 2 ** 63 - 1, offs, "sign * positive_number -> i64"))
        # event offsets are built from `hour_minutes` (<= 24:00), in minutes
        row(("VariableTime", "offset"), (-1440, 1440, [0, 1, -1, 30, -30, 59, 60, -60, 90, -90, 600, -600, 1439, 1440, -1440], "sign * hour_minutes in minutes -> i16"))
        row(("ExtendedTime", "hour"), (0, 48, [0, 1, 9, 10, 19, 20, 23, 24, 25, 39, 40, 47, 48], "ExtendedTime::new bound / extended_hour"))
        row(("ExtendedTime", "minute"), (0, 59, [0, 5, 30, 59], "ExtendedTime::new bound / minute"))
        # repeats: `minute` (0..59) or `hour_minutes` (<= 24:00) as a duration, in minutes
        row(("TimeSpan", "repeats"), (0, 1440, [0, 1, 5, 30, 59, 60, 61, 90, 600, 1439, 1440], "minute | hour_minutes as duration"))
        self.comments = ["c", "a b", "x;y||z, t"]

    def ints(self, owner, field, ty):
        r = self.rows.get((owner, field))
        if r is not None:
            return r
        lo, hi = INT_TYPES[ty]
        return lo, hi, [v for v in (0, 1, 2, 10) if lo <= v <= hi]


class Models:
    def __init__(self, prog, g, printer, paths_of, domains, feasible=None, max_per_path=48, core_cap=28, max_per_type=4000):
        """paths_of: {adt id -> [symprint.Path]} for every type with a Display impl."""
        self.prog = prog
        self.g = g
        self.sp = printer
        self.paths = paths_of
        self.dom = domains
        self.feasible = feasible or (lambda ty, v: True)
        self.max_per_path = max_per_path
        self.core_cap = core_cap
        self.max_per_type = max_per_type
        self._models = {}
        self._kind = {}
        self._discr = {}
        self._default = {}
        self._trie = {}
        self._core = {}
        self._render = {}
        self.tables = {}
        self.consts = {}
        self.stats = {}

    # ---- types ---------------------------------------------------------------------------------

    def kind(self, ty):
        k = self._kind.get(ty)
        if k is None:
            k = self._kind[ty] = self._kind_of(ty)
        return k

    def _kind_of(self, ty):
        ty = clean_ty(ty)
        if ty in INT_TYPES:
            return ("int", ty)
        if ty == "bool":
            return ("bool",)
        if ty in ("str", "alloc::string::String", "alloc::sync::Arc<str>", "char"):
            return ("str",)
        m = re.fullmatch(r"\[(.*); (\d+)\]", ty)
        if m:
            return ("list", m.group(1), int(m.group(2)))
        m = re.fullmatch(r"\[(.*)\]", ty)
        if m:
            return ("list", m.group(1), None)
        m = re.fullmatch(r"alloc::vec::Vec<(.*)>", ty)
        if m:
            return ("list", m.group(1), None)
        m = re.fullmatch(r"core::option::Option<(.*)>", ty)
        if m:
            return ("option", m.group(1))
        if ty.startswith("(") and ty.endswith(")"):
            return ("tuple", tuple(split_top(ty[1:-1])))
        m = re.fullmatch(r"core::ops::range::(?:RangeInclusive|Range)<(.*)>", ty)
        if m:
            return ("range", m.group(1))
        if ty == "chrono::time_delta::TimeDelta":
            return ("dur",)
        base = ty.split("<")[0]
        a = self.prog.adts.get(base)
        if a is not None:
            args = split_top(ty[len(base) + 1:-1]) if "<" in ty else []
            return ("adt", base, tuple(args))
        raise ModelError("type %s is not modelled" % ty)

    def variants(self, ty):
        k = self.kind(ty)
        a = self.prog.adts[k[1]]
        return [v["name"] for v in a["variants"]]

    def fields(self, ty, variant):
        k = self.kind(ty)
        a = self.prog.adts[k[1]]
        for v in a["variants"]:
            if v["name"] == variant or (a["kind"] == "Struct"):
                out = []
                for f in v["fields"]:
                    fty = f["ty"]
                    if k[2]:
                        fty = re.sub(r"\bT\b", k[2][0], fty)
                    out.append((f["name"], fty))
                return out
        raise ModelError("no variant %s in %s" % (variant, ty))

    def has_display(self, ty):
        try:
            k = self.kind(ty)
        except ModelError:
            return False
        return k[0] == "adt" and k[1] in self.paths

    def owner_name(self, ty, variant):
        k = self.kind(ty)
        a = self.prog.adts[k[1]]
        return short(k[1]) if a["kind"] == "Struct" else "%s::%s" % (short(k[1]), variant)

    # ---- candidates ----------------------------------------------------------------------------

    def cands(self, ty, owner=None, field=None, extra=(), deep=True):
        """Candidate values of a type in the context (owner type, field)."""
        k = self.kind(ty)
        if k[0] == "int":
            lo, hi, reps = self.dom.ints(owner, field, k[1])
            tlo, thi = INT_TYPES[k[1]]
            lo, hi = max(lo, tlo), min(hi, thi)
            vals = list(reps)
            for c in extra:
                for v in (c - 1, c, c + 1):
                    if lo <= v <= hi and v not in vals:
                        vals.append(v)
            return vals
        if k[0] == "bool":
            return [False, True]
        if k[0] == "str":
            return list(self.dom.comments)
        if k[0] == "dur":
            lo, hi, reps = self.dom.ints(owner, field, "i64")
            return [("dur", m) for m in reps]
        if k[0] == "option":
            inner = self.cands(k[1], owner, field, extra, deep)
            return [("none",)] + [("some", v) for v in inner]
        if k[0] == "list":
            if k[2] is not None and clean_ty(k[1]) == "bool":
                return [("list", bits) for bits in itertools.product((True, False), repeat=k[2])]
            inner = self.cands(k[1], owner, field, extra, deep)
            out = [("list", ())]
            out += [("list", (v,)) for v in inner]
            n = len(inner)
            pairs = []
            for i in range(n):
                pairs.append((inner[i], inner[(i + 1) % n]))
            if deep and n <= 12:
                pairs = [(a, b) for a in inner for b in inner]
            elif deep and self.has_display(k[1]):
                # adjacency matters (what a rule ends with x what the next one starts with): pair every
                # distinct ending with every distinct beginning
                tid_ = self.kind(k[1])[1]
                heads, tails = {}, {}
                for v in inner:
                    try:
                        txt = self.render(tid_, v)
                    except ModelError:
                        continue
                    heads.setdefault(re.sub(r"\d", "0", txt[:3]), v)
                    tails.setdefault(re.sub(r"\d", "0", txt[-3:]), v)
                hs, ts = list(heads.values())[:14], list(tails.values())[:14]
                pairs += [(a, b) for a in ts for b in hs]
            seen = set()
            for a, b in pairs:
                if (a, b) not in seen:
                    seen.add((a, b))
                    out.append(("list", (a, b)))
            return out
        if k[0] == "tuple":
            parts = [self.cands(t, owner, field, (), deep) for t in k[1]]
            return [("tup", c) for c in self.product(parts)]
        if k[0] == "range":
            inner = self.cands(k[1], owner, field, extra, deep)
            combos = [(a, a) for a in inner]
            n = len(inner)
            if n * n <= 200:
                combos += [(a, b) for a in inner for b in inner if a != b]
            else:
                combos += [(inner[i], inner[(i + 1) % n]) for i in range(n)] + [(inner[(i + 1) % n], inner[i]) for i in range(n)]
            return [adt("RangeInclusive", "RangeInclusive", (("start", a), ("end", b))) for a, b in combos]
        if k[0] == "adt":
            if k[1] in self.paths:
                return self.core(k[1])
            a = self.prog.adts[k[1]]
            out = []
            for v in a["variants"]:
                own = self.owner_name(ty, v["name"])
                flds = self.fields(ty, v["name"])
                parts = [self.cands(fty, own, fname, (), deep) for fname, fty in flds]
                for c in self.product(parts):
                    out.append(adt(k[1], v["name"], tuple((fname, x) for (fname, _), x in zip(flds, c))))
            return out
        raise ModelError("no candidates for %s" % ty)

    @staticmethod
    def product(parts, cap=400):
        """Full product when small, otherwise each value of each part with the others at default."""
        total = 1
        for p in parts:
            total *= max(1, len(p))
        if total <= cap:
            return list(itertools.product(*parts))
        base = [p[0] for p in parts]
        out = [tuple(base)]
        for i, p in enumerate(parts):
            for v in p[1:]:
                c = list(base)
                c[i] = v
                out.append(tuple(c))
        return out

    def default(self, ty, owner=None, field=None):
        key = (ty, owner, field)
        if key not in self._default:
            self._default[key] = self._default_of(ty, owner, field)
        return self._default[key]

    def _default_of(self, ty, owner=None, field=None):
        k = self.kind(ty)
        if k[0] == "list" and k[2] is None:
            return ("list", ())
        if k[0] == "option":
            return ("none",)
        if k[0] == "adt" and k[1] not in self.paths:
            a = self.prog.adts[k[1]]
            v = a["variants"][0]
            own = self.owner_name(ty, v["name"])
            return adt(k[1], v["name"], tuple((fname, self.default(fty, own, fname)) for fname, fty in self.fields(ty, v["name"])))
        c = self.cands(ty, owner, field, (), deep=False)
        if not c:
            raise ModelError("no default for %s" % ty)
        return c[0]

    def default_variant(self, ty, variant):
        k = self.kind(ty)
        own = self.owner_name(ty, variant)
        return adt(k[1], variant, tuple((fname, self.default(fty, own, fname)) for fname, fty in self.fields(ty, variant)))

    # ---- reading / writing values by term --------------------------------------------------------

    def get_field(self, v, name):
        if v[0] == "adt":
            for n, x in v[3]:
                if n == name:
                    return x
            raise Infeasible("no field %s" % name)
        if v[0] == "tup":
            return v[1][int(name)]
        raise Infeasible("field %s of %s" % (name, v[:2]))

    def ev(self, term, selfv):
        k = term[0]
        if k == "self":
            return selfv
        if k == "fld":
            return self.get_field(self.ev(term[1], selfv), term[2])
        if k == "var":
            b = self.ev(term[1], selfv)
            if b[0] == "some":
                if term[2] != "Some":
                    raise Infeasible("variant")
                return b[1]
            if b[0] == "none":
                raise Infeasible("variant")
            if b[0] == "adt":
                if b[2] != term[2]:
                    raise Infeasible("variant")
                return b
            raise Infeasible("downcast of %s" % (b[:1],))
        if k == "elem":
            b = self.ev(term[1], selfv)
            if b[0] != "list" or term[2] >= len(b[1]):
                raise Infeasible("element")
            return b[1][term[2]]
        if k == "slice":
            b = self.ev(term[1], selfv)
            return ("list", b[1][term[2]:])
        if k == "app":
            f = term[1]
            if f.startswith("table:"):
                a = self.ev(term[2], selfv)
                return self.table_lookup(f, a)
            a = self.ev(term[2], selfv)
            if f == "abs":
                return abs(a)
            if f == "neg":
                return -a
            if f == "num_hours":
                return int(a[1] / 60)
            if f == "num_minutes":
                return a[1]
            if f == "join":
                return term[3].join(a[1])
            raise ModelError("function %s in a printer term" % f)
        if k == "bin":
            x = self.ev_val(term[2], selfv)
            y = self.ev_val(term[3], selfv)
            op = term[1]
            if op in ("Div", "Rem") and y == 0:
                raise Infeasible("division by zero")
            return {"Add": lambda: x + y, "Sub": lambda: x - y, "Mul": lambda: x * y, "Div": lambda: int(x / y) if abs(x) < 2 ** 52 else (abs(x) // abs(y)) * (1 if (x >= 0) == (y >= 0) else -1),
                    "Rem": lambda: (abs(x) % abs(y)) * (1 if x >= 0 else -1)}[op]()
        raise ModelError("term %s" % (term,))

    def ev_val(self, v, selfv):
        if v[0] == "S":
            return self.ev(v[1], selfv)
        if v[0] == "C":
            return self.const_value(v[1])
        if v[0] == "agg":
            # Enum::Variant(args) built by the printer for a comparison
            name = v[1]
            if name in ("Range::Range", "RangeInclusive::RangeInclusive", "Range", "RangeInclusive"):
                return adt("RangeInclusive", "RangeInclusive", (("start", self.ev_val(v[2][0], selfv)), ("end", self.ev_val(v[2][1], selfv))))
            tshort, var = name.split("::")
            tid = [a for a in self.prog.adts if short(a) == tshort and a.startswith(SYN)]
            if len(tid) != 1:
                raise ModelError("aggregate %s" % name)
            flds = self.fields(tid[0], var)
            return adt(tid[0], var, tuple((fname, self.ev_val(x, selfv)) for (fname, _), x in zip(flds, v[2])))
        if v[0] == "some":
            return ("some", self.ev_val(v[1], selfv))
        if v[0] == "none":
            return ("none",)
        raise ModelError("value %s" % (v[:2],))

    def const_value(self, c):
        if isinstance(c, tuple) and c and c[0] == "variant":
            return adt(c[1], c[2], ())
        if isinstance(c, tuple) and c and c[0] == "item":
            return self.const_item(c[1])
        return c

    def const_item(self, name):
        """Value of an associated constant whose body is one aggregate of integer constants."""
        if name in self.consts:
            return self.consts[name]
        fs = [f for f in self.prog.fns.values() if f.crate == lib.SYN and f.id.endswith("::" + name) and f.kind.startswith(("AssocConst", "Const"))]
        if len(fs) != 1:
            raise ModelError("constant item %s" % name)
        f = fs[0]
        val = None
        for b in f.blocks:
            t = b["term"]
            if t["k"] == "call" and "indirect" not in t["callee"]:
                c = t["callee"]
                tid = c.get("self_ty")
                if c.get("name") == "new" and tid in self.prog.adts and all(o.get("k") == "const" and o.get("int") is not None for o in t["args"]):
                    var = self.prog.adts[tid]["variants"][0]["name"]
                    flds = self.fields(tid, var)
                    if [n for n, _ in flds] == list(c.get("arg_names") or []):
                        val = adt(tid, var, tuple((fname, o["int"]) for (fname, _), o in zip(flds, t["args"])))
        if val is None:
            raise ModelError("constant item %s is not a plain aggregate" % name)
        self.consts[name] = val
        return val

    def table_lookup(self, f, a):
        m = re.fullmatch(r"table:([\w:]+)(\[\.\.(\d+)\])?", f)
        fn = m.group(1)
        if fn not in self.tables:
            raise ModelError("token table %s not provided" % fn)
        s = self.tables[fn].get(a[2])
        if s is None:
            raise ModelError("token table %s has no text for %s" % (fn, a[2]))
        return s[:int(m.group(3))] if m.group(3) else s

    def setv(self, term, selfv, new):
        k = term[0]
        if k == "self":
            return new
        if k == "fld":
            b = self.ev(term[1], selfv)
            if b[0] == "adt":
                nb = adt(b[1], b[2], tuple((n, new if n == term[2] else x) for n, x in b[3]))
            elif b[0] == "tup":
                i = int(term[2])
                nb = ("tup", b[1][:i] + (new,) + b[1][i + 1:])
            else:
                raise Infeasible("set field")
            return self.setv(term[1], selfv, nb)
        if k == "var":
            b = self.ev(term[1], selfv)
            if b[0] == "some":
                return self.setv(term[1], selfv, ("some", new))
            return self.setv(term[1], selfv, new)
        if k == "elem":
            b = self.ev(term[1], selfv)
            if b[0] != "list" or term[2] >= len(b[1]):
                raise Infeasible("element")
            return self.setv(term[1], selfv, ("list", b[1][:term[2]] + (new,) + b[1][term[2] + 1:]))
        raise ModelError("cannot assign through %s" % (term[:2],))

    def type_of(self, term, self_ty):
        """(type, owner, field) of a path term."""
        k = term[0]
        if k == "self":
            return self_ty, None, None
        if k == "fld":
            bt, bo, bf = self.type_of(term[1], self_ty)
            variant = None
            if "@" in bt:
                bt, variant = bt.split("@")
            kk = self.kind(bt)
            if kk[0] == "tuple":
                return kk[1][int(term[2])], bo, bf
            if kk[0] == "range":
                return kk[1], bo, bf
            if kk[0] == "adt":
                a = self.prog.adts[kk[1]]
                if variant is None:
                    variant = a["variants"][0]["name"]
                for fname, fty in self.fields(bt, variant):
                    if fname == term[2]:
                        return fty, self.owner_name(bt, variant), fname
            raise ModelError("field %s of type %s" % (term[2], bt))
        if k == "var":
            bt, bo, bf = self.type_of(term[1], self_ty)
            kk = self.kind(bt)
            if kk[0] == "option":
                return kk[1], bo, bf
            return bt + "@" + term[2], bo, bf
        if k in ("elem",):
            bt, bo, bf = self.type_of(term[1], self_ty)
            kk = self.kind(bt)
            if kk[0] == "adt":  # UniqueSortedVec deref'd
                for fname, fty in self.fields(bt, None):
                    kk = self.kind(fty)
            return kk[1], bo, bf
        if k == "slice":
            return self.type_of(term[1], self_ty)
        raise ModelError("type of %s" % (term[:2],))

    # ---- atoms ---------------------------------------------------------------------------------

    @staticmethod
    def path_terms(x, out=None):
        """Path terms (self/fld/var/elem chains) occurring in a term or key."""
        out = [] if out is None else out
        if not isinstance(x, tuple) or not x:
            return out
        if x[0] in ("self", "fld", "var", "elem"):
            out.append(x)
            return out
        if x[0] == "slice":
            Models.path_terms(x[1], out)
            return out
        if x[0] == "S":
            Models.path_terms(x[1], out)
            return out
        if x[0] in ("app", "bin", "agg", "some"):
            for y in x[1:]:
                if isinstance(y, tuple):
                    if y and isinstance(y[0], tuple):
                        for z in y:
                            Models.path_terms(z, out)
                    else:
                        Models.path_terms(y, out)
            return out
        return out

    def eval_atom(self, atom, selfv):
        k = atom[0]
        try:
            if k == "is":
                b = self.ev(atom[1], selfv)
                if b[0] in ("some", "none"):
                    return (b[0] == "some") == (atom[2] == "Some")
                return b[2] == atom[2]
            if k == "len>":
                b = self.ev(atom[1], selfv)
                if b[0] == "adt":
                    b = b[3][0][1]
                return len(b[1]) > atom[2]
            if k == "bit":
                b = self.ev(atom[1], selfv)
                return bool(b[1][atom[2]])
            if k == "cmp":
                x = self.ev_val(atom[2], selfv)
                y = self.ev_val(atom[3], selfv)
                op = atom[1]
                if op == "Eq":
                    return x == y
                if op == "Ne":
                    return x != y
                x, y = self.order_key(x), self.order_key(y)
                return {"Lt": x < y, "Le": x <= y, "Gt": x > y, "Ge": x >= y}[op]
        except Infeasible:
            return None
        raise ModelError("atom %s" % (atom,))

    def order_key(self, v):
        if isinstance(v, tuple) and v and v[0] == "adt":
            a = self.prog.adts.get(v[1])
            idx = [x["name"] for x in a["variants"]].index(v[2]) if a else 0
            return (idx,) + tuple(self.order_key(x) for _, x in v[3])
        if isinstance(v, tuple) and v and v[0] == "dur":
            return v[1]
        return v

    def sat(self, pc, selfv):
        return all(self.eval_atom(a, selfv) == t for a, t in pc)

    # ---- model search ----------------------------------------------------------------------------

    def thresholds(self, tid):
        """{path term -> constants it is compared with} over all paths of a type."""
        out = {}
        for p in self.paths[tid]:
            for a, _ in p.pc:
                if a[0] != "cmp":
                    continue
                for x, y in ((a[2], a[3]), (a[3], a[2])):
                    if y[0] == "C" and isinstance(y[1], int) and not isinstance(y[1], bool):
                        for t in self.path_terms(x):
                            out.setdefault(t, set()).add(y[1])
                    elif x[0] == "S" and x[1][0] in ("fld", "var", "elem") and not self.path_terms(y):
                        # compared with a constant value: that value is a candidate of the term
                        try:
                            out.setdefault(("val", x[1]), []).append(self.ev_val(y, None))
                        except (Infeasible, ModelError):
                            pass
        return out

    def term_cands(self, term, tid, thr):
        if term == ("self",):
            return [self.default_variant(tid, v) for v in self.variants(tid)]
        ty, owner, field = self.type_of(term, tid)
        if "@" in ty:
            base, variant = ty.split("@")
            return [self.default_variant(base, variant)]
        out = list(self.cands(ty, owner, field, sorted(thr.get(term, ()))))
        for v in thr.get(("val", term), ()):
            if v not in out:
                out.append(v)
        # a list whose elements the parent discriminates on (`rule.operator` picks the separator): every
        # candidate list is also taken with each element set to each discriminated variant
        if tid not in self._discr:
            dm = {}
            for p_ in self.paths.get(tid, ()):
                for a_, _ in p_.pc:
                    if a_[0] == "is" and a_[1][0] == "fld" and a_[1][1][0] == "elem":
                        dm.setdefault(a_[1][1][1], {}).setdefault((a_[1][1][2], a_[1][2]), set()).add(a_[2])
            self._discr[tid] = dm
        discr = self._discr[tid].get(term)
        if discr and self.kind(ty)[0] == "list":
            extra = []
            for v in out:
                if v[0] != "list":
                    continue
                for (i_, fname), _vs in discr.items():
                    if i_ >= len(v[1]) or v[1][i_][0] != "adt":
                        continue
                    el = v[1][i_]
                    fty = dict(self.fields(el[1], el[2])).get(fname)
                    if fty is None:
                        continue
                    for var in self.variants(fty):
                        new_el = adt(el[1], el[2], tuple((n_, self.default_variant(fty, var) if n_ == fname else x_) for n_, x_ in el[3]))
                        nv = ("list", v[1][:i_] + (new_el,) + v[1][i_ + 1:])
                        if nv not in out and nv not in extra:
                            extra.append(nv)
            out += extra
        return out

    def solve_path(self, tid, path, thr):
        """Concrete values of `tid` satisfying the path condition (bounded, deterministic)."""
        results = []
        cap = self.max_per_path
        start = self.default(tid) if tid not in self.paths else None
        k = self.kind(tid)
        a = self.prog.adts[k[1]]
        seeds = [self.default_variant(tid, v["name"]) for v in a["variants"]]
        pc = list(path.pc)

        def rec(i, val, fixed):
            if len(results) >= cap * 4:
                return
            if i == len(pc):
                results.append(val)
                return
            atom, truth = pc[i]
            kind = atom[0]
            if kind == "is":
                term = atom[1]
                cur = self.eval_atom(atom, val)
                if cur is None:
                    return
                if ("is", term) in fixed:
                    if cur == truth:
                        rec(i + 1, val, fixed)
                    return
                ty, owner, field = self.type_of(term, tid)
                kk = self.kind(ty)
                if kk[0] == "option":
                    opts = [("some", self.default(kk[1], owner, field))] if (atom[2] == "Some") == truth else [("none",)]
                else:
                    names = self.variants(ty)
                    want = [n for n in names if (n == atom[2]) == truth]
                    opts = [self.default_variant(ty, n) for n in want]
                for o in opts:
                    try:
                        v2 = self.setv(term, val, o)
                    except Infeasible:
                        continue
                    rec(i + 1, v2, fixed | {("is", term)})
                return
            if kind == "len>":
                term = atom[1]
                if ("len", term) in fixed:
                    if self.eval_atom(atom, val) == truth:
                        rec(i + 1, val, fixed)
                    return
                try:
                    cur = self.ev(term, val)
                except Infeasible:
                    return
                ty, owner, field = self.type_of(term, tid)
                kk = self.kind(ty)
                ety = kk[1]
                for n in (0, 1, 2):
                    if (n > atom[2]) != truth:
                        continue
                    elems = tuple(self.default(ety, owner, field) for _ in range(n))
                    try:
                        v2 = self.setv(term, val, ("list", elems))
                    except Infeasible:
                        continue
                    rec(i + 1, v2, fixed | {("len", term)})
                return
            if kind == "bit":
                term = atom[1]
                try:
                    cur = self.ev(term, val)
                except Infeasible:
                    return
                bits = list(cur[1])
                bits[atom[2]] = truth
                rec(i + 1, self.setv(term, val, ("list", tuple(bits))), fixed)
                return
            if kind == "cmp":
                terms = []
                for x in (atom[2], atom[3]):
                    for t in self.path_terms(x):
                        if t not in terms:
                            terms.append(t)
                free = [t for t in terms if ("val", t) not in fixed]
                if not free:
                    if self.eval_atom(atom, val) == truth:
                        rec(i + 1, val, fixed)
                    return
                try:
                    cl = [self.term_cands(t, tid, thr) for t in free]
                except Infeasible:
                    return
                total = 1
                for c in cl:
                    total *= len(c)
                if total > 4000:
                    # keep equal pairs and neighbours only
                    combos = []
                    n = len(cl[0])
                    if len(cl) == 2 and len(cl[1]) == n:
                        combos = [(cl[0][j], cl[1][j]) for j in range(n)] + [(cl[0][j], cl[1][(j + 1) % n]) for j in range(n)]
                    else:
                        combos = self.product(cl, cap=0)
                else:
                    combos = itertools.product(*cl)
                for combo in combos:
                    v2 = val
                    try:
                        for t, c in zip(free, combo):
                            v2 = self.setv(t, v2, c)
                    except Infeasible:
                        continue
                    if self.eval_atom(atom, v2) == truth:
                        rec(i + 1, v2, fixed | {("val", t) for t in free})
                return
            raise ModelError("atom kind %s" % kind)

        for s in seeds:
            rec(0, s, frozenset())
        # thin out deterministically
        if len(results) > cap:
            step = len(results) / float(cap)
            results = [results[int(j * step)] for j in range(cap)]
        return results

    def vary_holes(self, tid, path, base_models, thr, nbase=6):
        """Each-choice variation of the path terms printed by the holes of a path."""
        terms = []
        for piece in path.out:
            if piece[0] == "hole":
                for t in self.path_terms(piece[2]):
                    if t not in terms:
                        terms.append(t)
        out = []
        seen = set()
        for m in base_models:
            if m not in seen:
                seen.add(m)
                out.append(m)
        a = self.prog.adts[self.kind(tid)[1]]
        for m in base_models[:nbase]:
            # every direct field of the value as well: an unprinted field must not change the text
            own = [("fld", ("self",) if a["kind"] == "Struct" else ("var", ("self",), m[2]), n) for n, _ in m[3]]
            for t in terms + [t for t in own if t not in terms]:
                try:
                    cl = self.term_cands(t, tid, thr)
                except (Infeasible, ModelError):
                    continue
                for c in cl:
                    try:
                        v2 = self.setv(t, m, c)
                    except Infeasible:
                        continue
                    if v2 not in seen and self.sat(path.pc, v2):
                        seen.add(v2)
                        out.append(v2)
        return out

    def models(self, tid):
        """[(path index, value)] covering every path of the type; feasibility filter applied."""
        if tid in self._models:
            return self._models[tid]
        thr = self.thresholds(tid)
        out = []
        st = {"paths": len(self.paths[tid]), "covered": 0, "models": 0, "infeasible_shape": 0, "uncovered": []}
        for i, p in enumerate(self.paths[tid]):
            base = self.solve_path(tid, p, thr)
            allm = self.vary_holes(tid, p, base, thr, 6 if len(self.paths[tid]) < 200 else 1)
            keep = []
            for m in allm:
                if self.deep_feasible(tid, m):
                    keep.append(m)
                else:
                    st["infeasible_shape"] += 1
            per_path = max(6, self.max_per_type // max(1, len(self.paths[tid])))
            if len(keep) > per_path:
                step = len(keep) / float(per_path)
                keep = [keep[int(j * step)] for j in range(per_path)]
            if keep:
                st["covered"] += 1
            elif allm:
                st["uncovered"].append((i, "only unparseable-by-construction shapes"))
            else:
                st["uncovered"].append((i, self.classify_unreached(tid, p)))
            out += [(i, m) for m in keep]
        st["models"] = len(out)
        self.stats[tid] = st
        self._models[tid] = out
        return out

    def classify_unreached(self, tid, path):
        """Why no value reaches a path: its integer constraints are contradictory ("infeasible"),
        satisfiable only outside the field's domain ("outside domain"), or satisfiable - then the
        model finder is to blame ("no model")."""
        cons = {}
        for a, truth in path.pc:
            if a[0] != "cmp":
                continue
            x, y, op = a[2], a[3], a[1]
            if y[0] == "S" and x[0] == "C":
                x, y = y, x
                op = {"Lt": "Gt", "Gt": "Lt", "Le": "Ge", "Ge": "Le"}.get(op, op)
            if not (x[0] == "S" and x[1][0] in ("fld", "elem", "var") and y[0] == "C" and isinstance(y[1], int) and not isinstance(y[1], bool)):
                continue
            if not truth:
                op = {"Eq": "Ne", "Ne": "Eq", "Lt": "Ge", "Ge": "Lt", "Gt": "Le", "Le": "Gt"}[op]
            cons.setdefault(x[1], []).append((op, y[1]))
        verdict = "no model"
        for term, cs in cons.items():
            try:
                ty, owner, field = self.type_of(term, tid)
                k = self.kind(ty)
            except ModelError:
                continue
            if k[0] != "int":
                continue
            tlo, thi = INT_TYPES[k[1]]
            dlo, dhi, _ = self.dom.ints(owner, field, k[1])

            def feasible(lo, hi):
                excl = set()
                for op, c in cs:
                    if op == "Eq":
                        lo, hi = max(lo, c), min(hi, c)
                    elif op == "Ne":
                        excl.add(c)
                    elif op == "Gt":
                        lo = max(lo, c + 1)
                    elif op == "Ge":
                        lo = max(lo, c)
                    elif op == "Lt":
                        hi = min(hi, c - 1)
                    elif op == "Le":
                        hi = min(hi, c)
                if lo > hi:
                    return False
                if hi - lo < 64:
                    return any(v not in excl for v in range(lo, hi + 1))
                return True
            if not feasible(tlo, thi):
                return "infeasible"
            if not feasible(max(tlo, dlo), min(thi, dhi)):
                verdict = "outside domain"
        return verdict

    def deep_feasible(self, tid, v):
        """The value and every AST node inside it has a shape some parse can produce."""
        if not self.feasible(tid, v):
            return False
        return all(self.feasible(n[1], n) for n in self.sub_nodes(v) if n is not v)

    def sub_nodes(self, v, out=None):
        out = [] if out is None else out
        if isinstance(v, tuple) and v:
            if v[0] == "adt":
                if v[1] in self.prog.adts:
                    out.append(v)
                for _, x in v[3]:
                    self.sub_nodes(x, out)
            elif v[0] in ("tup", "list"):
                for x in v[1]:
                    self.sub_nodes(x, out)
            elif v[0] == "some":
                self.sub_nodes(v[1], out)
        return out

    def core(self, tid):
        """A small covering subset of a child's models, used when the child is a hole of a parent."""
        if tid in self._core:
            return self._core[tid]
        ms = self.models(tid)
        by_path = {}
        for i, m in ms:
            by_path.setdefault(i, []).append(m)
        chosen = []
        if len(ms) <= self.core_cap:
            self._core[tid] = [m for _, m in ms]
            return self._core[tid]
        # diversity of what the text starts and ends with matters to the parents (adjacency): one model per
        # (beginning, ending) class first - spread over the paths -, then one per path not yet represented
        def cls(t):
            return "".join("0" if c.isdigit() else "A" if c.isupper() else "a" if c.islower() else c for c in t)
        seen_sig, seen_path = {}, set()
        order = []
        for rnd in range(max(len(l) for l in by_path.values())):
            for i in sorted(by_path):
                if rnd < len(by_path[i]):
                    order.append((i, by_path[i][rnd]))
            if len(order) > 6000:
                break
        for i, m in order:
            try:
                txt = self.render(tid, m)
            except ModelError:
                continue
            key = (cls(txt[:2]), cls(txt[-2:]))
            if key not in seen_sig:
                seen_sig[key] = m
                seen_path.add(i)
                chosen.append(m)
            if len(chosen) >= self.core_cap:
                break
        for i in sorted(by_path):
            if len(chosen) >= self.core_cap + 8:
                break
            if i not in seen_path:
                chosen.append(by_path[i][0])
                seen_path.add(i)
        self._core[tid] = chosen
        return chosen

    # ---- rendering ---------------------------------------------------------------------------------

    def trie(self, tid):
        """Decision trie over the path conditions of a type: node = {atom: {truth: node}}, leaves
        under the key None."""
        if tid not in self._trie:
            root = {}
            for i, p in enumerate(self.paths[tid]):
                n = root
                for a, t in p.pc:
                    n = n.setdefault(a, {}).setdefault(t, {})
                n.setdefault(None, []).append(i)
            self._trie[tid] = root
        return self._trie[tid]

    def path_of(self, tid, val):
        hits = []
        work = [self.trie(tid)]
        while work:
            n = work.pop()
            for a, kids in n.items():
                if a is None:
                    hits += kids
                    continue
                r = self.eval_atom(a, val)
                if r in kids:
                    work.append(kids[r])
        return hits

    def render(self, tid, val, spans=None):
        """Text printed for a value; `spans` collects (start, end, hole type, value) of its holes."""
        key = (tid, val)
        if spans is None and key in self._render:
            return self._render[key]
        if tid not in self.paths:
            raise ModelError("no printer model for %s (its Display body is outside the modelled subset)" % short(tid))
        hits = self.path_of(tid, val)
        if len(hits) != 1:
            raise ModelError("value of %s satisfies %d printer paths (expected exactly 1)" % (short(tid), len(hits)))
        p = self.paths[tid][hits[0]]
        out = ""
        for piece in p.out:
            if piece[0] == "lit":
                out += piece[1]
                continue
            _, kind, v, ty, spec = piece
            if kind != "display":
                raise ModelError("format trait %s" % kind)
            x = self.ev_val(v, val)
            s = self.show(x, ty, spec)
            if spans is not None:
                spans.append((len(out), len(out) + len(s), clean_ty(ty), x))
            out += s
        if spans is None:
            self._render[key] = out
        return out

    def show(self, x, ty, spec):
        width, zero, plus, prec, alt, fill = spec
        if isinstance(x, bool):
            s = "true" if x else "false"
        elif isinstance(x, int):
            s = str(abs(x))
            sign = "-" if x < 0 else ("+" if plus else "")
            if width and zero:
                s = sign + s.rjust(max(0, width - len(sign)), "0")
            else:
                s = sign + s
                if width:
                    s = s.rjust(width, fill or " ")
            return s
        elif isinstance(x, str):
            s = x
        elif isinstance(x, tuple) and x[0] == "adt":
            s = self.render(x[1], x)
        else:
            raise ModelError("cannot print %s" % (x[:2],))
        if width and len(s) < width:
            s = s.ljust(width, fill or " ")
        return s
