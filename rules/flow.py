"""Intra-procedural flow helpers over MIR facts: value provenance through transparent steps,
must-pass-through path queries, control dependence on comparisons, fmt template decoding."""

import re

import lib

# Calls that hand their (first) argument through unchanged for our purposes
TRANSPARENT = re.compile(
    r"(::deref$|::deref_mut$|::clone$|::as_ref$|::as_mut$|::borrow$|::borrow_mut$|::into$|::as_slice$|"
    r"::as_mut_slice$|::as_str$|::to_owned$|::by_ref$|::as_deref$|::cloned$|::copied$|::into_iter$|::iter$|"
    r"<impl core::convert::From<T> for T>::from$|::unwrap$|::expect$|::start$|::end$|"
    r"core::convert::num::<impl core::convert::From<\w+> for \w+>::from$|Try>::branch$)")


def call_name(t):
    c = t["callee"]
    if "indirect" in c:
        return ""
    r = c.get("resolved")
    return (r or c)["def"]


def call_names(t):
    c = t["callee"]
    if "indirect" in c:
        return []
    res = [c["def"]]
    if c.get("resolved"):
        res.append(c["resolved"]["def"])
    return res


def is_transparent(t, extra=None):
    for n in call_names(t):
        if TRANSPARENT.search(n) or (extra is not None and extra.search(n)):
            return True
    return False


class Origin:
    """Where a value comes from: kind in {param, call, const, agg, field, bin, other}."""
    __slots__ = ("kind", "node", "local", "place", "bb")

    def __init__(self, kind, node=None, local=None, place=None, bb=None):
        self.kind, self.node, self.local, self.place, self.bb = kind, node, local, place, bb

    def __repr__(self):
        if self.kind == "param":
            return "param _%d" % self.local
        if self.kind == "call":
            return "call %s" % call_name(self.node)
        if self.kind == "const":
            return "const %s" % (self.node.get("v"))
        if self.kind == "field":
            return "field %s" % (lib.place_fields(self.place),)
        return self.kind


def origins(fn, local, extra_transparent=None, through_fields=True, _seen=None, fields_acc=None):
    """Origins of the value (or of the referent) held in `local`, looking through copies,
    moves, borrows, derefs and transparent calls. Field projections met on the way are
    recorded as 'field' origins *and* followed to the base local."""
    if _seen is None:
        _seen = set()
    res = []
    if local in _seen:
        return res
    _seen.add(local)
    defs = fn.defs_of(local)
    if local != 0 and local <= fn.j["arg_count"] and not defs:
        return [Origin("param", local=local)]
    if local != 0 and local <= fn.j["arg_count"]:
        res.append(Origin("param", local=local))
    if not defs:
        res.append(Origin("other", local=local))
    for bb, n in defs:
        if n["k"] == "assign":
            rv = n["rv"]
            k = rv["k"]
            if k in ("use", "ref", "rawptr", "discr") or (k == "cast"):
                op = rv.get("op")
                pl = rv["pl"] if k in ("ref", "rawptr", "discr") else lib.operand_place(op)
                if pl is None:
                    res.append(Origin("const", node=op, bb=bb))
                    continue
                if lib.place_fields(pl):
                    sel = _select_aggregate_operand(fn, pl)
                    if sel is not None:
                        # field of a locally built tuple/struct: follow that operand only
                        spl = lib.operand_place(sel)
                        if spl is None:
                            res.append(Origin("const", node=sel, bb=bb))
                        else:
                            if lib.place_fields(spl):
                                res.append(Origin("field", place=spl, node=n, bb=bb, local=spl["l"]))
                            res.extend(origins(fn, spl["l"], extra_transparent, through_fields, _seen))
                        continue
                    res.append(Origin("field", place=pl, node=n, bb=bb, local=pl["l"]))
                    if not through_fields:
                        continue
                res.extend(origins(fn, pl["l"], extra_transparent, through_fields, _seen))
            elif k == "agg":
                res.append(Origin("agg", node=n, bb=bb))
            elif k in ("bin", "un"):
                res.append(Origin("bin", node=n, bb=bb))
            else:
                res.append(Origin("other", node=n, bb=bb))
        elif n["k"] == "call":
            if is_transparent(n, extra_transparent) and n["args"]:
                pl = lib.operand_place(n["args"][0])
                if pl is None:
                    res.append(Origin("const", node=n["args"][0], bb=bb))
                else:
                    if lib.place_fields(pl):
                        res.append(Origin("field", place=pl, node=n, bb=bb, local=pl["l"]))
                    res.extend(origins(fn, pl["l"], extra_transparent, through_fields, _seen))
            else:
                res.append(Origin("call", node=n, bb=bb))
    return res


def _select_aggregate_operand(fn, pl):
    """For a place `_l.f` (exactly one field projection, no deref) whose base local is defined
    once, by an aggregate, return the operand stored in that field."""
    projs = pl["p"]
    if len(projs) != 1 or not isinstance(projs[0], dict) or "f" not in projs[0]:
        return None
    defs = fn.defs_of(pl["l"])
    if len(defs) != 1:
        return None
    n = defs[0][1]
    if n["k"] != "assign" or n["rv"]["k"] != "agg" or n["rv"].get("ak") not in ("tuple", "adt"):
        return None
    idx = projs[0]["f"]
    ops = n["rv"]["ops"]
    if n["rv"]["ak"] == "adt" and len(n["rv"].get("fields", [])) != len(ops):
        return None
    if idx < len(ops):
        return ops[idx]
    return None


def operand_origins(fn, op, **kw):
    pl = lib.operand_place(op)
    if pl is None:
        return [Origin("const", node=op)]
    res = []
    if lib.place_fields(pl):
        res.append(Origin("field", place=pl, local=pl["l"]))
    return res + origins(fn, pl["l"], **kw)


def root_params(fn, op_or_local, **kw):
    os_ = origins(fn, op_or_local, **kw) if isinstance(op_or_local, int) else operand_origins(fn, op_or_local, **kw)
    return {o.local for o in os_ if o.kind == "param"}


def origin_calls(fn, op_or_local, **kw):
    os_ = origins(fn, op_or_local, **kw) if isinstance(op_or_local, int) else operand_origins(fn, op_or_local, **kw)
    return [o.node for o in os_ if o.kind == "call"]


def origin_consts(fn, op_or_local, **kw):
    os_ = origins(fn, op_or_local, **kw) if isinstance(op_or_local, int) else operand_origins(fn, op_or_local, **kw)
    return [o.node for o in os_ if o.kind == "const"]


def origin_fields(fn, op_or_local, **kw):
    os_ = origins(fn, op_or_local, **kw) if isinstance(op_or_local, int) else operand_origins(fn, op_or_local, **kw)
    res = []
    for o in os_:
        if o.kind == "field":
            res.extend(lib.place_fields(o.place))
    return res


def nearest_field(fn, op_or_local, **kw):
    """(adt, variant, field) of the innermost field projection of the nearest place the value
    was loaded from, or None."""
    os_ = origins(fn, op_or_local, **kw) if isinstance(op_or_local, int) else operand_origins(fn, op_or_local, **kw)
    for o in os_:
        if o.kind == "field":
            fs = lib.place_fields(o.place)
            if fs:
                return fs[-1]
    return None


def const_items(fn, op_or_local):
    """Paths of named constants an operand's value comes from, looking into promoted bodies."""
    res = []
    for c in origin_consts(fn, op_or_local):
        if c.get("item") and "promoted" not in c:
            res.append(c["item"])
        if "promoted" in c:
            body = fn.j.get("promoted", [])
            if c["promoted"] < len(body):
                for b in body[c["promoted"]]["blocks"]:
                    for st in b["stmts"]:
                        if st["k"] == "assign":
                            for o in lib.rvalue_operands(st["rv"]):
                                if o.get("k") == "const" and o.get("item"):
                                    res.append(o["item"])
    return res


def date_bound(fn, op_or_local):
    """'DATE_START' / 'DATE_END' when the operand is that constant or its `.date()`."""
    items = list(const_items(fn, op_or_local))
    for c in origin_calls(fn, op_or_local):
        if call_name(c) in ("chrono::naive::datetime::NaiveDateTime::date", "chrono::naive::datetime::NaiveDateTime::time") or call_name(c).endswith("Datelike>::year"):
            items += const_items(fn, c["args"][0])
    names = {i.split("::")[-1] for i in items if i.startswith("opening_hours::opening_hours::DATE_")}
    return sorted(names)[0] if len(names) == 1 else None


def const_variants(fn, op_or_local):
    """Enum variants ("ADT::Variant") a constant operand denotes: scalar enum constants, or
    aggregates built in the promoted body / in place."""
    res = []
    os_ = origins(fn, op_or_local) if isinstance(op_or_local, int) else operand_origins(fn, op_or_local)
    for o in os_:
        if o.kind == "agg" and o.node["rv"].get("ak") == "adt" and not o.node["rv"]["ops"]:
            res.append("%s::%s" % (o.node["rv"]["adt"], o.node["rv"]["variant"]))
        if o.kind == "const":
            c = o.node
            if c.get("variant"):
                res.append("%s::%s" % (c["ty"].lstrip("&"), c["variant"]))
            if "promoted" in c:
                body = fn.j.get("promoted", [])
                if c["promoted"] < len(body):
                    for b in body[c["promoted"]]["blocks"]:
                        for st in b["stmts"]:
                            if st["k"] == "assign" and st["rv"]["k"] == "agg" and st["rv"].get("ak") == "adt" and not st["rv"]["ops"]:
                                res.append("%s::%s" % (st["rv"]["adt"], st["rv"]["variant"]))
                            if st["k"] == "assign" and st["rv"]["k"] == "use" and st["rv"]["op"].get("variant"):
                                res.append("%s::%s" % (st["rv"]["op"]["ty"], st["rv"]["op"]["variant"]))
    return res


def closure_of_operand(fn, op):
    """The closure definition passed as an operand (built in this body or a capture-less const)."""
    if op.get("k") == "const" and op.get("closure"):
        return op["closure"]
    pl = lib.operand_place(op)
    if pl is not None:
        for _, d in fn.defs_of(pl["l"]):
            if d["k"] == "assign" and d["rv"]["k"] == "agg" and d["rv"].get("ak") == "closure":
                return d["rv"]["closure"]
    return None


def closure_captures(fn, op):
    """Operands captured by the closure built for this operand (in capture order)."""
    pl = lib.operand_place(op)
    if pl is not None:
        for _, d in fn.defs_of(pl["l"]):
            if d["k"] == "assign" and d["rv"]["k"] == "agg" and d["rv"].get("ak") == "closure":
                return d["rv"]["ops"]
    return []


def deep_origin_calls(fn, op_or_local, depth=6):
    """Calls in the backward data slice (through call arguments too), nearest first."""
    seen_nodes = []
    seen_ids = set()
    work = [(op_or_local, 0)]
    visited_locals = set()
    while work:
        cur, d = work.pop(0)
        os_ = origins(fn, cur) if isinstance(cur, int) else operand_origins(fn, cur)
        for o in os_:
            if o.kind in ("call", "bin", "agg") and id(o.node) not in seen_ids:
                seen_ids.add(id(o.node))
                seen_nodes.append(o.node)
                if d < depth:
                    ops = o.node["args"] if o.kind == "call" else lib.rvalue_operands(o.node["rv"])
                    for a in ops:
                        pl = lib.operand_place(a)
                        if pl is not None and pl["l"] not in visited_locals:
                            visited_locals.add(pl["l"])
                            work.append((pl["l"], d + 1))
    return seen_nodes


# ---- CFG queries ------------------------------------------------------------------------------


def reach_avoiding(fn, start, targets, avoid):
    """Is some block of `targets` reachable from block `start` along a path on which no block of
    `avoid` is *completed* (a block of `avoid` may be the start)? Used for must-pass-through:
    'every path from entry to T passes through A' == not reach_avoiding(entry, T, A).
    A block in `avoid` is considered passed when its terminator executes, so a target that is
    itself in `avoid` is reachable."""
    targets = set(targets)
    avoid = set(avoid)
    seen = set()
    stack = [start]
    while stack:
        b = stack.pop()
        if b in seen:
            continue
        seen.add(b)
        if b in targets:
            return True
        if b in avoid:
            continue
        for s in fn.succs(b):
            if not fn.blocks[s]["cleanup"]:
                stack.append(s)
    return False


def reachable_blocks(fn, start):
    seen = set()
    stack = [start]
    while stack:
        b = stack.pop()
        if b in seen:
            continue
        seen.add(b)
        for s in fn.succs(b):
            if not fn.blocks[s]["cleanup"]:
                stack.append(s)
    return seen


def blocks_where(fn, pred_stmt=None, pred_term=None):
    res = []
    for i, b in fn.live_blocks():
        if pred_term is not None and pred_term(b["term"]):
            res.append(i)
            continue
        if pred_stmt is not None and any(pred_stmt(s) for s in b["stmts"]):
            res.append(i)
    return res


def return_blocks(fn):
    return [i for i, b in fn.live_blocks() if b["term"]["k"] == "return"]


def switch_edges(fn):
    """All (bb, value or 'otherwise', target) of SwitchInt terminators."""
    for i, b in fn.live_blocks():
        t = b["term"]
        if t["k"] == "switch":
            for v, tgt in t["targets"]:
                yield i, v, tgt
            yield i, "otherwise", t["otherwise"]


def bool_switch_of(fn, bb):
    """If block bb ends in a switch on a bool local computed by a comparison in this block (or
    a call to a PartialOrd/PartialEq method), describe it: {op, a, b, true_bb, false_bb}."""
    t = fn.blocks[bb]["term"]
    if t["k"] != "switch":
        return None
    pl = lib.operand_place(t["op"])
    if pl is None:
        return None
    tg = dict((v, x) for v, x in t["targets"])
    if 0 in tg:
        false_bb, true_bb = tg[0], t["otherwise"]
    elif 1 in tg:
        true_bb, false_bb = tg[1], t["otherwise"]
    else:
        return None
    for dbb, n in fn.defs_of(pl["l"]):
        if n["k"] == "assign" and n["rv"]["k"] == "bin":
            return {"op": n["rv"]["op"], "a": n["rv"]["a"], "b": n["rv"]["b"], "true_bb": true_bb, "false_bb": false_bb, "node": n, "negated": False}
        if n["k"] == "assign" and n["rv"]["k"] == "un" and n["rv"]["op"] == "Not":
            inner = lib.operand_place(n["rv"]["a"])
            if inner is not None:
                for _, n2 in fn.defs_of(inner["l"]):
                    d = _cmp_of_node(n2)
                    if d:
                        d.update({"true_bb": false_bb, "false_bb": true_bb, "negated": True})
                        return d
        d = _cmp_of_node(n)
        if d:
            d.update({"true_bb": true_bb, "false_bb": false_bb, "negated": False})
            return d
    return None


CMP_METHODS = {"eq": "Eq", "ne": "Ne", "lt": "Lt", "le": "Le", "gt": "Gt", "ge": "Ge"}


def _cmp_of_node(n):
    if n["k"] == "assign" and n["rv"]["k"] == "bin" and n["rv"]["op"] in ("Eq", "Ne", "Lt", "Le", "Gt", "Ge"):
        return {"op": n["rv"]["op"], "a": n["rv"]["a"], "b": n["rv"]["b"], "node": n}
    if n["k"] == "call" and "indirect" not in n["callee"]:
        c = n["callee"]
        if c.get("trait") in ("core::cmp::PartialEq", "core::cmp::PartialOrd") and c["name"] in CMP_METHODS and len(n["args"]) == 2:
            return {"op": CMP_METHODS[c["name"]], "a": n["args"][0], "b": n["args"][1], "node": n}
    return None


def comparisons(fn):
    """Every comparison in the body: [(bb, {op,a,b,node})] (binary ops and PartialEq/PartialOrd calls)."""
    res = []
    for i, b in fn.live_blocks():
        for s in b["stmts"]:
            d = _cmp_of_node(s)
            if d:
                res.append((i, d))
        d = _cmp_of_node(b["term"])
        if d:
            res.append((i, d))
    return res


# ---- fmt::Arguments template decoding -----------------------------------------------------------


def decode_fmt_template(bs):
    """Decode the byte template of core::fmt::Arguments::new (encoding documented in
    library/core/src/fmt/mod.rs of the analysing toolchain). Returns a list of pieces:
    ('lit', str) or ('arg', {index, width, precision, zero_pad, plus, alternate, fill, flags})."""
    out = []
    i = 0
    arg_index = 0
    n_bytes = len(bs)
    while i < n_bytes:
        n = bs[i]
        i += 1
        if n == 0:
            break
        if n < 0x80:
            out.append(("lit", bytes(bs[i:i + n]).decode("utf-8")))
            i += n
        elif n == 0x80:
            ln = bs[i] | (bs[i + 1] << 8)
            i += 2
            out.append(("lit", bytes(bs[i:i + ln]).decode("utf-8")))
            i += ln
        else:
            if n < 0xC0:
                raise ValueError("bad template byte %x" % n)
            flags = ord(" ") | (3 << 29)
            width = None
            precision = None
            if n & 1:
                flags = int.from_bytes(bytes(bs[i:i + 4]), "little")
                i += 4
            if n & 2:
                width = int.from_bytes(bytes(bs[i:i + 2]), "little")
                i += 2
            if n & 4:
                precision = int.from_bytes(bytes(bs[i:i + 2]), "little")
                i += 2
            if n & 8:
                arg_index = int.from_bytes(bytes(bs[i:i + 2]), "little")
                i += 2
            out.append(("arg", {
                "index": arg_index,
                "width": width, "width_indirect": bool(n & 16),
                "precision": precision, "precision_indirect": bool(n & 32),
                "fill": chr(flags & 0x1FFFFF),
                "plus": bool(flags & (1 << 21)), "minus": bool(flags & (1 << 22)),
                "alternate": bool(flags & (1 << 23)), "zero_pad": bool(flags & (1 << 24)),
                "align": (flags >> 29) & 3, "flags": flags,
            }))
            arg_index += 1
    return out


# ---- expression shapes -------------------------------------------------------------------------

_SHAPE_TRANSPARENT = re.compile(
    r"(::deref$|::deref_mut$|::clone$|::as_ref$|::as_mut$|::borrow$|::borrow_mut$|::as_slice$|::as_str$|::to_owned$|::by_ref$|"
    r"<impl core::convert::From<T> for T>::from$|Try>::branch$|<T as core::convert::Into<U>>::into$|"
    r"core::convert::num::<impl core::convert::From<\w+> for \w+>::from$)")


def short_name(name):
    """Last path segments that identify a callee for humans: `Type::method`."""
    name = re.sub(r"<[^<>]*>", "", name)
    name = re.sub(r"<[^<>]*>", "", name)
    name = re.sub(r"<[^<>]*>", "", name)
    parts = [p for p in name.split("::") if p and not p.startswith("{")]
    return "::".join(parts[-2:]) if len(parts) >= 2 else name


def shape(fn, op_or_local, depth=7, _seen=None):
    """Canonical string for the expression that computes a value, looking through copies,
    borrows and transparent calls: e.g. `DateTime::naive_local(DateTime::with_timezone(p2, p1.tz))`.
    Several reaching definitions are rendered as `alt(a | b)`."""
    if _seen is None:
        _seen = frozenset()
    if isinstance(op_or_local, dict):
        op = op_or_local
        if op.get("k") == "const":
            if "fn" in op:
                return "fn:" + short_name(op["fn"]["def"])
            if op.get("closure"):
                return "closure"
            if op.get("static"):
                return "static:" + op["static"].split("::")[-1]
            if op.get("item") and "promoted" not in op:
                return "const:" + op["item"].split("::")[-1]
            if "promoted" in op:
                body = fn.j.get("promoted", [])
                if op["promoted"] < len(body):
                    vals = []
                    for b in body[op["promoted"]]["blocks"]:
                        for st in b["stmts"]:
                            if st["k"] == "assign" and st["dst"]["l"] != 0:
                                rv = st["rv"]
                                if rv["k"] == "use" and rv["op"].get("k") == "const":
                                    vals.append(shape(fn, rv["op"]))
                                elif rv["k"] == "agg" and rv.get("ak") == "adt" and not rv["ops"]:
                                    vals.append("%s::%s" % (rv["adt"].split("::")[-1], rv["variant"]))
                        t = b["term"]
                        if t["k"] == "call":
                            vals.append("%s(%s)" % (short_name(call_name(t)), ", ".join(shape(fn, a) for a in t["args"])))
                    if vals:
                        return vals[-1]
                return "promoted"
            if "str" in op:
                return repr(op["str"])
            if "int" in op:
                return str(op["int"]) if not op.get("variant") else "%s::%s" % (op["ty"].split("::")[-1], op["variant"])
            return "const"
        pl = op["pl"]
        return _shape_place(fn, pl, depth, _seen)
    return _shape_place(fn, {"l": op_or_local, "p": []}, depth, _seen)


def _shape_place(fn, pl, depth, seen):
    fields = [p for p in pl["p"] if isinstance(p, dict) and ("f" in p or "dc" in p or "ci" in p or "ix" in p)]
    suffix = ""
    for p in fields:
        if "f" in p:
            suffix += "." + p["n"]
        elif "dc" in p:
            suffix += "@" + p["dc"]
        elif "ci" in p:
            suffix += "[%s%d]" % ("-" if p["from_end"] else "", p["ci"])
        else:
            suffix += "[i]"
    if _PATH[0] is not None and fields and "f" in fields[0] and not any("ix" in p for p in fields):
        # positional mode: a field of a value built by an aggregate at its last definition before the use
        d = _def_before(fn, pl["l"], _CUR[0])
        if d is not None and d[2]["k"] == "assign" and d[2]["rv"]["k"] == "agg" and d[2]["rv"].get("ak") in ("tuple", "adt"):
            rv = d[2]["rv"]
            ops = rv["ops"]
            i0 = fields[0]["f"]
            if i0 < len(ops) and not (rv["ak"] == "adt" and len(rv.get("fields", [])) != len(ops)):
                rest = ""
                for p in fields[1:]:
                    rest += ("." + p["n"]) if "f" in p else ("@" + p["dc"]) if "dc" in p else ("[%s%d]" % ("-" if p["from_end"] else "", p["ci"])) if "ci" in p else "[i]"
                old = _CUR[0]
                _CUR[0] = (d[0], d[1])
                try:
                    return shape(fn, ops[i0], depth, seen) + rest
                finally:
                    _CUR[0] = old
        base = _shape_local(fn, pl["l"], depth, seen)
        suffix2 = ""
        for p in fields:
            suffix2 += ("." + p["n"]) if "f" in p else ("@" + p["dc"]) if "dc" in p else ("[%s%d]" % ("-" if p["from_end"] else "", p["ci"])) if "ci" in p else "[i]"
        return base + suffix2
    if _RESTRICT[0] is not None and any("ix" in p for p in fields):
        # path mode: keep the index expression, `index(base, i)` (parseable), then the remaining projections
        k = next(i for i, p in enumerate(pl["p"]) if isinstance(p, dict) and "ix" in p)
        base = _shape_place(fn, {"l": pl["l"], "p": pl["p"][:k]}, depth, seen)
        idx = _shape_local(fn, pl["p"][k]["ix"], depth - 1, seen)
        rest = ""
        for p in [q for q in pl["p"][k + 1:] if isinstance(q, dict)]:
            rest += ("." + p["n"]) if "f" in p else ("@" + p["dc"]) if "dc" in p else ("[%s%d]" % ("-" if p["from_end"] else "", p["ci"])) if "ci" in p else ""
        return "index(%s, %s)%s" % (base, idx, rest)
    if fields:
        sel = _select_aggregate_operand(fn, pl)
        if sel is not None:
            return shape(fn, sel, depth, seen)
        # `(a, b).0@Some.0`: select the tuple component, keep the remaining projections
        if len(pl["p"]) > 1 and isinstance(pl["p"][0], dict) and "f" in pl["p"][0]:
            defs = fn.defs_of(pl["l"])
            if _RESTRICT[0] is not None:
                defs = [(bb, n) for bb, n in defs if bb in _RESTRICT[0]]
            if len(defs) == 1 and defs[0][1]["k"] == "assign" and defs[0][1]["rv"]["k"] == "agg" and defs[0][1]["rv"].get("ak") == "tuple":
                ops = defs[0][1]["rv"]["ops"]
                if pl["p"][0]["f"] < len(ops):
                    rest = ""
                    for p in fields[1:]:
                        rest += ("." + p["n"]) if "f" in p else ("@" + p["dc"]) if "dc" in p else ("[%s%d]" % ("-" if p["from_end"] else "", p["ci"])) if "ci" in p else "[i]"
                    return shape(fn, ops[pl["p"][0]["f"]], depth, seen) + rest
    base = _shape_local(fn, pl["l"], depth, seen)
    return base + suffix


_RESTRICT = [None]
_CALLEES = {}  # path mode: (function, short callee name, arity) -> resolved callee ids seen


def shape_on(fn, op_or_local, blocks, depth=12):
    """shape() considering, at every level, only the definitions located in `blocks` (one path
    through the body): no `alt(..)` is produced for values assigned once per path."""
    old = _RESTRICT[0]
    _RESTRICT[0] = set(blocks)
    try:
        return shape(fn, op_or_local, depth)
    finally:
        _RESTRICT[0] = old


_PATH = [None]  # positional mode: the path as a list of blocks (blocks may repeat: unrolled loops)
_CUR = [None]   # positional mode: (index into the path, statement index) of the use being resolved
_POSIDX = {}


def _positions(fn):
    """id(statement or terminator) -> (block, statement index); terminators get len(stmts)."""
    idx = _POSIDX.get(fn.id)
    if idx is None:
        idx = {}
        for i, b in enumerate(fn.blocks):
            for si, st in enumerate(b["stmts"]):
                idx[id(st)] = (i, si)
            idx[id(b["term"])] = (i, len(b["stmts"]))
        _POSIDX[fn.id] = idx
    return idx


def shape_at(fn, op_or_local, path, pos=None, depth=48):
    """Positional path mode: like shape_on, but `path` is a *sequence* of blocks in which a block
    may occur several times (a loop taken several times), and every local is resolved to its last
    definition before the place of use along that sequence. `pos` = (index into the path,
    statement index) of the use; default: the end of the path."""
    old = (_RESTRICT[0], _PATH[0], _CUR[0])
    _RESTRICT[0] = set(path)
    _PATH[0] = list(path)
    _CUR[0] = pos if pos is not None else (len(path) - 1, 10 ** 9)
    try:
        return shape(fn, op_or_local, depth)
    finally:
        _RESTRICT[0], _PATH[0], _CUR[0] = old


def _def_before(fn, l, cur):
    """Last whole-local definition of l at or before position cur along _PATH: (path index, stmt index, node)."""
    idx = _positions(fn)
    path = _PATH[0]
    by_block = {}
    for bb, n in fn.defs_of(l):
        by_block.setdefault(bb, []).append((idx[id(n)][1], n))
    j, si = cur
    while j >= 0:
        cands = [(x, n) for x, n in by_block.get(path[j], []) if (x < si if j == cur[0] else True)]
        if cands:
            x, n = max(cands, key=lambda c: c[0])
            return (j, x, n)
        j -= 1
    return None


def _shape_local(fn, l, depth, seen):
    if _PATH[0] is not None:
        return _shape_local_at(fn, l, depth, seen)
    if l in seen or depth <= 0:
        return "_%d" % l
    seen = seen | {l}
    alts = []
    defs = fn.defs_of(l)
    if _RESTRICT[0] is not None:
        defs = [(bb, n) for bb, n in defs if bb in _RESTRICT[0]]
    if 1 <= l <= fn.j["arg_count"]:
        alts.append("p%d" % l)
    for bb, n in defs:
        if n["k"] == "assign":
            rv = n["rv"]
            k = rv["k"]
            if k == "use":
                alts.append(shape(fn, rv["op"], depth, seen))
            elif k in ("ref", "rawptr"):
                alts.append(_shape_place(fn, rv["pl"], depth, seen))
            elif k == "discr":
                alts.append("discr(%s)" % _shape_place(fn, rv["pl"], depth, seen))
            elif k == "cast":
                inner = shape(fn, rv["op"], depth, seen)
                alts.append(inner if not rv["ck"].startswith("IntToInt") else "(%s as %s)" % (inner, rv["ty"]))
            elif k == "bin":
                alts.append("%s(%s, %s)" % (rv["op"].replace("WithOverflow", ""), shape(fn, rv["a"], depth - 1, seen), shape(fn, rv["b"], depth - 1, seen)))
            elif k == "un":
                alts.append("%s(%s)" % (rv["op"], shape(fn, rv["a"], depth - 1, seen)))
            elif k == "agg":
                if rv.get("ak") == "adt":
                    nm = "%s::%s" % (rv["adt"].split("::")[-1], rv["variant"]) if rv["adt"].split("::")[-1] != rv["variant"] else rv["variant"]
                    alts.append("%s{%s}" % (nm, ", ".join("%s: %s" % (f, shape(fn, o, depth - 1, seen)) for f, o in zip(rv["fields"], rv["ops"]))))
                elif rv.get("ak") == "closure":
                    if _RESTRICT[0] is not None and rv.get("closure"):
                        # path mode: keep the closure's identity (a parseable term)
                        import json as _json
                        alts.append("closure(%s)" % ", ".join([_json.dumps(rv["closure"])] + [shape(fn, o, depth - 1, seen) for o in rv["ops"]]))
                    else:
                        alts.append("closure[%s]" % ", ".join(shape(fn, o, depth - 1, seen) for o in rv["ops"]))
                else:
                    alts.append("%s(%s)" % (rv.get("ak"), ", ".join(shape(fn, o, depth - 1, seen) for o in rv["ops"])))
            elif k == "repeat":
                alts.append("[%s; %s]" % (shape(fn, rv["op"], depth - 1, seen), rv["n"]))
            else:
                alts.append("?")
        elif n["k"] == "call":
            names = call_names(n)
            if any(_SHAPE_TRANSPARENT.search(x) for x in names) and n["args"]:
                alts.append(shape(fn, n["args"][0], depth, seen))
            else:
                extra = []
                if _RESTRICT[0] is not None and names and re.search(r"::try_(into|from)$", names[-1]):
                    m = re.match(r"(?:core|std)::result::Result<([\w:]+),", (n.get("callee") or {}).get("output") or "")
                    if m:
                        extra = ['"%s"' % m.group(1)]
                nm = short_name(names[-1] if names else "indirect")
                if _RESTRICT[0] is not None and names:
                    mnum = re.match(r"core::num::<impl (\w+)>::(\w+)$", names[-1])
                    if mnum:
                        nm = "num_%s::%s" % (mnum.group(1), mnum.group(2))  # path mode: keep the integer type of inherent integer methods
                if _RESTRICT[0] is not None and names:
                    _CALLEES.setdefault((fn.id, nm, len(n["args"])), set()).add(names[-1])
                if _RESTRICT[0] is not None and names and "{closure" in names[-1]:
                    nm = "Fn::call"  # a direct call of a closure value: callee identity is in its first argument
                alts.append("%s(%s)" % (nm, ", ".join([shape(fn, a, depth - 1, seen) for a in n["args"]] + extra)))
    if not alts:
        return "_%d" % l
    alts = sorted(set(alts))
    if len(alts) == 1:
        return alts[0]
    return "alt(" + " | ".join(alts) + ")"


# ---- enum switch arms --------------------------------------------------------------------------


def enum_arms(prog, fn, adt):
    """For each `match` on a value of enum `adt` in this body: {variant: [blocks reached only
    through that arm]} plus the switch block. Arms sharing a target (or the default arm) are
    reported under every variant that reaches them."""
    a = prog.adts.get(adt)
    res = []
    names = discrs = None
    if a is not None:
        names = [v["name"] for v in a["variants"]]
        discrs = a["discrs"] or list(range(len(names)))
    for bb, b in fn.live_blocks():
        t = b["term"]
        if t["k"] != "switch":
            continue
        pl = lib.operand_place(t["op"])
        if pl is None:
            continue
        src = None
        for _, n in fn.defs_of(pl["l"]):
            if n["k"] == "assign" and n["rv"]["k"] == "discr":
                src = n["rv"]["pl"]
        if src is None:
            continue
        # type of the matched place
        ty = None
        fs = [p for p in src["p"] if isinstance(p, dict) and "f" in p]
        if fs and not (src["p"] and isinstance(src["p"][-1], dict) and "dc" in src["p"][-1]):
            ty = fs[-1]["ty"]
        else:
            ty = fn.locals[src["l"]]["ty"]
        if ty is None:
            continue
        if adt not in ty.replace("&", "").strip().split("<")[0] and ty.replace("&", "").replace("mut ", "").strip() != adt:
            continue
        if names is None:
            continue
        arms = {}
        tg = dict(t["targets"])
        for name, dv in zip(names, discrs):
            tgt = tg.get(dv, t["otherwise"])
            region = [x for x, _ in fn.live_blocks() if fn.dominates(tgt, x)]
            # exclude blocks that are join points reachable from other arms
            arms[name] = {"target": tgt, "blocks": region, "explicit": dv in tg}
        res.append({"bb": bb, "place": src, "arms": arms})
    return res


def _shape_local_at(fn, l, depth, seen):
    cur = _CUR[0]
    d = _def_before(fn, l, cur)
    key = (l, d[0], d[1]) if d else (l, -1, -1)
    if key in seen or depth <= 0:
        return "_%d" % l
    seen = seen | {key}
    if d is None:
        return "p%d" % l if 1 <= l <= fn.j["arg_count"] else "_%d" % l
    j, si, n = d
    # a store through a projection of l between the definition and the use is not modelled
    idx = _positions(fn)
    path = _PATH[0]
    for bb_, kind, node in fn.uses_of(l):
        if kind in ("stmt-dst", "term-dst"):
            pb, ps = idx[id(node)]
            for jj in range(j, cur[0] + 1):
                if path[jj] == pb and (jj > j or ps > si) and (jj < cur[0] or ps < cur[1]):
                    return "partial_store(_%d)" % l
    old = _CUR[0]
    _CUR[0] = (j, si)
    try:
        saved = fn.defs_of
        # evaluate the single definition with the generic code: temporarily present it as the only definition
        return _one_def_shape(fn, l, n, depth, seen)
    finally:
        _CUR[0] = old


def _one_def_shape(fn, l, n, depth, seen):
    if n["k"] == "assign":
        rv = n["rv"]
        k = rv["k"]
        if k == "use":
            return shape(fn, rv["op"], depth, seen)
        if k in ("ref", "rawptr"):
            return _shape_place(fn, rv["pl"], depth, seen)
        if k == "discr":
            return "discr(%s)" % _shape_place(fn, rv["pl"], depth, seen)
        if k == "cast":
            inner = shape(fn, rv["op"], depth, seen)
            return inner if not rv["ck"].startswith("IntToInt") else "(%s as %s)" % (inner, rv["ty"])
        if k == "bin":
            return "%s(%s, %s)" % (rv["op"].replace("WithOverflow", ""), shape(fn, rv["a"], depth - 1, seen), shape(fn, rv["b"], depth - 1, seen))
        if k == "un":
            return "%s(%s)" % (rv["op"], shape(fn, rv["a"], depth - 1, seen))
        if k == "agg":
            if rv.get("ak") == "adt":
                nm = "%s::%s" % (rv["adt"].split("::")[-1], rv["variant"]) if rv["adt"].split("::")[-1] != rv["variant"] else rv["variant"]
                return "%s{%s}" % (nm, ", ".join("%s: %s" % (f, shape(fn, o, depth - 1, seen)) for f, o in zip(rv["fields"], rv["ops"])))
            if rv.get("ak") == "closure":
                import json as _json
                return "closure(%s)" % ", ".join([_json.dumps(rv.get("closure") or "?")] + [shape(fn, o, depth - 1, seen) for o in rv["ops"]])
            return "%s(%s)" % (rv.get("ak"), ", ".join(shape(fn, o, depth - 1, seen) for o in rv["ops"]))
        if k == "repeat":
            return "[%s; %s]" % (shape(fn, rv["op"], depth - 1, seen), rv["n"])
        return "?"
    if n["k"] == "call":
        names = call_names(n)
        if any(_SHAPE_TRANSPARENT.search(x) for x in names) and n["args"]:
            return shape(fn, n["args"][0], depth, seen)
        extra = []
        if names and re.search(r"::try_(into|from)$", names[-1]):
            m = re.match(r"(?:core|std)::result::Result<([\w:]+),", (n.get("callee") or {}).get("output") or "")
            if m:
                extra = ['"%s"' % m.group(1)]
        nm = short_name(names[-1] if names else "indirect")
        if names:
            mnum = re.match(r"core::num::<impl (\w+)>::(\w+)$", names[-1])
            if mnum:
                nm = "num_%s::%s" % (mnum.group(1), mnum.group(2))
            _CALLEES.setdefault((fn.id, nm, len(n["args"])), set()).add(names[-1])
            if "{closure" in names[-1]:
                nm = "Fn::call"
        return "%s(%s)" % (nm, ", ".join([shape(fn, a, depth - 1, seen) for a in n["args"]] + extra))
    return "?"


def shape_in(fn, local, blocks, depth=7):
    """Shape of `local` considering only its definitions located in `blocks`."""
    blocks = set(blocks)
    alts = []
    for bb, n in fn.defs_of(local):
        if bb not in blocks:
            continue
        if n["k"] == "assign":
            rv = n["rv"]
            if rv["k"] == "use":
                alts.append(shape(fn, rv["op"], depth))
            elif rv["k"] == "agg" and rv.get("ak") == "adt":
                nm = "%s::%s" % (rv["adt"].split("::")[-1], rv["variant"])
                alts.append("%s{%s}" % (nm, ", ".join("%s: %s" % (f, shape(fn, o, depth - 1)) for f, o in zip(rv["fields"], rv["ops"]))))
            elif rv["k"] == "ref":
                alts.append(_shape_place(fn, rv["pl"], depth, frozenset()))
            else:
                alts.append("?")
        elif n["k"] == "call":
            names = call_names(n)
            if any(_SHAPE_TRANSPARENT.search(x) for x in names) and n["args"]:
                alts.append(shape(fn, n["args"][0], depth))
            else:
                alts.append("%s(%s)" % (short_name(names[-1] if names else "indirect"), ", ".join(shape(fn, a, depth - 1) for a in n["args"])))
    alts = sorted(set(alts))
    return alts


def str_match_table(fn):
    """Lowered `match s { "A" => x, ... _ => d }`: [(literal, [result shapes of that arm])] and the
    shapes of the default arm. Arms are the blocks dominated by the true edge of each
    `<str as PartialEq>::eq(s, literal)`."""
    rows = []
    false_chain = None
    last_false = None
    for bb, t in fn.calls():
        if not call_name(t).endswith("<impl core::cmp::PartialEq for str>::eq"):
            continue
        lits = [a.get("str") for a in t["args"] if a.get("k") == "const" and a.get("str") is not None]
        if len(lits) != 1 or t["t"] is None:
            continue
        sw = fn.blocks[t["t"]]["term"]
        if sw["k"] != "switch":
            continue
        tg = dict(sw["targets"])
        true_bb = sw["otherwise"] if 0 in tg else tg.get(1)
        false_bb = tg.get(0) if 0 in tg else sw["otherwise"]
        region = [x for x, _ in fn.live_blocks() if fn.dominates(true_bb, x)]
        rows.append((lits[0], shape_in(fn, 0, region), false_bb))
    default = []
    if rows:
        # the default arm: blocks dominated by a false edge that contain no further comparison
        falses = {r[2] for r in rows}
        cmp_blocks = {bb for bb, t in fn.calls() if call_name(t).endswith("<impl core::cmp::PartialEq for str>::eq")}
        for fb in falses:
            if fb not in cmp_blocks:
                region = [x for x, _ in fn.live_blocks() if fn.dominates(fb, x)]
                default += shape_in(fn, 0, region)
    return [(r[0], r[1]) for r in rows], default


def rv_shape(fn, rv, depth=7):
    k = rv["k"]
    if k == "use":
        return shape(fn, rv["op"], depth)
    if k == "bin":
        return "%s(%s, %s)" % (rv["op"].replace("WithOverflow", ""), shape(fn, rv["a"], depth), shape(fn, rv["b"], depth))
    if k == "un":
        return "%s(%s)" % (rv["op"], shape(fn, rv["a"], depth))
    if k in ("ref", "rawptr"):
        return _shape_place(fn, rv["pl"], depth, frozenset())
    if k == "cast":
        return "(%s as %s)" % (shape(fn, rv["op"], depth), rv["ty"])
    if k == "agg":
        return "%s(%s)" % (rv.get("variant") or rv.get("ak"), ", ".join(shape(fn, o, depth) for o in rv["ops"]))
    return k


def stores(fn):
    """Writes through projections (field / deref / index stores): [(destination shape, value shape, stmt)]."""
    res = []
    for bb, s in fn.stmts():
        if s["k"] == "assign" and s["dst"]["p"]:
            res.append((_shape_place(fn, s["dst"], 6, frozenset()), rv_shape(fn, s["rv"]), s))
    return res


def displays_only(fn, op_or_local, what=r"p1\.inner"):
    """Is the value the text of `Display` of exactly `what` (a shape regex): `x.to_string()` or a
    `format!` whose template is a single default placeholder bound to `x`?"""
    sh = shape(fn, op_or_local, depth=8)
    if re.fullmatch(r"(?:\w+)?::to_string\(%s\)" % what, sh):
        return True
    m = re.fullmatch(r"(?:hint::must_use\()?fmt::format\(Arguments::new\(const, array\(Argument::new_display\(%s\)\)\)\)\)?" % what, sh)
    if not m:
        return False
    for _, t in fn.calls():
        if call_name(t).startswith("core::fmt::Arguments::<'a>::new") and t["args"]:
            for o in operand_origins(fn, t["args"][0]):
                if o.kind == "const" and o.node.get("bytes") is not None:
                    tmpl = decode_fmt_template(o.node["bytes"])
                    if len(tmpl) == 1 and tmpl[0][0] == "arg" and not tmpl[0][1].get("width") and not tmpl[0][1].get("alternate") and not tmpl[0][1].get("plus"):
                        return True
    return False


def returns_is_ok_of(prog, fn, callee_suffix, arg_shape="p1"):
    """Does `fn` return `true` exactly when the single call to `callee_suffix(arg)` returned Ok?
    Accepts `.is_ok()` and a match on the result's discriminant storing true for Ok only."""
    calls = [t for _, t in fn.calls() if call_name(t).endswith(callee_suffix)]
    if len(calls) != 1 or shape(fn, calls[0]["args"][0], depth=4) != arg_shape:
        return False
    sh = shape(fn, 0, depth=6)
    inner = "%s(%s)" % (short_name(call_name(calls[0])), arg_shape)
    if sh == "Result::is_ok(%s)" % inner:
        return True
    # match form: switch on the discriminant of the call's result
    dst = calls[0]["dst"]["l"]
    for bb, b in fn.live_blocks():
        t = b["term"]
        if t["k"] != "switch":
            continue
        pl = lib.operand_place(t["op"])
        if pl is None:
            continue
        src = None
        for _, n in fn.defs_of(pl["l"]):
            if n["k"] == "assign" and n["rv"]["k"] == "discr" and n["rv"]["pl"]["l"] == dst and not [x for x in n["rv"]["pl"]["p"] if x != "*"]:
                src = n
        if src is None:
            continue
        tg = dict(t["targets"])
        ok_bb = tg.get(0, t["otherwise"])
        other = [x for v, x in t["targets"] if v != 0] + ([t["otherwise"]] if 0 in tg else [])
        def stored(start):
            vals = set()
            for x in reachable_blocks(fn, start):
                for st in fn.blocks[x]["stmts"]:
                    if st["k"] == "assign" and st["dst"]["l"] == 0 and not st["dst"]["p"] and st["rv"]["k"] == "use" and st["rv"]["op"].get("k") == "const":
                        vals.add(st["rv"]["op"].get("bool"))
            return vals
        # blocks reached only through one arm: use dominance
        ok_vals = {v for x in [y for y, _ in fn.live_blocks() if fn.dominates(ok_bb, y)] for st in fn.blocks[x]["stmts"] if st["k"] == "assign" and st["dst"]["l"] == 0 and st["rv"]["k"] == "use" and st["rv"]["op"].get("k") == "const" for v in [st["rv"]["op"].get("bool")]}
        err_vals = set()
        for o in other:
            err_vals |= {v for x in [y for y, _ in fn.live_blocks() if fn.dominates(o, y)] for st in fn.blocks[x]["stmts"] if st["k"] == "assign" and st["dst"]["l"] == 0 and st["rv"]["k"] == "use" and st["rv"]["op"].get("k") == "const" for v in [st["rv"]["op"].get("bool")]}
        if ok_vals == {True} and err_vals == {False}:
            return True
    return False
