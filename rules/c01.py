"""C01 - day schedules follow the documented rule semantics.

Decided: a rule is matched against all four selector groups, conjunctively, and every leaf
selector looks at every field (R1); holiday selectors see only, and the right, context
calendar, shifted by the rule's offset (R2); time spans are projected through every field that
carries meaning (R3); the midnight spill is cut at 24:00 and shifted by exactly one day (R4);
overlapping time spans of one rule are merged keeping the farther end (R5); the nth-of-month
index expressions are ceil(d/7)-1 and ceil((n-d+1)/7)-1 on their whole finite domain (R6); weekday date offsets move to the nearest such weekday in the
right direction for all 49 (weekday, target) pairs (R7).
Not decided: selector arithmetic (steps, offsets, wrapping, leap days, Easter, ISO weeks),
overlay of normal/additional/closed/fallback rules - values.
"""

import json
import re

import common
import flow
import lib
import merge

DAY = "opening_hours_syntax::rules::day::"
TIME = "opening_hours_syntax::rules::time::"
DF = "opening_hours::filter::date_filter::DateFilter"
OHT = "opening_hours::opening_hours::OpeningHours::<L>::"


def check_reads(prog, rule, f, adt, role, exempt=(), allow_rejected_variants=False):
    """fields(adt) - exempt must be read by f (per variant). Returns the read set."""
    got = lib.reads(prog, f.id, adt)
    fields = prog.adt_fields(adt)
    for variant, names in fields.items():
        read_here = [n for n in names if (variant, n) in got]
        if allow_rejected_variants and not read_here and names:
            rule.ok({"role": role, "type": adt.split("::")[-1], "variant": variant, "rejected_wholesale": True})
            continue
        for n in names:
            if (adt, variant, n) in exempt or (adt, n) in exempt:
                continue
            rule.check((variant, n) in got, {"role": role, "type": adt.split("::")[-1], "field": "%s.%s" % (variant, n)},
                       "%s:%s:%s.%s" % (rule.rid, role, adt.split("::")[-1], n) if variant == adt.split("::")[-1] else "%s:%s:%s::%s.%s" % (rule.rid, role, adt.split("::")[-1], variant, n),
                       "%s never looks at %s::%s.%s (two rules differing only in that field are treated alike)" % (f.id, adt.split("::")[-1], variant, n), lib.where_of(f))
    return got


def run(ctx, prog, res):
    # R1 -------------------------------------------------------------------------------------
    r1 = res.rule("C01.R1", "a rule applies on a day iff the day satisfies all of its year, month/date, week-number and weekday/holiday selectors: the day selector consults all four groups conjunctively and every leaf selector reads every field of every variant")
    dsf = prog.impl_method_one("DateFilter", "filter", self_adt=DAY + "DaySelector")
    check_reads(prog, r1, dsf, DAY + "DaySelector", "filter")
    groups = {"YearRange": [], "MonthdayRange": [], "WeekRange": [], "WeekDayRange": []}
    for bb, t in dsf.calls():
        c = t["callee"]
        if "indirect" not in c and c.get("trait") == DF and c["name"] == "filter":
            for g in groups:
                if ("::" + g) in (c.get("self_ty") or "") or any(("::" + g) in a for a in c.get("gargs", [])):
                    groups[g].append(bb)
    falses = [bb for bb, s in dsf.stmts() if s["k"] == "assign" and s["dst"]["l"] == 0 and not s["dst"]["p"] and s["rv"]["k"] == "use" and s["rv"]["op"].get("bool") is False]
    rets = flow.return_blocks(dsf)
    for g, bbs in groups.items():
        ok = bool(bbs) and not flow.reach_avoiding(dsf, 0, rets, bbs + falses)
        r1.check(ok, {"group": g, "filter_call_blocks": bbs, "bypass_only_with_false": True}, "C01.R1:conjunction:%s" % g,
                 "DaySelector::filter can return without consulting the %s selectors (or without being false)" % g, lib.where_of(dsf))
    trues = [bb for bb, s in dsf.stmts() if s["k"] == "assign" and s["dst"]["l"] == 0 and s["rv"]["k"] == "use" and s["rv"]["op"].get("bool") is True]
    r1.check(not trues, {"constant_true_results": 0}, "C01.R1:no-const-true", "DaySelector::filter has a path yielding a constant `true`", lib.where_of(dsf))
    for leaf, extra in (("YearRange", []), ("MonthdayRange", ["Date", "DateOffset"]), ("WeekRange", []), ("WeekDayRange", [])):
        f = prog.impl_method_one("DateFilter", "filter", self_adt=DAY + leaf)
        check_reads(prog, r1, f, DAY + leaf, "filter")
        for e in extra:
            check_reads(prog, r1, f, DAY + e, "filter")
    sf = prog.impl_method_one("DateFilter", "filter", self_ty="[T]")
    sh = flow.shape(sf, 0)
    r1.check(re.fullmatch(r"alt\(1 \| ::any\(slice::iter\(p1\), closure\[p2, p3\]\)\)", sh) is not None, {"fn": sf.id, "returns": sh}, "C01.R1:slice",
             "a selector list does not match as `empty or any element matches` over the whole list: %s" % sh, lib.where_of(sf))
    r1.floor(25)

    # R2 -------------------------------------------------------------------------------------
    r2 = res.rule("C01.R2", "holiday selectors are decided solely by the calendars attached to the context: evaluation reaches no embedded database; PH reads ctx.holidays.public and SH ctx.holidays.school; every calendar query is made on the date shifted by the rule's offset")
    roots = [x for x in common.EVAL_ENTRY if x in prog.fns]
    if len(roots) < 10:
        r2.anchor_missing("evaluation entry points")
    reach, parent = prog.reachable(roots)
    forbidden = [x for x in reach if re.search(r"Country>::(holidays|try_from_coords)$|TzLocation::<chrono_tz::timezones::Tz>::from_coords$|decode_holidays_db", x)]
    statics = sorted({sid for x in reach if prog.fns[x].crate in lib.WS_LIBS for sid, _ in common.static_refs(prog.fns[x]) if sid in prog.statics and sid != "opening_hours_syntax::parser::WARN_EASTER"})
    r2.check(not forbidden and not statics, {"reachable_functions": len(reach), "embedded_databases_reached": 0}, "C01.R2:no-embedded-db",
             "evaluation reaches the embedded databases: %s %s" % (forbidden[:3], statics[:3]))
    HK = DAY + "HolidayKind"
    CH = "opening_hours::context::ContextHolidays"
    n_sw = 0
    lookups = []
    for f in prog.fns.values():
        if f.crate != lib.OH:
            continue
        for m in flow.enum_arms(prog, f, HK):
            n_sw += 1
            for variant, arm in m["arms"].items():
                fields = set()
                for b in arm["blocks"]:
                    for s in f.blocks[b]["stmts"]:
                        if s["k"] == "assign":
                            for pl in lib.rvalue_places(s["rv"]):
                                for a, v, n in lib.place_fields(pl):
                                    if a == CH:
                                        fields.add(n)
                # only the blocks exclusive to this arm
                r2.check(fields == {variant.lower()}, {"fn": f.id, "holiday_kind": variant, "calendar": sorted(fields)}, "C01.R2:calendar:%s:%s" % (f.id, variant),
                         "%s selects calendar %s for HolidayKind::%s" % (f.id, sorted(fields), variant), lib.where_of(f))
            for bb, t in f.calls():
                if re.search(r"compact_calendar::CompactCalendar::(contains|first_after)$", flow.call_name(t)):
                    sh = flow.shape(f, t["args"][1])
                    lookups.append((f, t, sh))
                    r2.check("@Holiday.offset" in sh and re.search(r"(::sub|Sub)\(p2, TimeDelta::days\(p1@Holiday\.offset\)\)", sh) is not None,
                             {"fn": f.id, "query": flow.call_name(t).split("::")[-1], "on": sh}, "C01.R2:offset:%s:%s" % (f.id, flow.call_name(t).split("::")[-1]),
                             "a calendar query in %s is not made on `date - offset days`: %s" % (f.id, sh), lib.where_of(f, t))
    r2.check(n_sw >= 2, {"holiday_kind_matches": n_sw}, "C01.R2:FLOOR-switches", "FLOOR: expected the two matches on HolidayKind (filter, next_change_hint), found %d" % n_sw)
    r2.floor(8)

    # R3 -------------------------------------------------------------------------------------
    r3 = res.rule("C01.R3", "time spans are projected through every field that carries meaning: TimeSpan.range (both ends), Time variants, VariableTime.event and .offset")
    TS = TIME + "TimeSpan"
    f = prog.impl_method_one("TimeFilter", "as_naive", self_adt=TS)
    check_reads(prog, r3, f, TS, "as_naive", exempt={(TS, "open_end"), (TS, "repeats")})
    sh = flow.shape(f, 0)
    r3.check(re.search(r"start: ::as_naive\(p1\.range\.start, p2, p3\)", sh) is not None and sh.count("::as_naive(p1.range.end, p2, p3)") >= 1, {"fn": f.id, "returns": sh[:200]}, "C01.R3:both-ends",
             "TimeSpan::as_naive does not project both ends of the range: %s" % sh, lib.where_of(f))
    f = prog.impl_method_one("TimeFilter", "as_naive", self_adt=TIME + "Time")
    check_reads(prog, r3, f, TIME + "Time", "as_naive")
    f = prog.impl_method_one("TimeFilter", "as_naive", self_adt=TIME + "VariableTime")
    check_reads(prog, r3, f, TIME + "VariableTime", "as_naive")
    f = prog.impl_method_one("TimeFilter", "as_naive", self_adt=TIME + "TimeSelector")
    check_reads(prog, r3, f, TIME + "TimeSelector", "as_naive")
    r3.floor(6)

    # R4 -------------------------------------------------------------------------------------
    r4 = res.rule("C01.R4", "time spans passing midnight continue on the following day: today's part is the intersection with 00:00..24:00, tomorrow's part the intersection with 24:00..48:00 shifted by exactly -24 h at both ends; a span wraps iff not start < end, by +24 h; the day's schedule adds yesterday's spill")
    TF = "opening_hours::filter::time_filter::"
    for name, lo, hi in (("time_selector_intervals_at", "MIDNIGHT_00", "MIDNIGHT_24"), ("time_selector_intervals_at_next_day", "MIDNIGHT_24", "MIDNIGHT_48")):
        f = prog.require_fn(TF + name)
        found = []
        for c in prog.closures(f.id):
            cf = prog.fns[c]
            for _, t in cf.calls():
                if flow.call_name(t).endswith("range_intersection"):
                    found.append(flow.shape(cf, t["args"][1]))
        want = "Range{start: const:%s, end: const:%s}" % (lo, hi)
        r4.check(found == [want], {"fn": name, "window": found}, "C01.R4:window:%s" % name, "%s cuts spans with %s (expected %s)" % (name, found, want), lib.where_of(f))
    # both day functions cut the same spans: what is cut is the projection of the whole time selector, in both
    # (a span left out of one of the two loses its part before or after midnight)
    cut_src = {}
    for name in ("time_selector_intervals_at", "time_selector_intervals_at_next_day"):
        f = prog.require_fn(TF + name)
        srcs = []
        for _, t in f.calls():
            if len(t["args"]) == 2:
                clo = flow.closure_of_operand(f, t["args"][1])
                if clo in prog.fns and any(flow.call_name(t2).endswith("range_intersection") for _, t2 in prog.fns[clo].calls()):
                    srcs.append(flow.shape(f, t["args"][0], depth=8))
        cut_src[name] = srcs
    whole = [s_ for v in cut_src.values() for s_ in v]
    ok = all(len(v) == 1 for v in cut_src.values()) and len(set(whole)) == 1 and re.fullmatch(r"(?:[\w:<> ]*::)?as_naive\(p2, p1, p3\)", whole[0]) is not None
    r4.check(ok, {"fns": sorted(cut_src), "spans_cut": whole[:2], "same_in_both": True}, "C01.R4:same-spans",
             "today's part and the spill into the next day are not cut from the same spans - the projection `as_naive(ctx, date)` of the whole time selector: %s (a span skipped by one of the two loses its minutes on that side of midnight)" % cut_src, lib.where_of(f))
    f = prog.require_fn(TF + "time_selector_intervals_at_next_day")
    shifts = []
    for c in prog.closures(f.id):
        cf = prog.fns[c]
        sh = flow.shape(cf, 0)
        if "add_hours" in sh:
            shifts.append(sh)
    ok = len(shifts) == 1 and re.fullmatch(r"Range\{start: Option::unwrap\(ExtendedTime::add_hours\(p2\.start, -24\)\), end: Option::unwrap\(ExtendedTime::add_hours\(p2\.end, -24\)\)\}", shifts[0]) is not None
    r4.check(ok, {"fn": f.id, "shift": shifts}, "C01.R4:shift", "the spill into the next day is not shifted by -24 h at both ends: %s" % shifts, lib.where_of(f))
    f = prog.impl_method_one("TimeFilter", "as_naive", self_adt=TIME + "TimeSpan")
    ok = False
    plus = [bb for bb, t in f.calls() if flow.call_name(t).endswith("ExtendedTime::add_hours") and t["args"][1].get("int") == 24]
    for sbb, _ in f.live_blocks():
        d = flow.bool_switch_of(f, sbb)
        if d and d["op"] in ("Lt", "Le", "Gt", "Ge") and d["node"]["k"] == "call":
            a, b = flow.shape(f, d["a"]), flow.shape(f, d["b"])
            if "range.start" in a and "range.end" in b and "range.end" not in a:
                op = d["op"]
            elif "range.start" in b and "range.end" in a and "range.end" not in b:
                op = {"Lt": "Gt", "Gt": "Lt", "Le": "Ge", "Ge": "Le"}[d["op"]]
            else:
                continue
            if not any(f.dominates(d["false_bb"], bb) or f.dominates(d["true_bb"], bb) for bb in plus):
                continue
            if op == "Lt" and plus and all(f.dominates(d["false_bb"], bb) and not f.dominates(d["true_bb"], bb) for bb in plus):
                ok = True
            if op == "Ge" and plus and all(f.dominates(d["true_bb"], bb) and not f.dominates(d["false_bb"], bb) for bb in plus):
                ok = True
    r4.check(ok, {"fn": f.id, "wrap": "end + 24h iff not (start < end)"}, "C01.R4:wrap", "TimeSpan::as_naive does not wrap exactly when `start < end` is false, by +24 h", lib.where_of(f))
    rs = prog.require_fn("opening_hours::opening_hours::rule_sequence_schedule_at")
    names = [flow.call_name(t) for x in prog.with_closures(rs.id) for _, t in prog.fns[x].calls()]
    ok = TF + "time_selector_intervals_at" in names and TF + "time_selector_intervals_at_next_day" in names and "chrono::naive::date::NaiveDate::pred_opt" in names and "opening_hours::schedule::Schedule::addition" in names
    r4.check(ok, {"fn": rs.id, "combines": "today's spans + yesterday's spill (date.pred_opt())"}, "C01.R4:combine", "the day's schedule is not built from today's spans plus yesterday's spill", lib.where_of(rs))

    # R5 -------------------------------------------------------------------------------------
    r5 = res.rule("C01.R5", "overlapping time spans of one rule are merged into their union: where ranges sorted by start are merged, the farther end is kept")
    merge.check(prog, r5, [lib.OH], "C01.R5")
    r5.floor(2)

    # R6 -------------------------------------------------------------------------------------
    r6 = res.rule("C01.R6", "nth-of-month positions: a day d of a month with n days is the ceil(d/7)-th weekday of its kind from the start and the ceil((n-d+1)/7)-th from the end; the index expressions into nth_from_start / nth_from_end (extracted from MIR) are evaluated for every d in 1..=n, n in 28..=31 (exhaustive), and day, month length and weekday are taken from the same (offset-shifted) date")
    import terms
    wf = prog.impl_method_one("opening_hours::filter::date_filter::DateFilter", "filter", self_adt=DAY + "WeekDayRange")
    found = {}
    date_args = set()
    for bb, b in wf.live_blocks():
        for st in b["stmts"]:
            if st["k"] != "assign" or st["rv"]["k"] not in ("use", "ref"):
                continue
            pl = st["rv"]["pl"] if st["rv"]["k"] == "ref" else st["rv"]["op"].get("pl")
            if not pl:
                continue
            ix = [x for x in pl["p"] if isinstance(x, dict) and "ix" in x]
            if not ix:
                continue
            base = flow.shape(wf, pl["l"])
            m = re.search(r"nth_from_(start|end)", base)
            if not m:
                continue
            found.setdefault(m.group(1), []).append((flow.shape(wf, ix[0]["ix"], depth=14), st))
    want = {"start": lambda d, n: (d + 6) // 7 - 1, "end": lambda d, n: (n - d + 1 + 6) // 7 - 1}
    for side in ("start", "end"):
        exprs = found.get(side, [])
        if not exprs:
            r6.anchor_missing("an index into WeekDayRange::Fixed.nth_from_%s in its DateFilter::filter" % side)
            continue
        for sh, st in exprs:
            try:
                tree = terms.parse(sh)
                is_day = lambda nd: nd[0] == "app" and nd[1].endswith("::day") and len(nd[2]) == 1
                is_len = lambda nd: nd[0] == "app" and nd[1].endswith("count_days_in_month") and len(nd[2]) == 1
                for nd in terms.leaves(tree, lambda nd: is_day(nd) or is_len(nd)):
                    date_args.add(repr(nd[2][0]))
                bad = None
                n_eval = 0
                for n in (28, 29, 30, 31):
                    for d in range(1, n + 1):
                        got = terms.evaluate(tree, lambda nd: d if is_day(nd) else n if is_len(nd) else None)
                        n_eval += 1
                        if got != want[side](d, n) and bad is None:
                            bad = (d, n, got, want[side](d, n))
                r6.check(bad is None, {"table": "nth_from_" + side, "index": sh, "evaluated": n_eval, "agrees_with": "ceil(d/7)-1" if side == "start" else "ceil((n-d+1)/7)-1"}, "C01.R6:nth_from_%s" % side,
                         "the index into nth_from_%s, %s, is %s for day %s of a %s-day month; the %s weekday of its kind is position %s" % ((side, sh) + ((bad[2], bad[0], bad[1], "%d." % (bad[3] + 1), bad[3]) if bad else ("", "", "", "", ""))), lib.where_of(wf, st))
            except terms.TermError as e:
                r6.fail("C01.R6:nth_from_%s:unmodelled" % side, "the index into nth_from_%s is computed by an expression outside the modelled arithmetic (%s): %s" % (side, e, sh), lib.where_of(wf, st))
    # weekday membership uses the same date
    wd = [flow.shape(wf, t["args"][0], depth=10) for _, t in wf.calls() if flow.call_name(t).endswith("Datelike::weekday") or flow.call_name(t).endswith("::weekday")]
    for w in wd:
        try:
            date_args.add(repr(terms.parse(w)))
        except terms.TermError:
            date_args.add(w)
    r6.check(len(date_args) == 1 and wd, {"day_month_length_weekday_taken_from": sorted(date_args)}, "C01.R6:same-date",
             "day of month, month length and weekday are not all taken from the same date: %s" % sorted(date_args), lib.where_of(wf))
    r6.floor(3)

    # R7 -------------------------------------------------------------------------------------
    r7 = res.rule("C01.R7", "weekday date offsets (`Jun 7+Tu`, `Oct 31-Su`): `+wd` moves forward to the nearest such weekday (0..6 days, staying put when the date already is one), `-wd` backward; the day counts added / subtracted in DateOffset::apply (extracted from MIR as terms over the date's weekday and the target) are evaluated for all 49 (weekday, target) pairs")
    ap = prog.require_fn(DAY + "DateOffset::apply")
    WD = ["Mon", "Tue", "Wed", "Thu", "Fri", "Sat", "Sun"]
    seen_variants = set()
    for bb, t in ap.calls():
        nm = flow.call_name(t)
        mm = re.search(r"NaiveDate as core::ops::arith::(AddAssign|SubAssign|Add|Sub)<chrono::time_delta::TimeDelta>", nm)
        if not mm:
            continue
        sh = flow.shape(ap, t["args"][1], depth=14)
        mv = re.search(r"wday_offset@(Next|Prev)", sh)
        if not mv:
            continue
        variant, direction = mv.group(1), (1 if mm.group(1).startswith("Add") else -1)
        seen_variants.add(variant)
        try:
            tree = terms.parse(sh)
            if not (tree[0] == "app" and tree[1] == "TimeDelta::days" and len(tree[2]) == 1):
                raise terms.TermError("the shift is not TimeDelta::days(expr)")
            expr = tree[2][0]
            bad = None
            for w in range(7):
                for tg in range(7):
                    def val(n):
                        if n[0] == "app" and n[1].endswith("::weekday") and len(n[2]) == 1:
                            return w
                        if n[0] == "var" and re.search(r"wday_offset@(Next|Prev)\.0$", n[1]):
                            return tg
                        if n[0] == "var" and re.fullmatch(r"Weekday::(\w+)\{\}", n[1]):
                            return WD.index(re.fullmatch(r"Weekday::(\w+)\{\}", n[1]).group(1))
                        return None

                    def leaf(n):
                        if n[0] == "app" and n[1].split("::")[-1] == "days_since" and len(n[2]) == 2:
                            a, b = val(n[2][0]), val(n[2][1])
                            if a is None or b is None:
                                raise terms.TermError("days_since of %r" % (n[2],))
                            return (a - b) % 7
                        if n[0] == "app" and n[1].split("::")[-1] in ("num_days_from_monday",) and len(n[2]) == 1 and val(n[2][0]) is not None:
                            return val(n[2][0])
                        return None
                    d = terms.evaluate(expr, leaf)
                    ok = 0 <= d <= 6 and (w + direction * d) % 7 == tg
                    if not ok and bad is None:
                        bad = (WD[w], WD[tg], d)
            right_dir = (variant == "Next") == (direction == 1)
            if not right_dir:
                msg = "moves %s" % ("forward" if direction == 1 else "backward")
            elif bad is not None:
                msg = "a %s shifted to the %s %s moves by %d day(s) (expected the nearest such weekday, 0..6 days away): %s" % (bad[0], "next" if variant == "Next" else "previous", bad[1], bad[2], sh)
            else:
                msg = ""
            r7.check(bad is None and right_dir, {"offset": "+wd" if variant == "Next" else "-wd", "moves": "forward" if direction == 1 else "backward", "by": sh[:200], "evaluated_pairs": 49}, "C01.R7:%s" % variant,
                     "DateOffset::apply for `%swd`: %s" % ("+" if variant == "Next" else "-", msg), lib.where_of(ap, t))
        except terms.TermError as e:
            r7.fail("C01.R7:%s:unmodelled" % variant, "the weekday shift of DateOffset::apply is computed by an expression outside the modelled arithmetic (%s): %s" % (e, sh), lib.where_of(ap, t))
    r7.check(seen_variants == {"Next", "Prev"}, {"variants_with_a_shift": sorted(seen_variants)}, "C01.R7:variants", "DateOffset::apply shifts the date for %s (expected Next and Prev)" % sorted(seen_variants), lib.where_of(ap))
    r7.floor(3)
    rule_r8(prog, res)
    rule_r9(prog, res)
    rule_r10(prog, res)
    rule_r11(prog, res)
    rule_r12(ctx, prog, res)
    rule_r13(prog, res)
    rule_r14(ctx, prog, res)
    rule_r15(ctx, prog, res)
    rule_r16(prog, res)
    rule_r17(ctx, prog, res)
    rule_r18(prog, res)
    rule_r19(ctx, prog, res)


def _or_roots(f, op, names, depth=0):
    """Named locals a boolean is the disjunction of: `a || b` is lowered to `if a { true } else { b }`."""
    pl = lib.operand_place(op)
    if pl is None or pl["p"] or depth > 6:
        return None
    l = pl["l"]
    if names.get(l):
        return {names[l]}
    defs = [(bb, n) for bb, n in f.defs_of(l) if n["k"] == "assign"]
    if len(defs) == 1 and defs[0][1]["rv"]["k"] == "use":
        return _or_roots(f, defs[0][1]["rv"]["op"], names, depth + 1)
    if len(defs) == 2:
        consts = [(bb, n) for bb, n in defs if n["rv"]["k"] == "use" and n["rv"]["op"].get("k") == "const" and n["rv"]["op"].get("bool") is True]
        others = [(bb, n) for bb, n in defs if (bb, n) not in consts]
        if len(consts) == 1 and len(others) == 1 and others[0][1]["rv"]["k"] == "use":
            # the switch that decides between the two definitions
            for sbb, _ in f.live_blocks():
                t = f.blocks[sbb]["term"]
                if t["k"] != "switch":
                    continue
                tg = dict(t["targets"])
                if 0 not in tg:
                    continue
                true_bb, false_bb = t["otherwise"], tg[0]
                if f.dominates(true_bb, consts[0][0]) and f.dominates(false_bb, others[0][0]) and not f.dominates(true_bb, others[0][0]):
                    a = _or_roots(f, t["op"], names, depth + 1)
                    b = _or_roots(f, others[0][1]["rv"]["op"], names, depth + 1)
                    if a is not None and b is not None:
                        return a | b
    return None


def rule_r9(prog, res):
    r9 = res.rule("C01.R9", "a day stays covered once a rule applied to it (fallback rules apply only on days nothing else covered): while the rules of an expression are folded for one day, the 'some rule matched' flag becomes `this rule matches || an earlier rule matched` in the arms of normal and additional rules; the fallback arm keeps the earlier flag when it keeps the earlier schedule and takes this rule's otherwise")
    f = prog.require_fn("opening_hours::opening_hours::OpeningHours::<L>::schedule_at")
    names = {i: l.get("name") for i, l in enumerate(f.locals) if l.get("name") in ("prev_match", "curr_match")}
    if set(names.values()) != {"prev_match", "curr_match"}:
        # the flags are recognised by role, not by name: the loop-carried bool initialised to false, and the result of DaySelector::filter
        names = {}
        for i, l in enumerate(f.locals):
            if l["ty"] != "bool":
                continue
            defs = [n for _, n in f.defs_of(i)]
            if any(n["k"] == "call" and n["callee"].get("name") == "filter" for n in defs):
                names[i] = "curr_match"
            elif len(defs) == 2 and any(n["k"] == "assign" and n["rv"]["k"] == "use" and n["rv"]["op"].get("bool") is False for n in defs):
                names[i] = "prev_match"
    pairs = []
    for bb, b in f.live_blocks():
        for st in b["stmts"]:
            if st["k"] == "assign" and st["rv"]["k"] == "agg" and st["rv"].get("ak") == "tuple" and len(st["rv"]["ops"]) == 2 and f.locals[st["dst"]["l"]]["ty"].startswith("(bool, core::option::Option<opening_hours::schedule::Schedule>"):
                pairs.append((st, _or_roots(f, st["rv"]["ops"][0], names)))
    got = sorted(["+".join(sorted(x)) if x else "?" for _, x in pairs])
    want = sorted(["curr_match+prev_match", "curr_match+prev_match", "prev_match", "curr_match"])
    # the fallback arm may apply the fallback rule on several branches (e.g. with / without a spill to keep): each takes this rule's flag
    ok9 = got.count("curr_match+prev_match") == 2 and got.count("prev_match") == 1 and got.count("curr_match") >= 1 and len(got) == 3 + got.count("curr_match")
    r9.check(ok9, {"fn": f.id, "matched_flag_per_arm": got}, "C01.R9:flag",
             "schedule_at updates the 'some rule matched this day' flag with %s (expected: `curr || prev` for normal and additional rules, prev / curr in the two fallback cases): a day covered by an earlier rule can be taken over by a fallback rule" % got, lib.where_of(f))
    r9.floor(1)


def rule_r8(prog, res):
    r8 = res.rule("C01.R8", "wrapping ranges (`Oct-Mar`, `week 51-02`, `Fr-Mo`) include both ends: the wrapping membership test of an inclusive range only uses inclusive comparisons with its bounds (`<=`, `>=`, RangeInclusive / RangeFrom / RangeToInclusive::contains), never a strict comparison or a half-open range")
    fs = [f for f in prog.fns.values() if f.crate == lib.OH and f.name == "wrapping_contains" and f.impl and "RangeInclusive" in (f.impl.get("self") or "")]
    if len(fs) != 1:
        r8.anchor_missing("WrappingRange::wrapping_contains for RangeInclusive<T>")
        return
    f = fs[0]
    n = 0
    for _, t in f.calls():
        nm = flow.call_name(t)
        pa = t["callee"].get("path_args") or nm
        shs = [flow.shape(f, a, depth=5) for a in t["args"]]
        if re.search(r"PartialOrd.*::(lt|gt|le|ge)$", nm):
            n += 1
            strict = nm.endswith("::lt") or nm.endswith("::gt")
            r8.check(not strict, {"comparison": nm.split("::")[-1], "operands": shs}, "C01.R8:cmp:%s" % nm.split("::")[-1], "wrapping_contains compares a bound strictly (%s %s): an end of the range is excluded" % (nm.split("::")[-1], shs), lib.where_of(f, t))
        elif re.search(r"core::ops::range::(\w+)::<.*>::contains$|core::ops::range::(\w+)::<Idx>::contains$", nm) or nm.endswith("::contains"):
            n += 1
            kind = re.search(r"range::(\w+)", pa)
            kind = kind.group(1) if kind else "?"
            r8.check(kind in ("RangeInclusive", "RangeFrom", "RangeToInclusive"), {"membership": kind + "::contains"}, "C01.R8:contains:%s" % kind,
                     "wrapping_contains tests membership in a half-open %s: an end of the range is excluded" % kind, lib.where_of(f, t))
    r8.check(n >= 3, {"comparisons_and_membership_tests": n}, "C01.R8:FLOOR", "FLOOR: wrapping_contains has %d comparisons (expected the order test and two bounds)" % n, lib.where_of(f))


def rule_r10(prog, res):
    r10 = res.rule("C01.R10", "impossible days (`Apr 31`, `Feb 30`, `Feb 29` out of leap years) are moved forward when they start a dated range and backward when they end it, so the two can cross: wherever a start clamped forward and an end clamped backward are produced, they are produced together and compared with each other before they are handed to the pairing of bounds (a crossed pair must not be read as a range wrapping over the new year)")
    fwd, bwd = [], []
    for fid, fn in prog.fns.items():
        if fn.crate != lib.OH:
            continue
        for bb, t in fn.calls():
            shs = [flow.shape(fn, a, depth=4) for a in t["args"]]
            if any(x.endswith("valid_ymd_after") and x.startswith("fn:") for x in shs):
                fwd.append((fn, t))
            if any(x.endswith("valid_ymd_before") and x.startswith("fn:") for x in shs):
                bwd.append((fn, t))
    if not fwd and not bwd:
        r10.anchor_missing("clamping of impossible days (valid_ymd_after / valid_ymd_before handed to date_on_year)")
        return
    DATE = "chrono::naive::date::NaiveDate"
    for kind, sites, others in (("forward", fwd, bwd), ("backward", bwd, fwd)):
        for fn, t in sites:
            # an ordering comparison of dates, one operand coming from a forward clamp and the other from a backward one
            ok = False
            pairs = [(c["a"], c["b"]) for _, c in flow.comparisons(fn) if c["op"] in ("Lt", "Le", "Gt", "Ge")]
            # `a.cmp(&b)`, `a.partial_cmp(&b)`, `min(a, b)`, `max(a, b)` order their operands as well
            pairs += [(u["args"][0], u["args"][1]) for _, u in fn.calls() if len(u["args"]) == 2 and re.search(r"(Ord::cmp|PartialOrd::partial_cmp|cmp::min|cmp::max|Ord::min|Ord::max)$", flow.call_name(u) or "")]
            for a, b in pairs:
                sa, sb = flow.shape(fn, a, depth=6), flow.shape(fn, b, depth=6)
                for x, y in ((sa, sb), (sb, sa)):
                    if "valid_ymd_after" in x and "valid_ymd_before" not in x and "valid_ymd_before" in y and "valid_ymd_after" not in y:
                        ok = True
            r10.check(ok, {"fn": fn.id.split("::")[-1], "clamp": kind, "compared_with_opposite_clamp": True}, "C01.R10:%s:%s" % (kind, fn.module),
                      "%s clamps an impossible day %s and hands the result on without comparing it with the bound clamped the other way: for a range made of impossible days only (`Apr 31`, `Feb 30-31`, `Feb 29-30` out of leap years) the start lands after the end, and the pairing of bounds reads that as a range wrapping over the new year - open (nearly) all year" % (fn.id, kind), lib.where_of(fn, t))
    r10.floor(2)


def rule_r11(prog, res):
    r11 = res.rule("C01.R11", "time spans passing midnight continue on the following day: where two optional schedules of one day (what earlier rules gave / what this rule gives today / what it spills from yesterday) are merged with `Option::or` (the first wins, the second is dropped), the case where both exist is overlaid with Schedule::addition in a sibling branch - a spill is never dropped because something else exists that day")
    SCHED = "opening_hours::schedule::Schedule"
    roots = [f for f in (prog.fns.get("opening_hours::opening_hours::OpeningHours::<L>::schedule_at"), prog.fns.get("opening_hours::opening_hours::rule_sequence_schedule_at")) if f]
    if len(roots) != 2:
        r11.anchor_missing("schedule_at / rule_sequence_schedule_at")
        return
    n = 0
    for fn in roots:
        for fid in prog.with_closures(fn.id):
            f = prog.fns[fid]
            def src(op):
                """The place an operand was loaded from, through single-definition copies."""
                pl = lib.operand_place(op)
                seen = set()
                while pl is not None and not pl["p"] and pl["l"] not in seen:
                    seen.add(pl["l"])
                    defs = f.defs_of(pl["l"])
                    if len(defs) != 1 or defs[0][1]["k"] != "assign" or defs[0][1]["rv"]["k"] != "use":
                        break
                    nxt = lib.operand_place(defs[0][1]["rv"]["op"])
                    if nxt is None:
                        break
                    pl = nxt
                return pl

            def key(pl):
                return None if pl is None else (pl["l"], json.dumps(pl["p"], sort_keys=True))

            def payload_of(pl):
                """`(X as Some).0` -> X"""
                if pl is None or len(pl["p"]) < 2:
                    return None
                dc, fld = pl["p"][-2], pl["p"][-1]
                if isinstance(dc, dict) and dc.get("dc") == "Some" and isinstance(fld, dict) and fld.get("f") == 0:
                    return {"l": pl["l"], "p": pl["p"][:-2]}
                return None

            adds = [(key(payload_of(src(t["args"][0]))), key(payload_of(src(t["args"][1])))) for _, t in f.calls() if flow.call_name(t).endswith("Schedule::addition") and len(t["args"]) == 2]
            for _, t in f.calls():
                cal = t.get("callee") or {}
                if cal.get("name") not in ("or", "or_else", "xor") or SCHED not in (cal.get("self_ty") or "") or "Option" not in (cal.get("self_ty") or ""):
                    continue
                n += 1
                a, b = flow.shape(f, t["args"][0], depth=4), flow.shape(f, t["args"][1], depth=4)
                ka, kb = key(src(t["args"][0])), key(src(t["args"][1]))
                ok = ka is not None and kb is not None and (ka, kb) in adds
                r11.check(ok, {"fn": f.id.split("::")[-1], "or_of": [a[-60:], b[-60:]], "both_present_overlaid_by": "Schedule::addition"}, "C01.R11:%s:%s" % (f.id.split("::")[-1], b[-80:]),
                          "%s merges two optional schedules of a day with `%s` and no sibling branch overlays them when both exist: the second one (a spill from yesterday, or this rule's own contribution) is dropped whenever the first exists - e.g. `Su 10:00-12:00; Sa 22:00-02:00` is closed on Sunday 01:00" % (f.id, cal.get("name")), lib.where_of(f, t))
    # (b) in the fold over the rules of a day, `this rule's schedule alone` (what earlier rules gave is dropped,
    #     spills from yesterday included) is only chosen where this rule applies today or an earlier rule did
    sa = roots[0]
    prev_match = [l for l, loc in enumerate(sa.locals) if loc["ty"] == "bool" and len(sa.defs_of(l)) == 2
                  and any(n["k"] == "assign" and n["rv"]["k"] == "use" and n["rv"]["op"].get("k") == "const" and n["rv"]["op"].get("int") == 0 for _, n in sa.defs_of(l))
                  and any(n["k"] == "assign" and n["rv"]["k"] == "use" and lib.operand_place(n["rv"]["op"]) is not None for _, n in sa.defs_of(l))]

    def root_local(op):
        pl = lib.operand_place(op)
        seen = set()
        while pl is not None and not pl["p"] and pl["l"] not in seen:
            seen.add(pl["l"])
            if pl["l"] in prev_match:
                return pl["l"]
            defs = sa.defs_of(pl["l"])
            if len(defs) != 1 or defs[0][1]["k"] != "assign" or defs[0][1]["rv"]["k"] != "use":
                break
            pl = lib.operand_place(defs[0][1]["rv"]["op"])
        return pl["l"] if pl is not None and not pl["p"] else None

    n_alone = 0
    for bb, b in sa.live_blocks():
        for st in b["stmts"]:
            if not (st["k"] == "assign" and st["rv"]["k"] == "agg" and st["rv"].get("ak") == "tuple" and len(st["rv"]["ops"]) == 2):
                continue
            tys = [sa.locals[lib.operand_place(o)["l"]]["ty"] if lib.operand_place(o) is not None and not lib.operand_place(o)["p"] else o.get("ty") for o in st["rv"]["ops"]]
            if tys[0] != "bool" or "Schedule" not in str(tys[1]):
                continue
            ev_sh = flow.shape(sa, st["rv"]["ops"][1], depth=3)
            if not re.fullmatch(r"opening_hours::rule_sequence_schedule_at\(.*\)", ev_sh) or ev_sh.startswith("alt("):
                continue
            n_alone += 1
            justified = None
            cur = sa.blocks[bb]["idom"]
            while cur is not None and justified is None:
                tt = sa.blocks[cur]["term"]
                if tt["k"] == "switch":
                    succs = set(sa.succs(cur))
                    doms = [x for x in succs if sa.dominates(x, bb)]
                    if len(doms) == 1 and len(succs) > 1:
                        zero = dict(tt["targets"]).get(0)
                        true_edge = doms[0] != zero
                        sh = flow.shape(sa, tt["op"], depth=3)
                        if true_edge and "::filter(" in sh and "day_selector" in sh and not sh.startswith("alt("):
                            justified = "this rule applies today"
                        elif true_edge and root_local(tt["op"]) in prev_match:
                            justified = "an earlier rule applied today"
                cur = sa.blocks[cur]["idom"]
            r11.check(justified is not None, {"fn": "schedule_at", "this_rule_alone_chosen_when": justified}, "C01.R11:alone",
                      "schedule_at lets a rule's own schedule replace what earlier rules gave on a path where neither this rule nor an earlier one applies today: what earlier rules gave can then only be their spill from yesterday, and it is dropped - e.g. `Fr 22:00-02:00 || unknown` is unknown, not open, on Saturday 01:00", lib.where_of(sa, st))
    n_add = sum(1 for fn in roots for fid in prog.with_closures(fn.id) for _, t in prog.fns[fid].calls() if flow.call_name(t).endswith("Schedule::addition"))
    r11.check(n_add >= 2, {"first_wins_merges": n, "overlays": n_add}, "C01.R11:FLOOR", "FLOOR: %d overlays (Schedule::addition) of day schedules found in the day evaluation (expected the rule fold and today/yesterday)" % n_add)


def rule_r12(ctx, prog, res):
    r12 = res.rule("C01.R12", "weekday selectors (`Mo-Fr`, `Fr-Mo`, `Mo[1]`, `Su[-1]`, `Mo[1] +1 day`): a day matches iff the day `offset` days before it has a weekday inside the (wrapping, inclusive) range and is the selected n-th such weekday of its month from the start or from the end. WeekDayRange::filter (with wrapping_contains and count_days_in_month) is extracted per path from MIR and evaluated against this reading for all 49 ranges, offsets -1..=2, 12 position tables (all, each single position from the start / from the end, first+last) and every day of a 28-, 29-, 30- and 31-day month (exhaustive in the range and the day; small scope in offsets and tables)")
    import peval
    WD = "opening_hours_syntax::rules::day::WeekDayRange"
    filt = prog.impl_method_one("DateFilter", "filter", self_adt=WD)
    ev = peval.Evaluator(prog)
    thorough = ctx.tier == "thorough"
    T, F = [True] * 5, [False] * 5
    one = lambda i: [j == i for j in range(5)]
    masks = [(T, T)] + [(one(i), F) for i in range(5)] + [(F, one(i)) for i in range(5)] + [(one(0), one(0))]
    wds = range(7) if thorough else (0, 2, 4, 6)
    offsets = (-1, 0, 1, 2) if thorough else (0, 1)
    months = ((2020, 2), (2021, 2), (2021, 4), (2021, 5), (2100, 2)) + (((1900, 2), (2000, 2), (9999, 12)) if thorough else ())
    days = [(y, m, d) for (y, m) in months for d in range(1, peval.days_in_month(y, m) + 1)]
    NAMES = ["Mo", "Tu", "We", "Th", "Fr", "Sa", "Su"]
    n = 0
    bad = None
    try:
        for s in wds:
            for e in wds:
                for off in offsets:
                    for a, b in masks:
                        sel = ("enum", "Fixed", {"range": ("range", s, e), "offset": off, "nth_from_start": a, "nth_from_end": b})
                        for date in days:
                            n += 1
                            got = bool(ev.run(filt, [sel, date, None]))
                            d2 = peval.from_ordinal(peval.ordinal(date) - off)
                            wd = peval.weekday(d2)
                            in_range = s <= wd <= e if s <= e else (wd >= s or wd <= e)
                            want = in_range and (a[(d2[2] - 1) // 7] or b[(peval.days_in_month(d2[0], d2[1]) - d2[2]) // 7])
                            if got != want and bad is None:
                                bad = (s, e, off, a, b, date, got, want)
    except peval.Unmodelled as ex:
        r12.fail("C01.R12:unmodelled", "WeekDayRange::filter cannot be evaluated from its MIR any more (%s): not decided, failing closed" % ex, lib.where_of(filt))
        return
    msg = ""
    if bad:
        s, e, off, a, b, date, got, want = bad
        pos = "" if (a, b) == (T, T) else "[%s]" % ",".join([str(i + 1) for i in range(5) if a[i]] + [str(-(i + 1)) for i in range(5) if b[i]])
        msg = "`%s%s%s%s` on %04d-%02d-%02d (a %s): the filter says %s, the documented reading says %s" % (
            NAMES[s], "" if s == e else "-" + NAMES[e], pos, "" if off == 0 else " %+d day" % off, *date, NAMES[peval.weekday(date)], got, want)
    # the month length the positions from the end are counted from
    cdm = [f for k, f in prog.fns.items() if k.endswith("utils::dates::count_days_in_month")]
    if len(cdm) == 1:
        wrong = None
        try:
            for y in (1900, 1999, 2000, 2023, 2024, 2100, 9999):
                for m in range(1, 13):
                    for d in (1, 28):
                        got = ev.run(cdm[0], [(y, m, d)])
                        if got != peval.days_in_month(y, m) and wrong is None:
                            wrong = (y, m, got)
        except peval.Unmodelled as ex:
            r12.fail("C01.R12:unmodelled-month-length", "count_days_in_month cannot be evaluated from its MIR any more (%s): not decided, failing closed" % ex, lib.where_of(cdm[0]))
            wrong = False
        if wrong is not False:
            r12.check(wrong is None, {"fn": "count_days_in_month", "months": 84, "years": [1900, 1999, 2000, 2023, 2024, 2100, 9999]}, "C01.R12:month-length",
                      "" if wrong is None else "count_days_in_month gives %s days to %04d-%02d (Gregorian calendar: %d): positions counted from the end of the month (`Mo[-1]`) are off" % (wrong[2], wrong[0], wrong[1], peval.days_in_month(wrong[0], wrong[1])), lib.where_of(cdm[0]))
    else:
        r12.anchor_missing("utils::dates::count_days_in_month")
    r12.check(bad is None, {"ranges": len(list(wds)) ** 2, "offsets": list(offsets), "position_tables": len(masks), "days": len(days), "evaluations": n}, "C01.R12:weekday", msg, lib.where_of(filt))
    r12.floor(2)


def rule_r13(prog, res):
    r13 = res.rule("C01.R13", "dated ranges are projected on the years around the evaluated day before their offsets are applied, and an offset (`Jan 1 -1 day`, `Dec 31 +Su`) moves a bound across the new year in either direction: every window of candidate years of MonthdayRange's filter and hint starts at the evaluated year - 1 or earlier and ends at the evaluated year + 1 or later")
    import terms
    n = 0
    for nm in ("filter", "next_change_hint"):
        fn = prog.impl_method_one("DateFilter", nm, self_adt="opening_hours_syntax::rules::day::MonthdayRange")
        for bb, t in fn.calls():
            cn = flow.call_name(t) or ""
            if not (cn.endswith("::new") and "RangeInclusive" in cn and len(t["args"]) == 2):
                continue
            lo, hi = (flow.shape(fn, a, depth=5) for a in t["args"])
            if "::year(p2)" not in lo:
                continue
            n += 1
            try:
                llo = terms.linear(terms.parse(lo))
                lhi = terms.linear(terms.parse(hi)) if "::year(p2)" in hi else None
            except terms.TermError:
                llo = lhi = None
            ylo = [k for k in (llo or {}) if k != 1]
            ok_lo = llo is not None and len(ylo) == 1 and llo[ylo[0]] == 1 and llo.get(1, 0) <= -1
            if "::year(p2)" in hi:
                yhi = [k for k in (lhi or {}) if k != 1]
                ok_hi = lhi is not None and len(yhi) == 1 and lhi[yhi[0]] == 1 and lhi.get(1, 0) >= 1
            else:
                ok_hi = "DATE_END" in hi  # up to the end of the supported range
            r13.check(ok_lo and ok_hi, {"fn": nm, "years": "%s ..= %s" % (lo, hi)}, "C01.R13:%s:window" % nm,
                      "MonthdayRange::%s projects a dated range on the years %s ..= %s only: a bound that its offset moves across the new year (`Jan 1 -1 day` on Dec 31, `Dec 31 +1 day` on Jan 1) belongs to a year outside the window and is lost" % (nm, lo, hi), lib.where_of(fn, t))
    r13.floor(6)


def rule_r14(ctx, prog, res):
    r14 = res.rule("C01.R14", "week selectors (`week 10-20`, `week 1-53/2`, `week 51-02`): a day matches iff its ISO week number lies in the inclusive (possibly wrapping) range and, for a range written in order, is a whole number of steps after its first week. WeekRange::filter is extracted per path from MIR (peval, ISO weeks modelled) and evaluated against this reading on every day from 2020-12-21 to 2021-01-10 (weeks 52, 53 and 1 around a 53-week year) and one day of every other week of 2021, for week ranges over {1, 2, 10, 26, 51, 52, 53} (thorough: all 53 x 53) and steps 1, 2, 3; wrapping ranges are only compared for step 1 (the meaning of a step after the wrap is not documented)")
    import peval
    WR = "opening_hours_syntax::rules::day::WeekRange"
    filt = prog.impl_method_one("DateFilter", "filter", self_adt=WR)
    ev = peval.Evaluator(prog)
    thorough = ctx.tier == "thorough"
    weeks = range(1, 54) if thorough else (1, 2, 10, 26, 51, 52, 53)
    steps = (1, 2) if thorough else (1, 2, 3)
    days = []
    d = (2020, 12, 21)
    while d <= (2021, 1, 10):
        days.append(d)
        d = peval.succ(d)
    d = (2021, 1, 13)
    while d < (2022, 1, 1):
        days.append(d)
        d = peval.from_ordinal(peval.ordinal(d) + 7)
    seen_weeks = {peval.iso_week(x)[1] for x in days}
    n = 0
    bad = None
    try:
        for s in weeks:
            for e in weeks:
                for k in steps:
                    if s > e and k != 1:
                        continue
                    sel = {"range": ("range", s, e), "step": k}
                    for date in days:
                        n += 1
                        got = bool(ev.run(filt, [sel, date, None]))
                        w = peval.iso_week(date)[1]
                        want = (s <= w <= e and (w - s) % k == 0) if s <= e else (w >= s or w <= e)
                        if got != want and bad is None:
                            bad = (s, e, k, date, w, got, want)
    except peval.Unmodelled as ex:
        r14.fail("C01.R14:unmodelled", "WeekRange::filter cannot be evaluated from its MIR any more (%s): not decided, failing closed" % ex, lib.where_of(filt))
        return
    msg = ""
    if bad:
        s, e, k, date, w, got, want = bad
        msg = "`week %02d-%02d%s` on %04d-%02d-%02d (ISO week %d): the filter says %s, the documented reading says %s" % (s, e, "/%d" % k if k != 1 else "", *date, w, got, want)
    r14.check(bad is None, {"week_ranges": len(list(weeks)) ** 2, "steps": list(steps), "days": len(days), "iso_weeks_covered": len(seen_weeks), "evaluations": n}, "C01.R14:week", msg, lib.where_of(filt))
    r14.check(len(seen_weeks) == 53, {"iso_weeks_covered": len(seen_weeks)}, "C01.R14:FLOOR", "FLOOR: the evaluated days cover %d ISO weeks, expected all 53" % len(seen_weeks))


def rule_r15(ctx, prog, res):
    r15 = res.rule("C01.R15", "Easter: utils::dates::easter(year) is Gregorian Easter Sunday for every supported year - the function is extracted per path from MIR (peval) and evaluated for every year 1900..=9999 (quick tier: 1900..=2400 and every 37th year after) against an independent formulation (Oudin's algorithm), and the result is a Sunday between Mar 22 and Apr 25")
    import peval
    fs = [f for k, f in prog.fns.items() if k.endswith("utils::dates::easter")]
    if len(fs) != 1:
        r15.anchor_missing("utils::dates::easter")
        return
    ev = peval.Evaluator(prog)
    thorough = ctx.tier == "thorough"
    years = list(range(1900, 10000)) if thorough else list(range(1900, 2401)) + list(range(2401, 10000, 37)) + [9999]
    bad = None
    try:
        for y in years:
            got = ev.run(fs[0], [y])
            g = y % 19
            c = y // 100
            h = (c - c // 4 - (8 * c + 13) // 25 + 19 * g + 15) % 30
            i = h - (h // 28) * (1 - (29 // (h + 1)) * ((21 - g) // 11))
            j = (y + y // 4 + i + 2 - c + c // 4) % 7
            l = i - j
            month = 3 + (l + 40) // 44
            day = l + 28 - 31 * (month // 4)
            want = (y, month, day)
            gd = got[1] if got is not None else None
            if (gd != want or peval.weekday(want) != 6 or not ((3, 22) <= want[1:] <= (4, 25))) and bad is None:
                bad = (y, gd, want)
    except peval.Unmodelled as ex:
        r15.fail("C01.R15:unmodelled", "easter cannot be evaluated from its MIR any more (%s): not decided, failing closed" % ex, lib.where_of(fs[0]))
        return
    r15.check(bad is None, {"fn": "easter", "years": len(years)}, "C01.R15:easter", "" if bad is None else "easter(%d) = %r, Easter Sunday is %04d-%02d-%02d" % (bad[0], bad[1], *bad[2]), lib.where_of(fs[0]))
    r15.floor(1)


def rule_r16(prog, res):
    r16 = res.rule("C01.R16", "how the rules of a day combine, as a decision table over (operator, kind) read off the branch conditions of the fold in schedule_at: a normal rule that opens or is unknown replaces what earlier rules gave on the days it applies; additional rules and normal closed rules overlay; fallback rules only fall back - the table of the property statement")
    import pathterms
    import terms
    sa = prog.require_fn("opening_hours::opening_hours::OpeningHours::<L>::schedule_at")
    OPS = prog.adts["opening_hours_syntax::rules::RuleOperator"]
    KINDS = prog.adts["opening_hours_syntax::rules::RuleKind"]
    opn = dict(zip(OPS["discrs"] or range(3), [v["name"] for v in OPS["variants"]]))
    kdn = dict(zip(KINDS["discrs"] or range(3), [v["name"] for v in KINDS["variants"]]))

    def tys_of(st):
        return [sa.locals[lib.operand_place(o)["l"]]["ty"] if lib.operand_place(o) is not None and not lib.operand_place(o)["p"] else o.get("ty") for o in st["rv"]["ops"]]
    M = None
    results = []
    for bb, b in sa.live_blocks():
        for st in b["stmts"]:
            if st["k"] == "assign" and st["rv"]["k"] == "agg" and st["rv"].get("ak") == "tuple" and len(st["rv"]["ops"]) == 2:
                t = tys_of(st)
                if "RuleOperator" in str(t[0]) and "RuleKind" in str(t[1]):
                    M = bb
                elif t[0] == "bool" and "Schedule" in str(t[1]):
                    results.append((bb, st))
    if M is None or len(results) < 3:
        r16.anchor_missing("the match on (operator, kind) and its result tuples in schedule_at")
        return
    table = {}
    for bb, st in results:
        ev_sh = flow.shape(sa, st["rv"]["ops"][1], depth=3)
        try:
            t = terms.parse(ev_sh)
        except terms.TermError:
            t = None
        alts = list(t[2]) if t is not None and t[0] == "app" and t[1] == "alt" else [t]
        bare_curr = any(a is not None and a[0] == "app" and a[1].endswith("rule_sequence_schedule_at") for a in alts)
        for path in pathterms.acyclic_paths(sa, bb, start=M):
            ops_ok, kinds_ok = set(opn), set(kdn)
            for _, op, taken, excl in pathterms.conditions(sa, path):
                sh = flow.shape(sa, op, depth=3)
                if re.fullmatch(r"discr\(.*\.operator\)", sh):
                    ops_ok &= set(taken) if taken is not None else set(opn) - set(excl or [])
                elif re.fullmatch(r"discr\(.*\.kind\)", sh):
                    kinds_ok &= set(taken) if taken is not None else set(kdn) - set(excl or [])
            for o in ops_ok:
                for k in kinds_ok:
                    if opn[o] == "Fallback":
                        mode = "fallback"
                    elif bare_curr:
                        mode = "replace"
                    elif "Schedule::addition" in ev_sh:
                        mode = "overlay"
                    else:
                        mode = "? " + ev_sh[:60]
                    table.setdefault((opn[o], kdn[k]), set()).add(mode)
    WANT = {("Normal", "Open"): "replace", ("Normal", "Unknown"): "replace", ("Normal", "Closed"): "overlay",
            ("Additional", "Open"): "overlay", ("Additional", "Unknown"): "overlay", ("Additional", "Closed"): "overlay",
            ("Fallback", "Open"): "fallback", ("Fallback", "Unknown"): "fallback", ("Fallback", "Closed"): "fallback"}
    for combo, want in sorted(WANT.items()):
        got = sorted(table.get(combo, []))
        r16.check(got == [want], {"operator": combo[0], "kind": combo[1], "combination": got}, "C01.R16:%s/%s" % combo,
                  "a %s rule of kind %s is combined with what earlier rules gave by %s; the documented semantics say `%s` (a later normal rule replaces earlier rules on the days it applies, additional rules and closed rules overlay, fallback rules only apply on days nothing else covered)" % (combo[0].lower(), combo[1].lower(), got or "nothing", want), lib.where_of(sa))

    # who lies on top: `a.addition(b)` puts b over a. Outside the fallback arm the current rule is overlaid on what the
    # earlier rules gave (later rules win where they apply); in the fallback arm the fallback lies below what earlier
    # rules spill over the day.
    n_add = 0
    for bb, t in sa.calls():
        if not flow.call_name(t).endswith("schedule::Schedule::addition") or len(t["args"]) != 2:
            continue
        is_curr = [re.match(r"(?:\w+::)*rule_sequence_schedule_at\(", flow.shape(sa, a, depth=4)) is not None for a in t["args"]]
        arms = set()
        for path in pathterms.acyclic_paths(sa, bb, start=M):
            ops_ok = set(opn)
            for _, op, taken, excl in pathterms.conditions(sa, path):
                if re.fullmatch(r"discr\(.*\.operator\)", flow.shape(sa, op, depth=3)):
                    ops_ok &= set(taken) if taken is not None else set(opn) - set(excl or [])
            arms |= {opn[o] for o in ops_ok}
        n_add += 1
        if arms == {"Fallback"}:
            ok = is_curr == [True, False]
            want = "the fallback below, what earlier rules spill on top: curr.addition(prev)"
        elif "Fallback" not in arms:
            ok = is_curr == [False, True]
            want = "what earlier rules gave below, the current rule on top: prev.addition(curr)"
        else:
            ok, want = False, "an overlay shared by the fallback arm and another arm cannot have the right order for both"
        r16.check(ok, {"addition_in_block": bb, "arms": sorted(arms), "receiver_is_current_rule": is_curr[0], "argument_is_current_rule": is_curr[1]}, "C01.R16:on-top:%s" % "+".join(sorted(arms)),
                  "schedule_at overlays two day schedules in the arm(s) %s with the operands the wrong way round (expected %s): `a.addition(b)` lets b win wherever both cover a minute, so the spill of a later rule ends up under the earlier rules (or a fallback over them)" % (sorted(arms), want), lib.where_of(sa, t))
    r16.check(n_add >= 3, {"additions_in_schedule_at": n_add}, "C01.R16:FLOOR:additions", "FLOOR: schedule_at has %d overlays, at least 3 were confirmed by hand" % n_add, lib.where_of(sa))


def rule_r17(ctx, prog, res):
    r17 = res.rule("C01.R17", "impossible days are moved to the nearest real day on the stated side and real days are left alone, in every year: valid_ymd_before(y, m, d) is the last day of month m of year y that is not after day d, valid_ymd_after(y, m, d) is day d itself or else the first day of the following month. Both helpers (iterator pipelines with a closure) are extracted per path from MIR (peval) and evaluated for every month and day 1..=31 of the years 1899, 1900, 2023, 2024, 2100, 9999 and 10000 - the years around both ends of the supported range included")
    import peval
    fns = {n: prog.fns.get("opening_hours::filter::date_filter::" + n) for n in ("valid_ymd_before", "valid_ymd_after")}
    if None in fns.values():
        r17.anchor_missing("date_filter::valid_ymd_before / valid_ymd_after")
        return
    ev = peval.Evaluator(prog, consts={"DATE_END": peval.DATE_END, "DATE_START": peval.DATE_START})
    bad = {}
    n = 0
    try:
        for y in (1899, 1900, 2023, 2024, 2100, 9999, 10000):
            for m in range(1, 13):
                dim = peval.days_in_month(y, m)
                for d in range(1, 32):
                    n += 2
                    got = ev.run(fns["valid_ymd_before"], [y, m, d])
                    want = (y, m, min(d, dim))
                    if got != want:
                        bad.setdefault("valid_ymd_before", ((y, m, d), got, want))
                    got = ev.run(fns["valid_ymd_after"], [y, m, d])
                    want = (y, m, d) if d <= dim else peval.succ((y, m, dim))
                    if got != want:
                        bad.setdefault("valid_ymd_after", ((y, m, d), got, want))
    except peval.Unmodelled as ex:
        r17.fail("C01.R17:unmodelled", "valid_ymd_before / valid_ymd_after cannot be evaluated from their MIR any more (%s): not decided, failing closed" % ex, lib.where_of(fns["valid_ymd_before"]))
        return
    for nm in ("valid_ymd_before", "valid_ymd_after"):
        b = bad.get(nm)
        r17.check(b is None, {"fn": nm, "evaluations": n // 2}, "C01.R17:%s" % nm, "" if b is None else "%s%r = %r, expected %r: a dated selector is moved to another day (e.g. the 1899 occurrence of `Jun 15` onto 1900-01-01)" % (nm, b[0], b[1], b[2]), lib.where_of(fns[nm]))
    r17.floor(2)


def rule_r18(prog, res):
    r18 = res.rule("C01.R18", "a year is not a number of days: no duration of 365 or 366 days (or 52 / 53 weeks) is built in the evaluation code - a bound moved `one year on` by a day count lands a day early after a Feb 29 (dates move by calendar: with_year, from_ymd_opt, checked_add_months)")
    n = 0
    for fid, fn in sorted(prog.fns.items()):
        if fn.crate not in lib.WS_LIBS or fn.from_expansion:
            continue
        for bb, t in fn.calls():
            nm = flow.call_name(t) or ""
            if not re.search(r"TimeDelta::(try_)?(days|weeks|hours)$|Duration::(try_)?(days|weeks|hours)$|Days::new$", nm):
                continue
            n += 1
            a = t["args"][0] if t["args"] else None
            v = a.get("int") if a is not None and a.get("k") == "const" else None
            if v is None and a is not None:
                cs = [c.get("int") for c in flow.origin_consts(fn, a) if isinstance(c.get("int"), int)]
                v = cs[0] if len(cs) == 1 else None
            unit = nm.split("::")[-1].replace("try_", "")
            yearish = (unit in ("days", "new") and v in (365, 366)) or (unit == "weeks" and v in (52, 53)) or (unit == "hours" and v in (8760, 8784))
            r18.check(not yearish, {"fn": fid.split("::")[-1], "duration": "%s(%s)" % (unit, v if v is not None else "variable")}, "C01.R18:%s:%s" % (fn.module, fid.split("::")[-1].split("{")[0] or "closure"),
                      "%s builds a duration of %s %s to move a date by a year: after a Feb 29 the result is a day early (`2019 Sep 01-Jul 01` ends on 2020-06-30)" % (fid, v, unit), lib.where_of(fn, t))
    r18.floor(5)


def rule_r19(ctx, prog, res):
    r19 = res.rule("C01.R19", "year selectors with their steps, by value: YearRange::filter (extracted per path from MIR with the closures it calls, peval) selects year y exactly when y lies in the range - inclusive at both ends, a range written backwards wrapping over the end of time - and the distance |y - start| is a multiple of the step; evaluated for start and end years over 2000..=2012 in both orders, steps 1, 2, 3, 5, 7 (thorough: every pair of 2000..=2012, steps 1..=9), on the first and last day of every year 1990..=2025")
    import peval
    YRT = "opening_hours_syntax::rules::day::YearRange"
    try:
        filt = prog.impl_method_one("DateFilter", "filter", self_adt=YRT)
    except Exception:
        filt = None
    if filt is None:
        r19.anchor_missing("DateFilter::filter for YearRange")
        return
    ev = peval.Evaluator(prog, consts={"DATE_END": peval.DATE_END, "DATE_START": peval.DATE_START})
    deep = ctx.tier == "thorough"
    ys = list(range(2000, 2013)) if deep else [2000, 2001, 2004, 2009, 2010, 2012]
    steps = list(range(1, 10)) if deep else [1, 2, 3, 5, 7]
    bad = None
    n = 0
    seen = set()
    try:
        for s_ in ys:
            for e_ in ys:
                for k in steps:
                    sel = {"range": ("range", s_, e_), "step": k}
                    for y in range(1990, 2026):
                        inr = (s_ <= y <= e_) if s_ <= e_ else (y >= s_ or y <= e_)
                        want = inr and abs(y - s_) % k == 0
                        for md in ((1, 1), (12, 31)):
                            got = bool(ev.run(filt, [sel, (y,) + md, None]))
                            n += 1
                            seen.add((s_ <= e_, k > 1, want))
                            if got != want and bad is None:
                                bad = (s_, e_, k, (y,) + md, got, want)
    except peval.Unmodelled as ex:
        r19.fail("C01.R19:unmodelled", "YearRange::filter cannot be evaluated from its MIR any more (%s): not decided, failing closed" % ex, lib.where_of(filt))
        return
    r19.check(bad is None, {"fn": "YearRange::filter", "evaluations": n, "ranges": len(ys) ** 2, "steps": steps}, "C01.R19:year-filter",
              "" if bad is None else "`%d-%d%s` on %04d-%02d-%02d: the filter says %s, the documented reading %s (in range and |year - start| a multiple of the step)" % (bad[0], bad[1], "/%d" % bad[2] if bad[2] != 1 else "", *bad[3], bad[4], bad[5]), lib.where_of(filt))
    r19.check(len(seen) == 8, {"cases_exercised": len(seen), "of": 8}, "C01.R19:FLOOR", "FLOOR: the scope exercises %d of the 8 cases (in order / wrapping) x (step 1 / larger) x (selected / not)" % len(seen), lib.where_of(filt))
    r19.floor(2)

