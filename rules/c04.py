"""C04 - totality: no input makes the library panic or run unboundedly.

Decided: panic freedom up to a reviewed inventory (R1) - every potentially panicking site
reachable from the public API is discharged by a machine-checked guard, by a reviewed row
(count + argument), or is a recorded known finding; the AST builder's sites are discharged
exhaustively against the grammar (R2, abstract interpretation, shared with C05.R1); recursion
is bounded: the grammar's rule graph is acyclic and every cycle of the call graph is a reviewed
one with its decreasing measure (R3); third-party callees are summarised by class and the
summaries are pinned to the locked versions (R4).
Not decided: arithmetic-overflow traps (debug builds only; inventory printed), termination of
raw loops, pest's backtracking cost, anything inside opaque dependencies.
"""

import collections
import json
import os
import re

import builder
import common
import flow
import lib
import panics
import peg

REVIEWED_SCCS = [
    (["opening_hours_syntax::sorted_vec::UniqueSortedVec::<T>::union"], "total length of both operands: a pop() dominates the recursive call (C20.R3)", "pop"),
    (["opening_hours::schedule::Schedule::addition"], "length of `other`: other.inner.pop() decides between return and recursion", "pop"),
    (["<opening_hours_syntax::rules::day::WeekDayRange as opening_hours::filter::date_filter::DateFilter>::filter"], "a wrapping weekday range is split into start..=Sun and Mon..=end, which cannot wrap: depth 1 (the recursive calls sit in the `start > end` branch)", "branch"),
    (["<opening_hours_syntax::normalize::paving::Dim<T, U> as opening_hours_syntax::normalize::paving::Paving>::set"], "type-level recursion over the paving's dimensions (U::set): depth 5", "typelevel"),
    (["<opening_hours_syntax::normalize::paving::Dim<T, U> as opening_hours_syntax::normalize::paving::Paving>::is_val"], "type-level recursion over the paving's dimensions: depth 5", "typelevel"),
    (["<opening_hours_syntax::normalize::paving::Dim<T, U> as opening_hours_syntax::normalize::paving::Paving>::pop_filter"], "type-level recursion over the paving's dimensions: depth 5 (plus one call of set on the same paving)", "typelevel"),
    (["<[T] as opening_hours::filter::date_filter::DateFilter>::filter", "<opening_hours_syntax::rules::day::DaySelector as opening_hours::filter::date_filter::DateFilter>::filter"], "class-hierarchy artefact: [T]::filter calls T::filter for the leaf selector types, DaySelector calls [T]::filter on its four lists; the AST has no selector containing a day selector", "typelevel"),
    (["<[T] as opening_hours::filter::date_filter::DateFilter>::next_change_hint", "<opening_hours_syntax::rules::day::DaySelector as opening_hours::filter::date_filter::DateFilter>::next_change_hint"], "same as for filter", "typelevel"),
    (["<opening_hours_syntax::normalize::frame::Frame<T> as core::cmp::Ord>::cmp"], "class-hierarchy artefact: Frame<T>::cmp compares the wrapped T values (T is never a Frame)", "typelevel"),
    (["<core::ops::range::RangeInclusive<T> as opening_hours::utils::range::WrappingRange<T>>::wrapping_contains"], "class-hierarchy artefact: calls RangeInclusive::contains of std, which compares T values", "typelevel"),
    (["<opening_hours_syntax::rules::OpeningHoursExpression as core::fmt::Display>::fmt", "<opening_hours_syntax::rules::RuleSequence as core::fmt::Display>::fmt", "<opening_hours_syntax::rules::day::DaySelector as core::fmt::Display>::fmt",
      "<opening_hours_syntax::rules::time::TimeSelector as core::fmt::Display>::fmt", "opening_hours_syntax::display::write_selector"], "printing descends the AST, whose types are not recursive (checked: the type graph below OpeningHoursExpression is acyclic)", "ast"),
]


def run(ctx, prog, res):
    roots_r = res.rule("C04.R0", "entry points of the public API exist (anchors)")
    roots = common.require_all(prog, common.EVAL_ENTRY + common.PARSE_ENTRY + common.SYNTAX_ENTRY + common.CONTEXT_ENTRY + common.LOCALIZE_IMPLS, roots_r)
    py_roots = [f.id for f in prog.fns.values() if f.crate == lib.PY and not f.from_expansion and f.kind in ("Fn", "AssocFn") and (f.id.startswith("opening_hours_py::PyOpeningHours::") or f.id == "opening_hours_py::validate" or "RangeIterator::__next__" in f.id)]
    roots_r.ok({"entry_points": len(roots), "python_entry_points": len(py_roots)})

    # R1 -------------------------------------------------------------------------------------
    r1 = res.rule("C04.R1", "panic-site inventory: every potentially panicking call or assertion reachable from the public API (outside the AST builder, see R2) is discharged by a machine-checked guard, a reviewed row with an argument, or is a recorded known finding")
    sites, reach, unknown = panics.inventory(prog, roots + py_roots, lib.WS_LIBS + [lib.PY])
    with open(os.path.join(lib.VERIF, "rules", "panic_reviewed.json")) as fh:
        table = {r["key"]: r for r in json.load(fh)["rows"]}
    seen = collections.Counter()
    by_key = collections.defaultdict(list)
    n_guard = 0
    for s in sites:
        if s["fn"].file.endswith("opening-hours-syntax/src/parser.rs"):
            continue
        if panics.const_args_in_range(s["fn"], s["node"]):
            n_guard += 1
            r1.ok({"site": s["fn"].id, "class": s["class"], "discharged_by": "guard: constant in-range arguments"})
            continue
        by_key[s["key"]].append(s)
    known_counts = {k["key"]: k.get("count") for k in lib.load_known_findings() if k["property"] == "C04" and k.get("status") == "known"}
    for key, ss in sorted(by_key.items()):
        row = table.get(key)
        kc = known_counts.get("C04.R1:%s" % key)
        if kc is not None and len(ss) > kc:
            s = ss[-1]
            r1.fail("C04.R1:%s:new-site" % key, "%d sites with the key of a known finding that lists %d: a new potentially panicking site of the same kind (%s in %s)" % (len(ss), kc, s["callee"] or s["class"], s["fn"].id), lib.where_of(s["fn"], s["node"]))
        if row is not None and len(ss) <= row["count"]:
            for s in ss:
                r1.ok({"key": key, "fn": s["fn"].id.split("::")[-1], "discharged_by": "reviewed: " + row["reason"][:90]})
            continue
        s = ss[0]
        chain = " <- ".join(reversed([c.split("::")[-1] for c in s["chain"]]))
        if row is not None:
            r1.fail("C04.R1:%s" % key, "%d sites with key [%s] but only %d reviewed: a new potentially panicking site (%s in %s; reached via %s)" % (len(ss), key, row["count"], s["callee"] or s["class"], s["fn"].id, chain), lib.where_of(ss[-1]["fn"], ss[-1]["node"]))
        else:
            # one obligation per site; the violation is keyed per key so that known findings match exactly
            for s in ss:
                r1.fail("C04.R1:%s" % key, "unreviewed potentially panicking site: %s%s in %s (reached via %s)" % (s["callee"] or s["class"], (" \"%s\"" % s["message"]) if s["message"] else "", s["fn"].id, chain), lib.where_of(s["fn"], s["node"]))
    stale = [k for k in table if k not in by_key]
    res.notes.append("C04.R1: %d sites, %d discharged by guards, %d keys reviewed, %d reviewed rows without a site today (allowed: counts are upper bounds): %s" % (len(sites), n_guard, len(table), len(stale), stale[:3]))
    r1.check(len(reach) >= 600, {"functions_reachable_from_the_api": len(reach)}, "C04.R1:FLOOR-reach", "FLOOR: only %d functions reachable from the entry points" % len(reach))
    r1.floor(90)

    # R2 -------------------------------------------------------------------------------------
    r2 = res.rule("C04.R2", "parse never panics: every expect/unwrap/assert/unexpected_token/index site of the AST builder is unreachable for every child sequence the grammar can produce, and every `as_str().parse().expect()` fits its token language (abstract interpretation over the grammar's child-sequence automata)")
    try:
        a = builder.get(prog)
    except peg.GrammarError as e:
        r2.fail("C04.R2:grammar", "the grammar cannot be analysed: %s" % e)
        a = None
    if a is not None:
        bad_nodes = {id(s.node): s for s in a.violations()}
        reported = set()
        for f, t, cls, msg in a.panic_sites():
            s = bad_nodes.get(id(t))
            if s is None:
                r2.ok({"fn": f.id.replace("opening_hours_syntax::parser::", ""), "site": cls, "message": msg})
            else:
                reported.add(id(t))
                r2.fail("C04.R2:%s:%s:%s" % (f.id, cls, msg), "%s in %s is reachable (%s): %s" % (cls, f.id, s.kind, s.detail), lib.where_of(f, t), s.detail)
        for s in a.violations():
            if id(s.node) not in reported:
                r2.fail("C04.R2:%s:%s:%s" % (s.fn.id, s.what, s.detail.get("message", "")), "%s: %s in %s %s" % (s.kind, s.what, s.fn.id, s.detail), lib.where_of(s.fn, s.node), s.detail)
        for c in a.parse_checks():
            r2.check(not c["bad"], {"builder": c["fn"].split("::")[-1], "token": c["rule"], "parsed_as": c["type"], "max": c["max"]}, "C04.R2:parse:%s:%s:%s" % (c["fn"], c["rule"], c["type"]),
                     "%s unwraps `%s`.parse::<%s>() but the token language does not fit: %s" % (c["fn"], c["rule"], c["type"], c["bad"]), lib.where_of(prog.fns[c["fn"]], c["node"]))
        r2.r["instances"].append({"abstract_states": a.it.states, "builder_activations": a.it.calls})
    r2.floor(120)

    # R3 -------------------------------------------------------------------------------------
    r3 = res.rule("C04.R3", "bounded depth: the grammar's rule graph is acyclic (pest's and the builder's recursion depth are bounded for every input), and every cycle of the call graph reachable from the API is a reviewed one with its decreasing measure")
    if a is not None:
        cyc = a.g.cycles()
        r3.check(not cyc, {"grammar_rules": len(a.g.rules), "rule_graph": "acyclic"}, "C04.R3:grammar-cycle", "the grammar is recursive: %s" % cyc[:2])
    comps, n_reach = lib.call_sccs(prog, roots, lib.WS_LIBS)
    reviewed = {tuple(sorted(c)): (why, kind) for c, why, kind in REVIEWED_SCCS}
    for comp in comps:
        key = tuple(sorted(comp))
        if key not in reviewed:
            r3.fail("C04.R3:cycle:%s" % "+".join(k.split("::")[-1] for k in key), "new recursion cycle reachable from the API: %s" % list(key), lib.where_of(prog.fns[key[0]]))
            continue
        why, kind = reviewed[key]
        ok = True
        if kind == "pop":
            f = prog.fns[key[0]]
            rec = [bb for bb, t in f.calls() if flow.call_name(t) == f.id]
            for x in prog.closures(f.id):
                rec += []
            pops = [bb for bb, t in f.calls() if flow.call_name(t).endswith("::pop")]
            ok = bool(rec) and bool(pops) and all(not flow.reach_avoiding(f, 0, [r], pops) for r in rec)
        r3.check(ok, {"cycle": [k.split("::")[-1] if not k.startswith("<") else k.split(" as ")[0].split("::")[-1] + "::" + k.split("::")[-1] for k in key], "measure": why}, "C04.R3:measure:%s" % key[0],
                 "the decreasing measure of the reviewed cycle %s can no longer be confirmed (%s)" % (key[0], why), lib.where_of(prog.fns[key[0]]))
    # AST type graph acyclic (printing / filtering descend it)
    root = "opening_hours_syntax::rules::OpeningHoursExpression"
    edges = collections.defaultdict(set)
    for aid, adt in prog.adts.items():
        if adt.get("foreign") or adt["crate"] != lib.SYN:
            continue
        for v in adt["variants"]:
            for fld in v["fields"]:
                for other, o in prog.adts.items():
                    if not o.get("foreign") and o["crate"] == lib.SYN and re.search(r"(^|[^\w:])%s($|[^\w])" % re.escape(other), fld["ty"]):
                        edges[aid].add(other)
    color = {}
    cyc = []

    def dfs(n, stack):
        color[n] = 1
        for m in edges.get(n, ()):
            if color.get(m) == 1:
                cyc.append(stack + [m])
            elif m not in color:
                dfs(m, stack + [m])
        color[n] = 2
    dfs(root, [root])
    r3.check(not cyc, {"ast_types_below_expression": len(color), "type_graph": "acyclic"}, "C04.R3:ast-cycle", "the AST became recursive: %s" % cyc[:1])
    r3.floor(10)

    # R4 -------------------------------------------------------------------------------------
    r4 = res.rule("C04.R4", "third-party summaries: the std/chrono may-panic classes are applied to the versions the lock file pins, and no call leaves the set of summarised or opaque-trusted crates")
    r4.check(not unknown, {"crates_called": "all summarised or opaque-trusted"}, "C04.R4:unknown-crate", "calls into crates without a summary: %s" % unknown)
    lock = open(os.path.join(lib.REPO, "Cargo.lock")).read()
    for crate, ver in panics.PINNED.items():
        m = re.search(r'name = "%s"\nversion = "([^"]+)"' % re.escape(crate), lock)
        r4.check(m is not None and m.group(1) == ver, {"crate": crate, "locked": m.group(1) if m else None, "summary_for": ver}, "C04.R4:version:%s" % crate,
                 "the may-panic list was written for %s %s but Cargo.lock pins %s" % (crate, ver, m.group(1) if m else None))
    classes = collections.Counter(s["class"] for s in sites)
    r4.ok({"sites_by_class": dict(classes)})
    res.trusted += ["opaque-trusted crates: sunrise, tzf-rs, country-boundaries, flate2, chrono-tz, pest, log, pyo3", "chrono 0.4.39 `# Panics` documentation (may-panic list in rules/panics.py)"]
    res.assumptions += ["every std/chrono function outside the may-panic classes is total", "arithmetic-overflow traps (debug builds) are not claimed"]

    # R5 -------------------------------------------------------------------------------------
    r5 = res.rule("C04.R5", "machine-checked parts of reviewed arguments: steps used as divisors are never zero (the grammar's positive_number has no zero and the builder's default is 1); the iterator's progress assertion is protected by the hint rules shared with C02 (guarded jump, filter/hint sibling agreement)")
    if a is not None:
        import itertools
        zeros = [z for n in range(1, 5) for z in ("0" * n,)]
        bad = [z for z in zeros if a.g.full_match("positive_number", z)]
        samples = [s for n in range(1, 4) for s in ("".join(t) for t in itertools.product("0123456789", repeat=n)) if a.g.full_match("positive_number", s) and int(s) == 0]
        r5.check(not bad and not samples, {"positive_number": "no all-zero member (checked on all digit strings up to 3 digits and on 0..0000)"}, "C04.R5:zero-step", "the grammar accepts a zero step (%s): the remainder by the step divides by zero in YearRange/WeekRange filters" % ((bad + samples)[:3],))
        for b in ("build_week", "build_year_range"):
            f = prog.require_fn("opening_hours_syntax::parser::" + b)
            dflt = [t["args"][1].get("int") for _, t in f.calls() if flow.call_name(t) == "core::option::Option::<T>::unwrap_or" and "u64" in t["callee"].get("path_args", "")]
            r5.check(dflt == [1], {"builder": b, "default_step": dflt}, "C04.R5:default-step:%s" % b, "%s defaults a missing step to %s" % (b, dflt), lib.where_of(f))
    # the printer's `unwrap` on the first listed position (reviewed row) relies on: the parser never
    # builds a weekday selector with no position selected
    WDR = "opening_hours_syntax::rules::day::WeekDayRange"
    n_aggs = 0
    for f in prog.fns.values():
        if f.crate != lib.SYN or f.module != "opening_hours_syntax::parser" or f.from_expansion:
            continue
        for bb, b in f.live_blocks():
            for st in b["stmts"]:
                if st["k"] != "assign" or st["rv"]["k"] != "agg" or st["rv"].get("adt") != WDR or st["rv"].get("variant") != "Fixed":
                    continue
                n_aggs += 1
                def root(l):
                    """Follow copies / borrows / unsizing casts back to the local that holds the array."""
                    for _ in range(8):
                        ds = [n for _, n in f.defs_of(l) if n["k"] == "assign"]
                        if len(ds) != 1 or ds[0]["rv"]["k"] not in ("use", "ref", "cast"):
                            return l
                        src = ds[0]["rv"].get("pl") or lib.operand_place(ds[0]["rv"].get("op") or {})
                        if src is None or [x for x in src["p"] if x != "*"]:
                            return l
                        l = src["l"]
                    return l
                masks = []
                for fname, o in zip(st["rv"]["fields"], st["rv"]["ops"]):
                    if fname.startswith("nth_from_"):
                        pl = lib.operand_place(o)
                        masks.append(root(pl["l"]) if pl is not None and not pl["p"] else None)
                ok = len(masks) == 2 and None not in masks
                why = "the masks are not plain locals"
                if ok:
                    # contains(&mask, &true) on each mask, dominating the aggregate
                    cs = {}
                    for cbb, t in f.calls():
                        if flow.call_name(t).endswith("<impl [T]>::contains"):
                            rp = lib.operand_place(t["args"][0])
                            tgt = root(rp["l"]) if rp is not None else None
                            needle = flow.shape(f, t["args"][1], depth=4)
                            if tgt in masks and needle in ("1", "true"):
                                cs[tgt] = (cbb, t)
                    resets = [rbb for rbb, rb in f.live_blocks() if {s2["dst"]["l"] for s2 in rb["stmts"] if s2["k"] == "assign" and s2["rv"]["k"] == "repeat" and s2["rv"]["op"].get("bool") is True and not s2["dst"]["p"]} >= set(masks)]
                    ok = set(cs) == set(masks) and len(resets) >= 1
                    why = "no `contains(&true)` test of both masks before the value is built" if set(cs) != set(masks) else "no branch that sets both masks to all positions"
                    if ok:
                        # test 1 dominates the aggregate; test 2 is evaluated exactly when test 1 found no
                        # position; the reset is reached exactly when test 2 found none either
                        edges = {}
                        for m_ in masks:
                            cbb, t = cs[m_]
                            sw = f.blocks[t["t"]]["term"] if t["t"] is not None else None
                            spl = lib.operand_place(sw["op"]) if sw is not None and sw["k"] == "switch" else None
                            if spl is None or spl["l"] != t["dst"]["l"] or spl["p"]:
                                ok, why = False, "the result of `contains` is not branched on directly"
                                break
                            tg = dict(sw["targets"])
                            edges[m_] = (cbb, tg[0] if 0 in tg else sw["otherwise"])
                        if ok:
                            good = False
                            for first, second in ((masks[0], masks[1]), (masks[1], masks[0])):
                                c1, e1 = edges[first]
                                c2, e2 = edges[second]
                                if f.dominates(c1, bb) and f.dominates(e1, c2) and any(f.dominates(e2, r) for r in resets):
                                    good = True
                            ok = good
                            why = "the all-positions reset is not on the branch where neither mask has a position, or the tests do not precede the construction"
                r5.check(ok, {"fn": f.id.split("::")[-1], "guarantee": "a weekday selector built by the parser always has a position selected (both masks empty -> reset to all positions)"}, "C04.R5:nth-nonempty:%s" % f.id,
                         "%s can build a weekday selector with no position selected (%s): Display for WeekDayRange then panics on `weeknum_iter.next().unwrap()`" % (f.id, why), lib.where_of(f, st))
    r5.check(n_aggs >= 1, {"parser_sites_building_WeekDayRange::Fixed": n_aggs}, "C04.R5:nth-nonempty:anchor", "no parser site builds WeekDayRange::Fixed", None)
    import c02
    sub = lib.Result("C04")
    c02.run(ctx, prog, sub)
    for v in sub.violations:
        if v["rule"] in ("C02.R3", "C02.R5"):
            r5.fail(v["key"].replace("C02.", "C04.R5:"), v["message"], v["where"])
    for rid in ("C02.R3", "C02.R5"):
        rr = sub.rules.get(rid)
        if rr:
            for inst in rr["instances"]:
                r5.ok(inst)
    r5.floor(5)

    # R6 -------------------------------------------------------------------------------------
    r6 = res.rule("C04.R6", "8- and 16-bit additions and multiplications of the evaluation and normalization code cannot overflow (a trap in debug builds, a wrapped value in release builds - a wrapped year or week sends the iterator backwards into its progress assertion): for every such checked operation outside ExtendedTime (C19.R2) an upper bound of both operands is computed from the operand expressions (constants, `x % c`, enum discriminants, casts, the reviewed value ranges of AST newtypes) and the result must fit the type")
    import terms
    TYMAX = {"u8": 255, "u16": 65535, "i8": 127, "i16": 32767}
    # value ranges of AST fields / receivers, each with the reason it holds
    RANGES = {
        ("<opening_hours_syntax::rules::day::Year as opening_hours_syntax::normalize::frame::Framable>::succ", "p1.0"): (9999, "years are 1900..=9999 (token language of `year`, C05.R3; FRAME_END)"),
        ("<opening_hours_syntax::rules::day::WeekNum as opening_hours_syntax::normalize::frame::Framable>::pred", "p1"): (53, "week numbers are 1..=53 (token language of `weeknum`, C05.R3; FRAME_END)"),
        ("<opening_hours_syntax::rules::day::WeekNum as opening_hours_syntax::normalize::frame::Framable>::succ", "p1"): (53, "week numbers are 1..=53"),
        ("opening_hours_syntax::parser::build_date_to", "p2@Fixed.year@Some.0"): (9999, "the start date of a range was parsed through the `year` token language, 1900..=9999 (C05.R3)"),
    }

    TRANSPARENT = re.compile(r"(Deref>?::deref|Clone>?::clone|>::from|>::into|::from|::into|Borrow<.*>>::borrow)$")

    def tymax_of(ty):
        ty = (ty or "").replace("&", "").strip()
        if ty in TYMAX:
            return TYMAX[ty]
        r = terms.INT_RANGE.get(ty)
        return r[1] if r else None

    def place_ty(fn, pl):
        fs = [q for q in pl["p"] if isinstance(q, dict) and "f" in q]
        return (fs[-1]["ty"] if fs else fn.locals[pl["l"]]["ty"]) or ""

    def ub_local(fn, l, seen):
        """Upper bound of a non-negative integer local from its definitions (None = unknown)."""
        if l in seen:
            return None
        seen = seen | {l}
        r = RANGES.get((fn.id, "p%d" % l)) if 1 <= l <= fn.j["arg_count"] else None
        if r:
            return r[0]
        defs = fn.defs_of(l)
        if not defs:
            return tymax_of(fn.locals[l]["ty"])
        best = None
        for _, n in defs:
            v = None
            if n["k"] == "assign":
                rv = n["rv"]
                if rv["k"] == "use":
                    v = ub_op(fn, rv["op"], seen)
                elif rv["k"] == "cast":
                    inner = ub_op(fn, rv["op"], seen)
                    m = tymax_of(rv["ty"])
                    v = m if inner is None else (min(inner, m) if m is not None else inner)
                elif rv["k"] == "discr":
                    ty = place_ty(fn, rv["pl"]).replace("&", "").strip()
                    a = prog.adts.get(ty.split("<")[0])
                    if a and a["variants"]:
                        v = max(a["discrs"] or range(len(a["variants"])))
                elif rv["k"] == "bin":
                    op = rv["op"].replace("WithOverflow", "").replace("Unchecked", "")
                    x, y = ub_op(fn, rv["a"], seen), ub_op(fn, rv["b"], seen)
                    if op == "Rem" and y is not None and rv["b"].get("k") == "const" and y > 0:
                        v = y - 1
                    elif op == "Add" and x is not None and y is not None:
                        v = x + y
                    elif op == "Mul" and x is not None and y is not None:
                        v = x * y
                    elif op in ("Sub", "Div", "Rem", "BitAnd", "Shr") and x is not None:
                        v = x
                elif rv["k"] in ("ref",):
                    v = ub_place(fn, rv["pl"], seen)
            elif n["k"] == "call" and n["args"] and TRANSPARENT.search(flow.call_name(n) or ""):
                v = ub_op(fn, n["args"][0], seen)
            if v is None:
                return tymax_of(fn.locals[l]["ty"])
            best = v if best is None else max(best, v)
        return best

    def ub_place(fn, pl, seen):
        projs = [q for q in pl["p"] if isinstance(q, dict)]
        fields = [q for q in projs if "f" in q]
        if not fields:
            return ub_local(fn, pl["l"], seen)
        # `(checked op).0`
        if len(fields) == 1 and fields[0]["f"] == 0:
            defs = fn.defs_of(pl["l"])
            if len(defs) == 1 and defs[0][1]["k"] == "assign" and defs[0][1]["rv"]["k"] == "bin" and "WithOverflow" in defs[0][1]["rv"]["op"]:
                return ub_local(fn, pl["l"], seen)
        r = RANGES.get((fn.id, flow.shape(fn, {"k": "copy", "pl": pl}, depth=4)))
        if r:
            return r[0]
        return tymax_of(fields[-1].get("ty"))

    def ub_op(fn, op, seen=frozenset()):
        if op.get("k") == "const":
            return op.get("int") if isinstance(op.get("int"), int) and op.get("int") >= 0 else None
        pl = lib.operand_place(op)
        if pl is None:
            return None
        return ub_place(fn, pl, seen)

    n6 = 0
    for fid, fn in sorted(prog.fns.items()):
        if fn.crate not in lib.WS_LIBS or "extended_time::ExtendedTime" in fid:
            continue
        for bb, b in fn.live_blocks():
            t = b["term"]
            if t["k"] != "assert" or str(t.get("msg")) not in ("Overflow(Add)", "Overflow(Mul)"):
                continue
            tys = []
            for o in t["ops"]:
                pl = lib.operand_place(o)
                tys.append(fn.locals[pl["l"]]["ty"] if pl is not None and not pl["p"] else o.get("ty"))
            ty = next((x for x in tys if x in TYMAX), None)
            if ty is None:
                continue
            n6 += 1
            shs = [flow.shape(fn, o, depth=6) for o in t["ops"]]
            bounds = [ub_op(fn, o) for o in t["ops"]]
            if None in bounds:
                total = None
            else:
                total = bounds[0] + bounds[1] if "Add" in t["msg"] else bounds[0] * bounds[1]
            op = "+" if "Add" in t["msg"] else "*"
            r6.check(total is not None and total <= TYMAX[ty], {"fn": fid.split("::")[-1], "type": ty, "operation": "%s %s %s" % (shs[0][:60], op, shs[1][:60]), "operand_bounds": bounds, "result_at_most": total},
                     "C04.R6:%s:%s:%s" % (fn.module, fid.split("::")[-1].split("{")[0] or fid.split("::")[-2], op),
                     "%s computes `%s %s %s` in %s and %s: with the values the grammar admits (a step or a number up to %d) the result does not fit - a trap in debug builds, a wrapped value in release builds" % (
                         fid, shs[0][:80], op, shs[1][:80], ty, "no bound is known for an operand" if total is None else "the result can reach %d" % total, TYMAX[ty]), lib.where_of(fn, t))
    r6.floor(9)

    # R7 -------------------------------------------------------------------------------------
    r7 = res.rule("C04.R7", "bounded work whatever the caller's interval-size bound is: the consuming loop of the interval iterator gives up early only after it made progress - the comparison with the bound that leads to the early exit is itself only reached on the true edge of a strict comparison of the cursor with the value it had on entry (a test that does not involve the bound). Without it a negative bound makes the iterator yield the same interval for ever")
    cu7 = prog.require_fn("opening_hours::opening_hours::TimeDomainIterator::<L>::consume_until_next_kind")
    BF = "approx_bound_interval_size"
    n7 = 0
    for bb, b in cu7.live_blocks():
        tt = b["term"]
        if tt["k"] != "switch":
            continue
        sh = flow.shape(cu7, tt["op"], depth=6)
        if BF not in sh or not re.match(r"(PartialOrd::(gt|ge|lt|le)|Gt|Ge|Lt|Le)\(", sh):
            continue
        n7 += 1
        progress = None
        cur = cu7.blocks[bb]["idom"]
        while cur is not None and progress is None:
            t2 = cu7.blocks[cur]["term"]
            if t2["k"] == "switch":
                succs = set(cu7.succs(cur))
                doms = [x for x in succs if cu7.dominates(x, bb)]
                if len(doms) == 1 and len(succs) > 1:
                    zero = dict(t2["targets"]).get(0)
                    true_edge = doms[0] != zero
                    s2 = flow.shape(cu7, t2["op"], depth=5)
                    m = re.fullmatch(r"(?:PartialOrd::|PartialEq::)?(gt|lt|ne|Gt|Lt|Ne)\((p1\.curr_date), (p1\.curr_date)\)", s2)
                    m_eq = re.fullmatch(r"(?:PartialEq::)?(eq|Eq)\((p1\.curr_date), (p1\.curr_date)\)", s2)
                    if BF not in s2 and ((m and true_edge) or (m_eq and not true_edge)):
                        progress = s2
            cur = cu7.blocks[cur]["idom"]
        r7.check(progress is not None, {"fn": "consume_until_next_kind", "early_exit_test": sh[:140], "only_after": progress}, "C04.R7:progress",
                 "consume_until_next_kind compares with the caller's bound (%s) and can give up before anything was consumed: with a negative bound (`approx_bound_interval_size(TimeDelta::days(-2))`) the iterator never advances and `iter_range(..).count()` does not terminate" % sh[:160], lib.where_of(cu7, tt))
    r7.check(n7 >= 1, {"bound_comparisons_in_the_consuming_loop": n7}, "C04.R7:ANCHOR", "ANCHOR: the consuming loop no longer compares with the interval-size bound", lib.where_of(cu7))

    # R9 -------------------------------------------------------------------------------------
    r9 = res.rule("C04.R9", "machine-checked part of the reviewed `unreachable!` of the interval helpers: the pairing of starts and ends answers `unreachable` when a start meets an earlier end, which the reviewed argument excludes because *every* end before the next start was dropped first - so each `Peekable::next_if` of the date filter's interval helpers is a drain: it sits in a loop that goes on until it answers None (a single call drops one stale end; a day offset beyond a year leaves two)")
    n9 = 0
    for fid, f9 in sorted(prog.fns.items()):
        if not fid.startswith("opening_hours::filter::date_filter::") or f9.from_expansion:
            continue
        for bb9, t9 in f9.calls():
            if not re.search(r"Peekable::<I>::next_if$", flow.call_name(t9) or ""):
                continue
            n9 += 1
            nxt = t9["t"]
            looping = nxt is not None and bb9 in flow.reachable_blocks(f9, nxt)
            r9.check(looping, {"fn": fid.split("date_filter::")[-1], "next_if": "drains until None"}, "C04.R9:drain:%s" % fid.split("date_filter::")[-1],
                     "%s calls next_if once, outside any loop: one stale element is dropped where the pairing that follows assumes all of them were (its `unreachable!()` is reached when two ends precede the next start, e.g. `Jan 1 +400 days-Jan 5`)" % fid.split("date_filter::")[-1], lib.where_of(f9, t9))
    r9.floor(2)
    r9.check(n9 >= 2, {"next_if_sites": n9}, "C04.R9:FLOOR", "FLOOR: %d next_if sites in the interval helpers, 2 were confirmed by hand" % n9, None)

