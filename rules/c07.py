"""C07 - normalization does not change the meaning of an expression.

Decided (necessary conditions of the rewrite): a selector is treated as a plain range only
after every field was looked at, and the driver looks at every rule attribute (R1); frame
bounds are the extremes of each dimension (R2); a time span is canonical exactly when
evaluation does not wrap it (R4, sibling agreement with TimeSpan::as_naive); every emitted
rule marks its days as covered (R5); the universal check `is_val` only exits early with the
falsifying answer (R6); the day-wide reset of a normal rule uses the full time bounds (R7);
succ / pred of every frame dimension are exact on the whole frame (R8, exhaustive evaluation).
Not decided: the paving algebra as a whole (set / pop_filter values), operator choice.
"""

import re

import flow
import lib
from c01 import check_reads

DAY = "opening_hours_syntax::rules::day::"
TIME = "opening_hours_syntax::rules::time::"
RS = "opening_hours_syntax::rules::RuleSequence"
NORM = "opening_hours_syntax::normalize::"


def run(ctx, prog, res):
    # R1 -------------------------------------------------------------------------------------
    r1 = res.rule("C07.R1", "a selector is folded into the paving as a plain range only after every field of it was looked at (per variant: all fields read, or the variant rejected wholesale); the driver reads every rule attribute and all four selector groups")
    for ty in (DAY + "YearRange", DAY + "MonthdayRange", DAY + "WeekRange", DAY + "WeekDayRange", TIME + "TimeSpan"):
        f = prog.impl_method_one("MakeCanonical", "try_make_canonical", self_adt=ty)
        got = lib.reads(prog, f.id, ty)
        for variant, names in prog.adt_fields(ty).items():
            read_here = [n for n in names if (variant, n) in got]
            if not read_here and names:
                arms = flow.enum_arms(prog, f, ty)
                vals = flow.shape_in(f, 0, arms[0]["arms"][variant]["blocks"]) if arms else ["?"]
                r1.check(vals == ["Option::None{}"], {"type": ty.split("::")[-1], "variant": variant, "rejected_wholesale": True}, "C07.R1:%s::%s" % (ty.split("::")[-1], variant),
                         "%s::%s is neither inspected nor rejected by try_make_canonical: %s" % (ty.split("::")[-1], variant, vals), lib.where_of(f))
                continue
            for n in names:
                r1.check((variant, n) in got, {"type": ty.split("::")[-1], "field": "%s.%s" % (variant, n)}, "C07.R1:%s::%s.%s" % (ty.split("::")[-1], variant, n),
                         "try_make_canonical for %s ignores %s.%s (two rules differing only in it collapse)" % (ty.split("::")[-1], variant, n), lib.where_of(f))
    f = prog.impl_method_one("MakeCanonical", "try_make_canonical", self_adt=TIME + "TimeSpan")
    got = lib.reads(prog, f.id, TIME + "Time")
    r1.check(("Fixed", "0") in got and ("Variable", "0") not in got, {"type": "Time", "Fixed": "read", "Variable": "rejected"}, "C07.R1:Time", "time spans with variable (sun event) bounds are not rejected by try_make_canonical", lib.where_of(f))
    nz = prog.require_fn("opening_hours_syntax::rules::OpeningHoursExpression::normalize")
    got = lib.reads(prog, nz.id, RS)
    for fld in ("kind", "operator", "comments"):
        r1.check(("RuleSequence", fld) in got, {"driver_reads": fld}, "C07.R1:normalize:%s" % fld, "normalize never reads RuleSequence.%s" % fld, lib.where_of(nz))
    rts = prog.require_fn(NORM + "ruleseq_to_selector")
    check_reads(prog, r1, rts, DAY + "DaySelector", "ruleseq_to_selector")
    got = lib.reads(prog, rts.id, RS)
    for fld in ("day_selector", "time_selector"):
        r1.check(("RuleSequence", fld) in got, {"ruleseq_to_selector_reads": fld}, "C07.R1:ruleseq_to_selector:%s" % fld, "ruleseq_to_selector never reads RuleSequence.%s" % fld, lib.where_of(rts))
    r1.floor(20)

    # R2 -------------------------------------------------------------------------------------
    r2 = res.rule("C07.R2", "frame bounds are the extremes of each dimension: years 1900..9999, weeks 1..53, months January..December, weekdays Monday..Sunday, day time 00:00..24:00")
    want = {
        "<%sYear as %sframe::Framable>::FRAME_START" % (DAY, NORM): "Year{0: 1900}",
        "<%sYear as %sframe::Framable>::FRAME_END" % (DAY, NORM): "Year{0: 9999}",
        "<%sWeekNum as %sframe::Framable>::FRAME_START" % (DAY, NORM): "WeekNum{0: 1}",
        "<%sWeekNum as %sframe::Framable>::FRAME_END" % (DAY, NORM): "WeekNum{0: 53}",
        "<%sMonth as %sframe::Framable>::FRAME_START" % (DAY, NORM): "Month::January{}",
        "<%sMonth as %sframe::Framable>::FRAME_END" % (DAY, NORM): "Month::December{}",
        "<%scanonical::OrderedWeekday as %sframe::Framable>::FRAME_START" % (NORM, NORM): "OrderedWeekday{0: Weekday::Mon{}}",
        "<%scanonical::OrderedWeekday as %sframe::Framable>::FRAME_END" % (NORM, NORM): "OrderedWeekday{0: Weekday::Sun{}}",
        "<opening_hours_syntax::extended_time::ExtendedTime as %sframe::Bounded>::BOUND_START" % NORM: "const:MIDNIGHT_00",
        "<opening_hours_syntax::extended_time::ExtendedTime as %sframe::Bounded>::BOUND_END" % NORM: "const:MIDNIGHT_24",
        "<%sframe::Frame<T> as %sframe::Bounded>::BOUND_START" % (NORM, NORM): "Frame::Val{0: const:FRAME_START}",
        "<%sframe::Frame<T> as %sframe::Bounded>::BOUND_END" % (NORM, NORM): "Frame::End{}",
    }
    for cid, val in want.items():
        f = prog.fns.get(cid)
        if f is None:
            r2.anchor_missing(cid)
            continue
        sh = flow.shape(f, 0)
        r2.check(sh == val, {"const": cid.split(">::")[-1] + " of " + cid.split(" as ")[0].split("::")[-1], "value": sh}, "C07.R2:%s" % cid, "%s is %s, expected %s" % (cid, sh, val), lib.where_of(f))
    # month and weekday extremes are extremes of the order the paving uses
    m = prog.adt(DAY + "Month")
    names = [v["name"] for v in m["variants"]]
    r2.check(names[0] == "January" and names[-1] == "December" and m["discrs"] == sorted(m["discrs"]), {"Month": "derived Ord follows declaration order January..December"}, "C07.R2:month-order", "Month variants are not ordered January..December")
    ow = prog.impl_method_one("core::cmp::Ord", "cmp", self_adt=NORM + "canonical::OrderedWeekday")
    sh = flow.shape(ow, 0)
    r2.check(re.search(r"Weekday::number_from_monday\(p1\.0\).*Weekday::number_from_monday\(p2\.0\)", sh) is not None, {"OrderedWeekday::cmp": sh}, "C07.R2:weekday-order", "OrderedWeekday is not ordered by number_from_monday: %s" % sh, lib.where_of(ow))

    # R4 -------------------------------------------------------------------------------------
    r4 = res.rule("C07.R4", "a fixed time span is canonical exactly when evaluation does not wrap it past midnight: try_make_canonical accepts iff start < end (and end <= 24:00), TimeSpan::as_naive keeps the end iff start < end")
    f = prog.impl_method_one("MakeCanonical", "try_make_canonical", self_adt=TIME + "TimeSpan")
    somes = [bb for bb, s in f.stmts() if s["k"] == "assign" and s["dst"]["l"] == 0 and s["rv"]["k"] == "agg" and s["rv"].get("variant") == "Some"]
    conds = []
    for sbb, _ in f.live_blocks():
        d = flow.bool_switch_of(f, sbb)
        if not d or d["op"] not in ("Lt", "Le", "Gt", "Ge"):
            continue
        a, b = flow.shape(f, d["a"]), flow.shape(f, d["b"])
        accept_true = all(f.dominates(d["true_bb"], x) for x in somes) and somes
        accept_false = all(f.dominates(d["false_bb"], x) for x in somes) and somes
        if not (accept_true or accept_false):
            continue
        op = d["op"]
        if accept_false:
            op = {"Lt": "Ge", "Le": "Gt", "Gt": "Le", "Ge": "Lt"}[op]
        conds.append((a, op, b))
    def norm(c):
        a, op, b = c
        if "range.end" in a and "range.start" in b:
            a, b = b, a
            op = {"Lt": "Gt", "Gt": "Lt", "Le": "Ge", "Ge": "Le"}[op]
        return (a, op, b)
    conds = [norm(c) for c in conds]
    ok = ("p1.range.start@Fixed.0", "Lt", "p1.range.end@Fixed.0") in conds
    r4.check(ok, {"accepted_iff": conds}, "C07.R4:canonical", "try_make_canonical for TimeSpan does not require start < end (strict): %s" % conds, lib.where_of(f))
    ok2 = any(a == "p1.range.end@Fixed.0" and op == "Le" and b == "const:BOUND_END" for a, op, b in conds)
    r4.check(ok2, {"accepted_iff": conds}, "C07.R4:within-day", "try_make_canonical for TimeSpan does not require end <= 24:00: %s" % conds, lib.where_of(f))

    # R5 -------------------------------------------------------------------------------------
    r5 = res.rule("C07.R5", "every rule re-emitted from the paving marks its days as covered before the next one is emitted, whatever operator it got")
    cts = [prog.fns[c] for c in prog.closures(NORM + "canonical_to_seq")]
    emit = [c for c in cts if any(s["k"] == "assign" and s["rv"]["k"] == "agg" and s["rv"].get("adt") == RS for _, s in c.stmts())]
    if len(emit) != 1:
        r5.anchor_missing("closure of canonical_to_seq building RuleSequence")
    else:
        c = emit[0]
        agg = [bb for bb, s in c.stmts() if s["k"] == "assign" and s["rv"]["k"] == "agg" and s["rv"].get("adt") == RS]
        isv0 = [t for _, t in c.calls() if flow.call_names(t)[0].endswith("paving::Paving::is_val")]
        recv = flow.shape(c, isv0[0]["args"][0]) if isv0 else None
        sets = [bb for bb, t in c.calls() if flow.call_names(t)[0].endswith("paving::Paving::set") and flow.shape(c, t["args"][0]) == recv and flow.shape(c, t["args"][2]) in ("1", "true")
                and flow.shape(c, t["args"][1]) == flow.shape(c, isv0[0]["args"][1])]
        r5.check(bool(sets) and not flow.reach_avoiding(c, 0, agg, sets), {"closure": c.id, "set_blocks": sets, "emit_blocks": agg}, "C07.R5:mark-covered",
                 "a rule can be emitted without marking its days as covered (set(&day_selector, &true) is not on every path)", lib.where_of(c))
        ops = {}
        for sbb, _ in c.live_blocks():
            d = flow.bool_switch_of(c, sbb)
        isv = [t for _, t in c.calls() if flow.call_names(t)[0].endswith("paving::Paving::is_val")]
        ok = len(isv) == 1 and flow.shape(c, isv[0]["args"][2]) in ("0", "false")
        r5.check(ok, {"operator_choice": "Normal iff days_covered.is_val(days, false)"}, "C07.R5:operator-test", "the operator is not chosen by `days_covered.is_val(&day_selector, &false)`", lib.where_of(c))

    # R6 -------------------------------------------------------------------------------------
    r6 = res.rule("C07.R6", "`is_val` is a universal check over ranges and columns: its only answers are an early `false` and the final `true` once every range and column was looked at; any other (value-dependent) answer ignores remaining ranges and overlapping columns")
    n = 0
    for f in prog.impl_method("Paving", name="is_val"):
        if "Dim" not in (f.impl.get("self") or ""):
            continue
        n += 1
        loops = [bb for bb, _ in f.live_blocks() if bb in {x for s in f.succs(bb) for x in flow.reachable_blocks(f, s)}]
        bad = []
        n_true = 0
        for bb, s in f.stmts():
            if s["k"] == "assign" and s["dst"]["l"] == 0 and not s["dst"]["p"]:
                is_false = s["rv"]["k"] == "use" and s["rv"]["op"].get("bool") is False
                is_true = s["rv"]["k"] == "use" and s["rv"]["op"].get("bool") is True
                if is_false:
                    continue
                if is_true and not any(h in flow.reachable_blocks(f, bb) for h in loops):
                    # `true` is only acceptable once no loop can run any more (every range and column was looked at)
                    n_true += 1
                    continue
                bad.append((bb, flow.shape(f, s["rv"]["op"]) if s["rv"]["k"] == "use" else s["rv"]["k"], s))
        for bb, t in f.calls():
            if not t["dst"]["p"] and t["dst"]["l"] == 0:
                bad.append((bb, flow.short_name(flow.call_name(t)) + "(..)", t))
        if n_true != 1:
            bad.append((0, "%d final `true` answers" % n_true, {"sp": f.j["sp"]}))
        r6.check(not bad, {"fn": f.id, "early_exits": "only `false`"}, "C07.R6:%s" % f.id,
                 "is_val answers %s before every range and column was looked at (premature for a universal check)" % [b[1] for b in bad], lib.where_of(f, bad[0][2]) if bad else lib.where_of(f))
    r6.check(n >= 1, {"is_val_impls_for_Dim": n}, "C07.R6:FLOOR", "FLOOR: Dim::is_val not found")

    # R6 (continued): leaving the paved area is tested at both ends of the range
    for f_ in [x for x in prog.fns.values() if x.name == "is_val" and "paving::Dim<" in x.id and x.impl]:
        got_ = set()
        for _, d_ in flow.comparisons(f_):
            a_, b_ = flow.shape(f_, d_["a"], depth=6), flow.shape(f_, d_["b"], depth=6)
            for x_, y_ in ((a_, b_), (b_, a_)):
                m1 = re.search(r"\.(start|end)$", x_)
                m2 = re.search(r"slice::(first|last)\(p1\.cuts\)", y_)
                if m1 and m2:
                    got_.add((m1.group(1), m2.group(1)))
        r6.check({("start", "first"), ("end", "last")} <= got_, {"fn": f_.id.split("::")[-1], "paved_area_test": sorted(got_)}, "C07.R6:paved-area",
                 "Dim::is_val tests whether a range leaves the paved area with %s (expected: its start against the first cut and its end against the last cut): a range overlapping one side only is taken as paved" % sorted(got_), lib.where_of(f_))

    # R7 -------------------------------------------------------------------------------------
    r7 = res.rule("C07.R7", "a normal (non-closed) rule first resets the whole day on its days: the reset selector is the rule's day selector with the full time bounds and the default value")
    sets = [(bb, t) for bb, t in nz.calls() if flow.call_names(t)[0].endswith("paving::Paving::set")]
    shapes = [(flow.shape(nz, t["args"][1]), flow.shape(nz, t["args"][2])) for _, t in sets]
    ok = len(sets) == 2 and any(re.search(r"PavingSelector::dim_front\(PavingSelector::into_unpack_front\(.*\)\.1, array\(Bounded::bounds\(\)\)\)", a) and "default" in b for a, b in shapes)
    r7.check(ok, {"paving_updates": [s[0][:120] for s in shapes]}, "C07.R7:reset", "normalize does not reset the full day (Bounded::bounds()) with the default value before setting a normal rule: %s" % shapes, lib.where_of(nz))
    guard = None
    for sbb, _ in nz.live_blocks():
        d = flow.bool_switch_of(nz, sbb)
    consts = []
    for _, d in flow.comparisons(nz):
        for side in ("a", "b"):
            vs = flow.const_variants(nz, d[side])
            if vs:
                consts.append((d["op"], vs[0].split("::")[-1]))
    r7.check(sorted(consts) == sorted([("Eq", "Fallback"), ("Eq", "Normal"), ("Ne", "Closed")]), {"driver_tests": consts}, "C07.R7:tests",
             "normalize's operator/kind tests are %s (expected: stop at Fallback; reset iff Normal and kind != Closed)" % consts, lib.where_of(nz))

    # R8 -------------------------------------------------------------------------------------
    r8 = res.rule("C07.R8", "closed ranges are converted to half-open ones and back with the exact successor / predecessor of each dimension: for every Framable impl, succ(x) = x + 1 for every x in [FRAME_START, FRAME_END) and pred(x) = x - 1 for every x in (FRAME_START, FRAME_END] (the extracted integer expressions are evaluated on the whole frame; delegations to chrono's Weekday::succ/pred are trusted)")
    import terms
    fr = {}
    for f in prog.fns.values():
        if f.impl and (f.impl.get("trait") or "").endswith("frame::Framable") and f.name in ("succ", "pred", "FRAME_START", "FRAME_END"):
            fr.setdefault(f.impl.get("self"), {})[f.name] = f

    def const_of(f, ty):
        sh = flow.shape(f, 0, depth=6)
        m = re.fullmatch(r"\w+\{0: (-?\d+)\}", sh)
        if m:
            return int(m.group(1))
        m = re.fullmatch(r"(\w+)::(\w+)\{\}", sh)
        a = prog.adts.get(ty)
        if m and a and a.get("discrs"):
            names = [v["name"] for v in a["variants"]]
            if m.group(2) in names:
                return a["discrs"][names.index(m.group(2))]
        return None

    def step_expr(f, depth=0):
        """Integer term computing the inner value of succ/pred, following one delegation to a
        workspace method of the same type."""
        sh = flow.shape(f, 0, depth=12)
        m = re.fullmatch(r"\w+\{0: (.*)\}", sh)
        if m:
            return m.group(1)
        m = re.fullmatch(r"([\w:]+)\(p1(?:\.0)?\)", sh)
        if m and depth == 0:
            cands = [g for g in prog.fns.values() if g.crate == lib.SYN and g.kind in ("AssocFn", "Fn") and g.id.endswith("::" + m.group(1).split("::")[-1]) and g.impl and g.impl.get("self") == f.impl.get("self") and not g.impl.get("trait")]
            if len(cands) == 1:
                return step_expr(cands[0], depth + 1)
            return "extern:" + m.group(1)
        return sh

    for ty, fs in sorted(fr.items()):
        if set(fs) != {"succ", "pred", "FRAME_START", "FRAME_END"}:
            r8.anchor_missing("succ/pred/FRAME_START/FRAME_END of Framable for %s" % ty)
            continue
        lo, hi = const_of(fs["FRAME_START"], ty), const_of(fs["FRAME_END"], ty)
        for nm, delta, dom in (("succ", 1, lambda: range(lo, hi)), ("pred", -1, lambda: range(lo + 1, hi + 1))):
            ex = step_expr(fs[nm])
            short_ty = ty.split("::")[-1]
            if ex.startswith("extern:") or re.fullmatch(r"\w+\{0: Weekday::(succ|pred)\(p1\.0\)\}", flow.shape(fs[nm], 0, depth=6)) or re.fullmatch(r"Weekday::(succ|pred)\(p1\.0\)", ex):
                which = re.search(r"(succ|pred)", ex).group(1) if re.search(r"(succ|pred)", ex) else "?"
                r8.check(which == nm, {"type": short_ty, nm: "delegates to chrono Weekday::%s (trusted)" % which}, "C07.R8:%s:%s" % (short_ty, nm), "%s::%s delegates to Weekday::%s" % (short_ty, nm, which), lib.where_of(fs[nm]))
                continue
            if lo is None or hi is None:
                r8.fail("C07.R8:%s:frame" % short_ty, "frame bounds of %s are not integer constants" % short_ty, lib.where_of(fs["FRAME_START"]))
                break
            try:
                tree = terms.parse(ex)
                bad = None
                n = 0
                for x in dom():
                    def leaf(nd, x=x):
                        if nd[0] == "var" and nd[1] in ("p1", "p1.0"):
                            return x
                        if nd[0] == "app" and nd[1] == "discr" and len(nd[2]) == 1 and nd[2][0] == ("var", "p1"):
                            return x
                        return None
                    got = terms.evaluate(tree, leaf)
                    n += 1
                    if got != x + delta and bad is None:
                        bad = (x, got)
                r8.check(bad is None, {"type": short_ty, nm: ex, "frame": [lo, hi], "evaluated": n}, "C07.R8:%s:%s" % (short_ty, nm),
                         "%s::%s(%s) = %s (expected %s): %s" % ((short_ty, nm) + ((bad[0], bad[1], bad[0] + delta) if bad else ("", "", "")) + (ex,)), lib.where_of(fs[nm]))
            except terms.TermError as e:
                r8.fail("C07.R8:%s:%s:unmodelled" % (short_ty, nm), "%s::%s is computed by an expression outside the modelled arithmetic (%s): %s" % (short_ty, nm, e, ex), lib.where_of(fs[nm]))
    r8.floor(8)


    # R9 -------------------------------------------------------------------------------------
    r9 = res.rule("C07.R9", "the last value of a frame has no successor inside the frame (a year after 9999 is not a year): where an inclusive range is turned into a half-open one, the successor of its end is taken only on the paths where the end was compared with FRAME_END and differs from it, and the paths where it equals FRAME_END end at Frame::End; symmetrically the predecessor is only taken of a Frame::Val")
    import pathterms
    n9 = 0
    for fid, fn in sorted(prog.fns.items()):
        if not (fid.endswith("Frame::<T>::to_range_strict") or fid.endswith("Frame::<T>::to_range_inclusive")):
            continue
        for rb, b in fn.live_blocks():
            if b["term"]["k"] != "return":
                continue
            for path in pathterms.acyclic_paths(fn, rb):
                ret = flow.shape_on(fn, 0, path)
                conds = [(flow.shape_on(fn, op, path), taken, excl) for _, op, taken, excl in pathterms.conditions(fn, path)]
                for m in re.finditer(r"Framable::succ\(([^()]*(?:\([^()]*\))?[^()]*)\)", ret):
                    n9 += 1
                    arg = m.group(1)
                    is_false = lambda taken, excl: (taken == [0]) or (taken is None and excl and 0 not in excl)
                    is_true = lambda taken, excl: (taken is not None and taken != [0]) or (taken is None and excl and 0 in excl)
                    guarded = any(arg in t and "FRAME_END" in t and ((t.startswith("PartialEq::eq(") and is_false(taken, excl)) or (t.startswith("PartialEq::ne(") and is_true(taken, excl))) for t, taken, excl in conds)
                    r9.check(guarded, {"fn": fid.split("::")[-1], "succ_of": arg, "only_when": "!= FRAME_END"}, "C07.R9:succ:%s" % fid.split("::")[-1],
                             "%s takes the successor of the end of an inclusive range without having excluded FRAME_END: for a dimension whose successor does not wrap (years: 9999 -> 10000) the paving gets a bound outside the frame, and the normal form contains a range like `10000-9999` that cannot be read back" % fid, lib.where_of(fn))
                if fid.endswith("to_range_strict") and "Frame::End{}" in ret:
                    n9 += 1
                    eq_true = any("FRAME_END" in t and ((t.startswith("PartialEq::eq(") and ((taken is not None and taken != [0]) or (taken is None and excl and 0 in excl))) or (t.startswith("PartialEq::ne(") and ((taken == [0]) or (taken is None and excl and 0 not in excl)))) for t, taken, excl in conds)
                    r9.check(eq_true, {"fn": "to_range_strict", "Frame::End_only_when": "end == FRAME_END"}, "C07.R9:end", "to_range_strict ends a range at Frame::End on a path where its end was not found equal to FRAME_END", lib.where_of(fn))
                for m in re.finditer(r"Framable::pred\(([^()]*)\)", ret):
                    n9 += 1
                    r9.check("@Val.0" in m.group(1), {"fn": fid.split("::")[-1], "pred_of": m.group(1)}, "C07.R9:pred:%s" % fid.split("::")[-1], "%s takes the predecessor of %s, which is not the payload of a Frame::Val" % (fid, m.group(1)), lib.where_of(fn))
    r9.floor(6)
    rule_r10(ctx, prog, res)
    rule_r11(prog, res)


def _is_loop_exhausted_exit(f, bb, loops):
    """True when block bb is only reachable through the exhaustion exit of the outermost loop
    (the iterator returned None), i.e. it is the normal end of the universal check."""
    outer = [h for h in loops if f.dominates(h, bb)]
    if not outer:
        return True
    # bb must not be reachable from any block inside a loop body other than via a loop header's exit edge
    for h in outer:
        t = f.blocks[h]["term"]
    # the normal exit follows a switch on the discriminant of Iterator::next (None arm)
    cur = bb
    seen = set()
    while cur is not None and cur not in seen:
        seen.add(cur)
        idom = f.blocks[cur]["idom"]
        if idom is None:
            return False
        t = f.blocks[idom]["term"]
        if t["k"] == "switch":
            pl = lib.operand_place(t["op"])
            if pl is not None:
                for _, n in f.defs_of(pl["l"]):
                    if n["k"] == "assign" and n["rv"]["k"] == "discr":
                        calls = flow.origin_calls(f, n["rv"]["pl"]["l"])
                        if any(flow.call_names(c)[0].endswith("Iterator::next") for c in calls):
                            tg = dict(t["targets"])
                            none_t = tg.get(0, t["otherwise"])
                            return f.dominates(none_t, bb)
            return False
        cur = idom
    return False



def rule_r10(ctx, prog, res):
    r10 = res.rule("C07.R10", "a year selector is folded into the paving exactly when the half-open range it becomes selects the years its filter selects: YearRange::try_make_canonical (with Frame::to_range_strict) and YearRange::filter are extracted per path from MIR (peval) and compared on start and end years over {1900, 2000..=2008, 9999} in both orders with steps 1, 2, 3, 10 and 65000, year by year over 1900..=1905, 1990..=2040 and 9990..=9999; a stepped range may only be declared not canonical (none)")
    import peval
    YR = "opening_hours_syntax::rules::day::YearRange"
    tmc = [f for k, f in prog.fns.items() if k == "<%s as opening_hours_syntax::normalize::canonical::MakeCanonical>::try_make_canonical" % YR]
    filt = prog.impl_method("DateFilter", self_adt=YR, name="filter")
    if len(tmc) != 1 or len(filt) != 1:
        r10.anchor_missing("MakeCanonical::try_make_canonical / DateFilter::filter for YearRange")
        return
    ev = peval.Evaluator(prog, externs={"Framable::succ": lambda x: x + 1, "Framable::pred": lambda x: x - 1}, consts={"FRAME_END": 9999, "FRAME_START": 1900})
    ys = [1900] + list(range(2000, 2009)) + [9999]
    window = list(range(1900, 1906)) + list(range(1990, 2041)) + list(range(9990, 10000))
    bad = None
    n = 0
    folded = 0
    try:
        for s in ys:
            for e in ys:
                for k in (1, 2, 3, 10, 65000):
                    sel = {"range": ("range", s, e), "step": k}
                    got = ev.run(tmc[0], [sel])
                    n += 1
                    if got is None:
                        continue
                    folded += 1
                    rg = got[1][2]
                    a = rg["start"][2]["0"] if rg["start"][1] == "Val" else None
                    b = rg["end"][2]["0"] if rg["end"][1] == "Val" else None
                    for y in window:
                        inside = (a is None or y >= a) and (b is None or y < b) if (a is None or b is None or a < b) else (y >= a or y < b)
                        f = bool(ev.run(filt[0], [sel, (y, 6, 15), None]))
                        n += 1
                        if inside != f and bad is None:
                            bad = (s, e, k, y, (a, b), f)
    except peval.Unmodelled as ex:
        r10.fail("C07.R10:unmodelled", "try_make_canonical / filter of YearRange cannot be evaluated from their MIR any more (%s): not decided, failing closed" % ex, lib.where_of(tmc[0]))
        return
    msg = ""
    if bad:
        s, e, k, y, ab, f = bad
        msg = "`%d-%d%s` is folded into the paving as the years [%s, %s) but its filter says %s for %d: normalization changes the years the rule applies to" % (s, e, "/%d" % k if k != 1 else "", ab[0], ab[1] if ab[1] is not None else "end", f, y)
    r10.check(bad is None, {"year_ranges": len(ys) ** 2, "steps": [1, 2, 3, 10, 65000], "folded": folded, "evaluations": n}, "C07.R10:year", msg, lib.where_of(tmc[0]))
    r10.check(folded >= len(ys) ** 2, {"ranges_folded": folded}, "C07.R10:FLOOR", "FLOOR: only %d of the year ranges were folded (every unstepped range is expected to be)" % folded, lib.where_of(tmc[0]))


def rule_r11(prog, res):
    r11 = res.rule("C07.R11", "a dimension of the paving holds only what its type can express: the month dimension holds whole months of every year and the weekday dimension plain weekdays, so a *dated* range (MonthdayRange::Date - days, years, offsets, Easter) and a holiday selector (WeekDayRange::Holiday) are never folded - their arm of try_make_canonical answers None on every path. Folding dates into months could only be right where the dates are month boundaries in every year (29 February), which needs the dated filter by value: not decided here, so any other answer fails closed")
    for ty, variant in ((DAY + "MonthdayRange", "Date"), (DAY + "WeekDayRange", "Holiday")):
        f = prog.impl_method_one("MakeCanonical", "try_make_canonical", self_adt=ty)
        arms = flow.enum_arms(prog, f, ty)
        if not arms or variant not in arms[0]["arms"]:
            r11.anchor_missing("the arm of %s::%s in try_make_canonical" % (ty.split("::")[-1], variant))
            continue
        vals = flow.shape_in(f, 0, arms[0]["arms"][variant]["blocks"])
        r11.check(vals == ["Option::None{}"], {"type": ty.split("::")[-1], "variant": variant, "folded": "never"}, "C07.R11:%s::%s" % (ty.split("::")[-1], variant),
                  "try_make_canonical folds %s::%s into the paving on some path (%s): a dimension of whole months / plain weekdays cannot say which days of which years the selector meant (`Jan 01-Feb 28` is not `Jan-Feb` in a leap year) - not decided, failing closed" % (ty.split("::")[-1], variant, [v[:80] for v in vals][:3]), lib.where_of(f))
    r11.floor(2)

