"""C17 - comments are well-formed and come from the rule in effect.

Decided: comments leave the library only as UniqueSortedVec<Arc<str>> (R1, by type; invariant
is C20); evaluation never creates a comment string (R2, provenance); a period carries the
kind and comments of the very rule its time spans come from, holes have no comments (R3); the
interval iterator reports the comments of the first period it peeked and never merges comments
(R4); the parser keeps both comment positions of a rule (R5).
Not decided: which comments a merged / overlapping period ends up with (values).
"""

import re

import common
import flow
import lib
import witness

USV_ARC = "opening_hours_syntax::sorted_vec::UniqueSortedVec<alloc::sync::Arc<str>>"
RS = "opening_hours_syntax::rules::RuleSequence"

CREATE = re.compile(r"(<alloc::sync::Arc<str> as core::convert::From<.*>>::from|<alloc::string::String as core::convert::From<.*>>::from|alloc::string::ToString::to_string|<str as alloc::borrow::ToOwned>::to_owned|"
                    r"alloc::fmt::format|alloc::str::<impl str>::to_(string|owned|lowercase|uppercase)|alloc::string::String::(new|from_utf8|from_utf8_lossy|with_capacity|push_str)|"
                    r"<alloc::boxed::Box<str> as core::convert::From<.*>>::from|alloc::str::<impl str>::into_boxed_str|alloc::slice::<impl \[T\]>::(join|concat))")


def run(ctx, prog, res):
    # R1 -------------------------------------------------------------------------------------
    r1 = res.rule("C17.R1", "comments are sorted and duplicate-free by type: every field through which comments leave the library is a UniqueSortedVec<Arc<str>> (whose invariant is C20), and DateTimeRange cannot be built outside the crate")
    for adt, fld in (("opening_hours::schedule::TimeRange", "comments"), ("opening_hours::utils::range::DateTimeRange", "comments"), (RS, "comments")):
        a = prog.adt(adt)
        tys = [f["ty"] for v in a["variants"] for f in v["fields"] if f["name"] == fld]
        r1.check(tys == [USV_ARC], {"type": adt.split("::")[-1], "field": fld, "ty": tys}, "C17.R1:%s.%s" % (adt, fld), "%s.%s has type %s" % (adt, fld, tys))
    r1.check(prog.adt("opening_hours::utils::range::DateTimeRange")["non_exhaustive"], {"DateTimeRange": "non_exhaustive"}, "C17.R1:non_exhaustive", "DateTimeRange is no longer #[non_exhaustive]")
    for f in prog.fns.values():
        if f.crate == lib.OH and f.vis == "pub" and f.kind in ("Fn", "AssocFn"):
            outs = f.j.get("output", "")
            if "Arc<str>" in outs and "UniqueSortedVec" not in outs:
                r1.fail("C17.R1:api:%s" % f.id, "public function %s returns comments outside a UniqueSortedVec: %s" % (f.id, outs), lib.where_of(f))
    r1.floor(4)

    # R2 -------------------------------------------------------------------------------------
    r2 = res.rule("C17.R2", "all reported comments are taken from rules of the expression: no function of crate opening-hours reachable from evaluation creates an Arc<str>/String/Box<str> (comment values are only cloned, moved or merged)")
    roots = [x for x in common.EVAL_ENTRY if x in prog.fns and "Display" not in x]
    if len(roots) < 10:
        r2.anchor_missing("evaluation entry points")
    reach, parent = prog.reachable(roots)
    reach = {f for f in reach if prog.fns[f].crate == lib.OH}
    n = 0
    for fid in sorted(reach):
        fn = prog.fns[fid]
        if fn.impl and fn.impl.get("trait") in ("core::fmt::Display", "core::fmt::Debug", "core::error::Error"):
            continue
        for bb, t in fn.calls():
            n += 1
            for p in common.callee_paths(t) + [t["callee"].get("path_args", "")]:
                if CREATE.search(p) and not [e for e in t["sp"]["exp"] if "log" in e or "panic" in e or "assert" in e or "unreachable" in e]:
                    r2.fail("C17.R2:%s:%s" % (fn.module, p), "evaluation creates a string in %s (%s): a reported comment could come from elsewhere than a rule" % (fid, p), lib.where_of(fn, t))
                    break
    r2.ok({"reachable_functions_in_opening_hours": len(reach), "call_sites_scanned": n, "string_creations": 0})
    if len(reach) < 60:
        r2.fail("C17.R2:FLOOR", "FLOOR: only %d functions reachable from evaluation" % len(reach))
    creators = sorted({f.id for f in prog.fns.values() if f.crate == lib.SYN and not f.from_expansion and f.module and not f.module.endswith("error") and not (f.impl and f.impl.get("trait") in ("core::fmt::Display", "core::fmt::Debug"))
                       for _, t in f.calls() if "Arc<str>" in t["callee"].get("path_args", "") and re.search(r"core::convert::From<.*>>::from|Arc::<.*>::new", t["callee"].get("path_args", ""))})
    creators = sorted({prog.fns[c].parent if prog.fns[c].kind == "Closure" else c for c in creators})
    r2.check(creators == ["opening_hours_syntax::parser::build_rule_sequence"], {"comment_creation_sites_in_syntax_crate": creators}, "C17.R2:creation", "comment strings are created in %s (expected only the parser's build_rule_sequence)" % creators)

    # R3 -------------------------------------------------------------------------------------
    r3 = res.rule("C17.R3", "a period carries the kind and comments of the rule that produced it: in rule_sequence_schedule_at every Schedule::from_ranges call takes kind and comments from the same rule as the time selector and the day selector; holes carry no comments")
    rs = prog.require_fn("opening_hours::opening_hours::rule_sequence_schedule_at")
    shapes = {c: flow.shape(prog.fns[c], 0) for c in prog.closures(rs.id)}
    fr = [s for s in shapes.values() if s.startswith("Schedule::from_ranges(")]
    r3.check(len(fr) == 2 and all(re.fullmatch(r"Schedule::from_ranges\(p2, p1\.0\.kind, p1\.0\.comments\)", s) for s in fr), {"from_ranges": fr}, "C17.R3:from_ranges",
             "a schedule is not built with the kind and comments of the captured rule: %s" % fr, lib.where_of(rs))
    ts = [s for s in shapes.values() if "time_selector_intervals_at" in s]
    r3.check(len(ts) == 2 and all(re.search(r"p1\.1\.time_selector", s) for s in ts), {"spans_from": ts}, "C17.R3:time_selector", "time spans do not come from the captured rule's time_selector: %s" % ts, lib.where_of(rs))
    # all captures of those closures are the single rule parameter
    caps_ok = True
    n_caps = 0
    for bb, s in rs.stmts():
        if s["k"] == "assign" and s["rv"]["k"] == "agg" and s["rv"].get("ak") == "closure":
            for op in s["rv"]["ops"]:
                ps = flow.root_params(rs, op)
                ty = rs.locals[lib.operand_place(op)["l"]]["ty"] if lib.operand_place(op) else ""
                if "RuleSequence" in ty:
                    n_caps += 1
                    caps_ok &= ps == {1}
    r3.check(caps_ok and n_caps >= 4, {"rule_captures": n_caps, "all_the_parameter": caps_ok}, "C17.R3:captures", "a closure of rule_sequence_schedule_at captures another rule than its parameter", lib.where_of(rs))
    nx = prog.impl_method_one("core::iter::traits::iterator::Iterator", "next", self_adt="opening_hours::schedule::IntoIter")
    news = [flow.shape(nx, t["args"][2]) for _, t in nx.calls() if flow.call_name(t) == "opening_hours::schedule::TimeRange::new"]
    r3.check(news == ["UniqueSortedVec::new()"], {"hole_comments": news}, "C17.R3:holes", "holes are created with comments %s" % news, lib.where_of(nx))
    sa = prog.require_fn("opening_hours::opening_hours::OpeningHours::<L>::schedule_at")
    r3.check("Schedule::default()" in flow.shape(sa, 0) or any(flow.call_name(t).endswith("Schedule as core::default::Default>::default") for _, t in sa.calls()), {"outside_range": "Schedule::default() (no comments)"}, "C17.R3:outside", "outside the supported range schedule_at does not return the empty schedule", lib.where_of(sa))

    # R4 -------------------------------------------------------------------------------------
    r4 = res.rule("C17.R4", "range iteration reports for each interval the kind and comments of the first period it peeked (before consuming same-kind periods), and the interval iterator never merges comments")
    tn = prog.impl_method_one("core::iter::traits::iterator::Iterator", "next", self_adt="opening_hours::opening_hours::TimeDomainIterator")
    mk = [(bb, t) for bb, t in tn.calls() if flow.call_name(t).endswith("DateTimeRange::<D>::new_with_sorted_comments")]
    cons = [bb for bb, t in tn.calls() if flow.call_name(t).endswith("TimeDomainIterator::<L>::consume_until_next_kind")]
    ok = len(mk) >= 1 and len(cons) == 1
    srcs = set()
    for bb, t in mk:
        k, c = flow.shape(tn, t["args"][1]), flow.shape(tn, t["args"][2])
        srcs.add((k, c))
        ok = ok and re.fullmatch(r"Option::cloned\(Peekable::peek\(p1\.curr_schedule\)\)@Some\.0\.kind", k) is not None and re.fullmatch(r"Option::cloned\(Peekable::peek\(p1\.curr_schedule\)\)@Some\.0\.comments", c) is not None
        peeks = [o.bb for o in flow.operand_origins(tn, t["args"][2]) if o.kind == "call" and flow.call_name(o.node).endswith("Peekable::<I>::peek")]
        clones = [pb for pb, tt in tn.calls() if flow.call_name(tt).endswith("Option::<&T>::cloned")]
        ok = ok and clones and all(tn.dominates(pb, cons[0]) and pb != cons[0] for pb in clones[:1])
    r4.check(ok, {"fn": tn.id, "interval_kind_and_comments": sorted(srcs), "taken_before_consuming": True}, "C17.R4:first-period", "an interval does not carry the kind/comments of the period peeked before consume_until_next_kind: %s" % sorted(srcs), lib.where_of(tn))
    merged = []
    for f in prog.fns.values():
        if f.crate == lib.OH and (f.module or "").endswith("opening_hours::opening_hours"):
            for bb, t in f.calls():
                if flow.call_name(t).endswith("UniqueSortedVec::<T>::union"):
                    merged.append(f.id)
    r4.check(not merged, {"comment_merges_in_interval_iterator": 0}, "C17.R4:no-merge", "the interval iterator merges comments in %s" % merged)
    # the first interval is the period *containing* the start instant: the periods of the first day skipped before
    # iteration starts are exactly those whose range does not contain the start time
    tnew = prog.require_fn("opening_hours::opening_hours::TimeDomainIterator::<L>::new")
    skips = []
    for bb, t in tnew.calls():
        if len(t["args"]) == 2 and flow.call_name(t).endswith("Option::<T>::map"):
            clo = flow.closure_of_operand(tnew, t["args"][1])
            if clo in prog.fns and re.search(r"Peekable::peek\(", flow.shape(tnew, t["args"][0], depth=4)):
                caps = [flow.shape(tnew, x, depth=6) for x in flow.closure_captures(tnew, t["args"][1])]
                skips.append((flow.shape(prog.fns[clo], 0, depth=6), caps))
    ok = len(skips) == 1
    if ok:
        body, caps = skips[0]
        m = re.fullmatch(r"Not\((?:\w+::)*contains\(p2\.range, \*?p1\.(\d+)\)\)", body)
        ok = m is not None and int(m.group(1)) < len(caps) and re.search(r"::time\(p2\)", caps[int(m.group(1))]) is not None
    r4.check(ok, {"fn": tnew.id.split("::")[-2] + "::new", "periods_skipped_at_start": "those whose range does not contain the start time", "predicate": skips[:1]}, "C17.R4:start-period",
             "TimeDomainIterator::new does not skip exactly the periods that do not contain the start time (found %s): started on a period boundary, range iteration begins with the period that just ended - an empty first interval carrying that period's kind and comments" % (skips[:2],), lib.where_of(tnew))
    cu = prog.require_fn("opening_hours::opening_hours::TimeDomainIterator::<L>::consume_until_next_kind")
    got = lib.reads(prog, cu.id, "opening_hours::schedule::TimeRange")
    r4.check(("TimeRange", "comments") not in got and cu.j["arg_count"] == 2, {"consume_until_next_kind": "looks at kinds only"}, "C17.R4:consume", "consume_until_next_kind touches comments", lib.where_of(cu))

    # R5 -------------------------------------------------------------------------------------
    r5 = res.rule("C17.R5", "the parser keeps both comment positions of a rule (leading `\"label\":` and the modifier's comment): both sources are chained into the rule's comments")
    br = prog.require_fn("opening_hours_syntax::parser::build_rule_sequence")
    sh = None
    for bb, s in br.stmts():
        if s["k"] == "assign" and s["rv"]["k"] == "agg" and s["rv"].get("adt") == RS:
            sh = flow.shape(br, s["rv"]["ops"][s["rv"]["fields"].index("comments")], depth=9)
    ok = sh is not None and re.search(r"Iterator::chain\(.*parser::build_rules_modifier.*, .*parser::build_selector_sequence.*\)|Iterator::chain\(.*parser::build_selector_sequence.*, .*parser::build_rules_modifier.*\)", sh) is not None
    r5.check(ok, {"fn": br.id, "comments": (sh or "")[:200]}, "C17.R5:both-positions", "the rule's comments are not the chain of the modifier comment and the leading comment: %s" % sh, lib.where_of(br))

    # W --------------------------------------------------------------------------------------
    # R6 -------------------------------------------------------------------------------------
    r6 = res.rule("C17.R6", "a comment is the text between the quotes, verbatim: the parser never transforms text - the only operations applied to a `str`/`String` in the parser module are reading the matched text, number parsing and owning conversions (as_str, parse, to_string / to_owned / into / from, into_boxed_str, Arc::from); build_comment_inner returns the owned text of its pair")
    ALLOWED = re.compile(r"(Pair::<.*>::as_str|<impl str>::parse|ToString>::to_string|ToOwned>::to_owned|String::into_boxed_str|Arguments::<.*>::from_str|String::from|From<.*>>::from|Into<.*>>::into|Arc<.*>::from|str>::as_ref|String::as_str|Deref>::deref|Clone>::clone|fmt::Display|fmt::Debug|String::new|String::len|<impl str>::len|<impl str>::is_empty|String::is_empty|PartialEq.*::eq|PartialEq.*::ne)$")
    n_ops = 0
    for fid, fn in sorted(prog.fns.items()):
        if not fid.startswith("opening_hours_syntax::parser"):
            continue
        for bb, t in fn.calls():
            cal = t.get("callee") or {}
            nm = flow.call_name(t) or ""
            sty = (cal.get("self_ty") or "").replace("&", "").replace("mut ", "").strip()
            textual = sty in ("str", "alloc::string::String", "std::string::String") or "<impl str>" in nm or "alloc::string::String::" in nm or "alloc::str::" in nm
            if not textual:
                continue
            n_ops += 1
            r6.check(ALLOWED.search(nm) is not None, {"fn": fid.split("::")[-1], "text_operation": nm.split("::")[-1]}, "C17.R6:%s:%s" % (fid.split("::")[-1], nm.split("::")[-1]),
                     "%s applies `%s` to parsed text: the parser is expected to keep text as written (a comment `\" ring \"` must be reported with its spaces; two comments differing in what was transformed away become one)" % (fid, nm), lib.where_of(fn, t))
    bci = prog.require_fn("opening_hours_syntax::parser::build_comment_inner")
    sh = flow.shape(bci, 0, depth=6)
    r6.check(re.fullmatch(r"(::to_string|::to_owned|String::from|::into|::from)\(p1\)", sh) is not None, {"fn": "build_comment_inner", "returns": sh}, "C17.R6:inner", "build_comment_inner returns %s, not the owned text of its pair" % sh, lib.where_of(bci))
    r6.floor(15)

    witness.run_doctests(ctx, prog, res, "C17.W", "comments cannot be replaced by an arbitrary Vec, and a DateTimeRange cannot be forged outside the crate; twins compile", "c17", floor=4)
