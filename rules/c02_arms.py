"""C02.R8 - the month-range arms of MonthdayRange: hint against filter, by exhaustive
evaluation of both extracted computations (peval) over the complete domain of month ranges.

For every start and end month (144 ranges), without a year and with a fixed year, the filter is
evaluated on every month of a four-year window (it is first shown to look at the date only
through its year and month), and the hint on chosen days of every month (all days in the
thorough tier). A hint h given for day d asserts that the filter does not change on [d, h): this
is compared with the filter's table. The interval helpers the hint hands its bounds to are
modelled here (ports of intervals_from_bounds / next_change_from_intervals, stated in DESIGN's
trusted base); everything else is the program's own expressions."""

import lib
import peval

MR = "opening_hours_syntax::rules::day::MonthdayRange"


def ensure_increasing(xs):
    out = []
    i = 0
    xs = list(xs)
    while i < len(xs):
        v = xs[i]
        i += 1
        while i < len(xs) and xs[i] <= v:
            i += 1
        out.append(v)
    return out


def intervals_from_bounds(starts, ends):
    s, e = ensure_increasing(starts), ensure_increasing(ends)
    i = j = 0
    out = []
    while True:
        if i < len(s):
            while j < len(e) and e[j] < s[i]:
                j += 1
        st = s[i] if i < len(s) else None
        en = e[j] if j < len(e) else None
        if st is None and en is None:
            return out
        if st is None:
            j += 1
            out.append((peval.DATE_START, en))
        elif en is None:
            i += 1
            out.append((st, peval.DATE_END))
        else:
            if st == en:
                j += 1
            i += 1
            out.append((st, en))


def next_change_from_intervals(date, intervals):
    for a, b in intervals:
        if b >= date:
            if a <= date:
                return peval.succ(b)
            return a
    return peval.DATE_END


def is_open_from_intervals(date, intervals):
    for a, b in intervals:
        if b >= date:
            return a <= date <= b
    return False


EXTERNS = {
    "date_filter::next_change_from_bounds": lambda d, s, e: next_change_from_intervals(d, intervals_from_bounds(s, e)),
    "date_filter::is_open_from_bounds": lambda d, s, e: is_open_from_intervals(d, intervals_from_bounds(s, e)),
}


def months(y0, y1):
    for y in range(y0, y1 + 1):
        for m in range(1, 13):
            yield y, m


def run(ctx, prog, res, thorough=False):
    r8 = res.rule("C02.R8", "month ranges (`Nov-Feb`, `2020 Nov-Feb`): the hint of MonthdayRange::Month never promises a longer constant stretch than its filter gives; both are extracted from MIR per path and evaluated for all 144 (start, end) month pairs, with and without a year, over a four-year window including a leap year (exhaustive evaluation of extracted computations)")
    filt = prog.impl_method_one("DateFilter", "filter", self_adt=MR)
    hint = prog.impl_method_one("DateFilter", "next_change_hint", self_adt=MR)
    ev = peval.Evaluator(prog, externs=EXTERNS, consts={"DATE_END": peval.DATE_END, "DATE_START": peval.DATE_START})
    Y = 2003  # window 2002..2005 contains the leap year 2004
    y0, y1 = Y - 1, Y + 2
    n_f = n_h = 0
    past = None
    MN = ["Jan", "Feb", "Mar", "Apr", "May", "Jun", "Jul", "Aug", "Sep", "Oct", "Nov", "Dec"]
    bad = None
    try:
        for year in (None, ("some", Y)):
            for s in range(1, 13):
                for e in range(1, 13):
                    sel = ("enum", "Month", {"range": ("range", s, e), "year": year})
                    table = {}
                    for (y, m) in months(y0, y1):
                        vals = set()
                        for d in ((1, peval.days_in_month(y, m)) if not thorough else range(1, peval.days_in_month(y, m) + 1)):
                            vals.add(bool(ev.run(filt, [sel, (y, m, d), None])))
                            n_f += 1
                        if len(vals) != 1:
                            raise peval.Unmodelled("the filter of a month range changes inside %04d-%02d" % (y, m))
                        table[(y, m)] = vals.pop()
                    # first day after d where the table changes
                    def next_change(d):
                        y, m = d[0], d[1]
                        cur = table[(y, m)]
                        while True:
                            m += 1
                            if m == 13:
                                y, m = y + 1, 1
                            if (y, m) not in table:
                                return None
                            if table[(y, m)] != cur:
                                return (y, m, 1)
                    for (y, m) in months(y0, y1 - 1):
                        dim = peval.days_in_month(y, m)
                        for d in ((1, 15, dim) if not thorough else range(1, dim + 1)):
                            date = (y, m, d)
                            h = ev.run(hint, [sel, date, None])
                            n_h += 1
                            if h is None:
                                continue
                            h = h[1]
                            if h <= date and past is None:
                                past = ("`%s%s-%s`" % (("%d " % year[1]) if year else "", MN[s - 1], MN[e - 1]), date, h)
                            nc = next_change(date)
                            if nc is not None and h > nc and bad is None:
                                bad = (year, s, e, date, h, nc)
    except peval.Unmodelled as ex:
        r8.fail("C02.R8:unmodelled", "the month-range arms of MonthdayRange cannot be evaluated from their MIR any more (%s): not decided, failing closed" % ex, lib.where_of(hint))
        return
    msg = None
    if bad:
        year, s, e, date, h, nc = bad
        msg = "`%s%s-%s`: asked on %04d-%02d-%02d the hint promises no change before %04d-%02d-%02d, but the filter changes on %04d-%02d-%02d: the days in between are skipped" % (
            ("%d " % year[1]) if year else "", MN[s - 1], MN[e - 1], *date, *h, *nc)
    r8.check(past is None, {"month_pairs": 144, "every_dated_hint": "strictly after the day it was asked on"}, "C02.R8:not-after",
             "" if past is None else "%s: asked on %04d-%02d-%02d the hint is %04d-%02d-%02d, not after that day: the iterator's progress assertion (`infinite loop detected`) panics" % (past[0], *past[1], *past[2]), lib.where_of(hint))
    r8.check(bad is None, {"month_pairs": 144, "year_forms": 2, "filter_evaluations": n_f, "hint_evaluations": n_h, "window": [y0, y1]}, "C02.R8:month-arm", msg or "", lib.where_of(hint))
    r8.floor(2)


YR = "opening_hours_syntax::rules::day::YearRange"


def run_years(ctx, prog, res, thorough=False):
    r9 = res.rule("C02.R9", "year ranges (`2020-2030`, `2020-2030/3`, `2030-2020`): the hint of YearRange never promises a longer constant stretch than its filter gives; both functions (and the closures they call) are extracted per path from MIR and evaluated on a small scope - start and end years in 2000..=2008 in both orders, steps 1, 2, 3, 5, 7, 9 and 65000, query days at the start, middle and end of every year 1998..=2012 (the functions only subtract, compare and take remainders of years, so the scope exercises every case of the hint; it is not the whole domain)")
    filt = prog.impl_method_one("DateFilter", "filter", self_adt=YR)
    hint = prog.impl_method_one("DateFilter", "next_change_hint", self_adt=YR)
    ev = peval.Evaluator(prog, externs=EXTERNS, consts={"DATE_END": peval.DATE_END, "DATE_START": peval.DATE_START})
    years = [2000, 2001, 2003, 2004, 2008] if not thorough else list(range(2000, 2009))
    steps = [1, 2, 3, 5, 65000] if not thorough else [1, 2, 3, 4, 5, 7, 9, 65000]
    y0, y1 = 1996, 2030
    n_f = n_h = 0
    past = None
    bad = None
    cases = set()
    try:
        for s in years:
            for e in years:
                for k in steps:
                    sel = {"range": ("range", s, e), "step": k}
                    table = {}
                    for y in range(y0, y1 + 1):
                        a = bool(ev.run(filt, [sel, (y, 1, 1), None]))
                        b = bool(ev.run(filt, [sel, (y, 12, 31), None]))
                        n_f += 2
                        if a != b:
                            raise peval.Unmodelled("the filter of a year range changes inside %d" % y)
                        table[y] = a
                    for y in range(1998, 2013):
                        for md in ((1, 1), (6, 15), (12, 31)):
                            date = (y,) + md
                            h = ev.run(hint, [sel, date, None])
                            n_h += 1
                            if h is None:
                                cases.add("unknown")
                                continue
                            h = h[1]
                            cases.add("end" if h >= peval.DATE_END else "year")
                            if h <= date and past is None:
                                past = ("`%d-%d%s`" % (s, e, "/%d" % k if k != 1 else ""), date, h)
                            nc = next((yy for yy in range(y + 1, y1 + 1) if table[yy] != table[y]), None)
                            if nc is not None and h > (nc, 1, 1) and bad is None:
                                bad = (s, e, k, date, h, nc)
    except peval.Unmodelled as ex:
        r9.fail("C02.R9:unmodelled", "filter / hint of YearRange cannot be evaluated from their MIR any more (%s): not decided, failing closed" % ex, lib.where_of(hint))
        return
    msg = ""
    if bad:
        s, e, k, date, h, nc = bad
        msg = "`%d-%d%s`: asked on %04d-%02d-%02d the hint promises no change before %04d-%02d-%02d, but the filter changes on %d-01-01: the days in between are skipped" % (s, e, "/%d" % k if k != 1 else "", *date, *h, nc)
    r9.check(past is None, {"every_dated_hint": "strictly after the day it was asked on"}, "C02.R9:not-after",
             "" if past is None else "%s: asked on %04d-%02d-%02d the hint is %04d-%02d-%02d, not after that day: the iterator's progress assertion (`infinite loop detected`) panics" % (past[0], *past[1], *past[2]), lib.where_of(hint))
    r9.check(bad is None, {"ranges": len(years) ** 2, "steps": steps, "filter_evaluations": n_f, "hint_evaluations": n_h, "hint_answers_seen": sorted(cases)}, "C02.R9:year-range", msg, lib.where_of(hint))
    r9.check({"year", "end"} <= cases, {"hint_cases_exercised": sorted(cases)}, "C02.R9:FLOOR", "FLOOR: the scope no longer exercises both a dated hint and the `never again` answer (%s)" % sorted(cases), lib.where_of(hint))


WKR = "opening_hours_syntax::rules::day::WeekRange"


def run_weeks(ctx, prog, res, thorough=False):
    r10 = res.rule("C02.R10", "week ranges (`week 10-20`, `week 1-53/2`, `week 52-53`): the hint of WeekRange never promises a longer constant stretch than its filter gives. The hint contains a loop: it is extracted per path with the loop unrolled up to three times, every local resolved to its last definition before the use (pathterms.paths_with_loops, flow.shape_at), and evaluated with the filter (peval, ISO weeks modelled) for week ranges over {1, 2, 10, 26, 51, 52, 53} written in order (thorough: all), steps 1, 2, 3, on every day from 2020-12-14 to 2021-01-17 (around a 53-week year) and two days of every other week until the end of 2021; the filter's table runs to the end of 2023")
    filt = prog.impl_method_one("DateFilter", "filter", self_adt=WKR)
    hint = prog.impl_method_one("DateFilter", "next_change_hint", self_adt=WKR)
    ev = peval.Evaluator(prog, externs=EXTERNS, consts={"DATE_END": peval.DATE_END, "DATE_START": peval.DATE_START})
    weeks = list(range(1, 54)) if thorough else [1, 2, 10, 26, 51, 52, 53]
    steps = [1, 2, 3]
    # Mondays of the table
    mondays = []
    d = (2020, 11, 30)
    while d < (2024, 1, 1):
        mondays.append(d)
        d = peval.from_ordinal(peval.ordinal(d) + 7)
    queries = []
    d = (2020, 12, 14)
    while d <= (2021, 1, 17):
        queries.append(d)
        d = peval.succ(d)
    d = (2021, 1, 18)
    while d < (2022, 1, 1):
        queries.append(d)
        queries.append(peval.from_ordinal(peval.ordinal(d) + 6))
        d = peval.from_ordinal(peval.ordinal(d) + 7)
    n_f = n_h = 0
    past = None
    bad = None
    answers = set()
    try:
        for s in weeks:
            for e in weeks:
                if s > e:
                    continue  # the hint answers `unknown` for wrapping ranges (checked below on one range)
                for k in steps:
                    sel = {"range": ("range", s, e), "step": k}
                    table = {}
                    for m in mondays:
                        table[peval.ordinal(m)] = bool(ev.run(filt, [sel, m, None]))
                        n_f += 1
                    val = lambda day: table[peval.ordinal(day) - peval.weekday(day)]
                    for q in queries:
                        h = ev.run(hint, [sel, q, None])
                        n_h += 1
                        if h is None:
                            answers.add("unknown")
                            continue
                        h = h[1]
                        answers.add("date")
                        if h <= q and past is None:
                            past = ("`week %02d-%02d%s`" % (s, e, "/%d" % k if k != 1 else ""), q, h)
                        cur = val(q)
                        # first Monday after q where the table changes
                        m = peval.from_ordinal(peval.ordinal(q) - peval.weekday(q) + 7)
                        nc = None
                        while peval.ordinal(m) in table:
                            if table[peval.ordinal(m)] != cur:
                                nc = m
                                break
                            m = peval.from_ordinal(peval.ordinal(m) + 7)
                        if nc is not None and h > nc and bad is None:
                            bad = (s, e, k, q, h, nc)
        wrap = ev.run(hint, [{"range": ("range", 51, 2), "step": 1}, (2021, 1, 6), None])
        n_h += 1
    except peval.Unmodelled as ex:
        r10.fail("C02.R10:unmodelled", "filter / hint of WeekRange cannot be evaluated from their MIR any more (%s): not decided, failing closed" % ex, lib.where_of(hint))
        return
    msg = ""
    if bad:
        s, e, k, q, h, nc = bad
        msg = "`week %02d-%02d%s`: asked on %04d-%02d-%02d (ISO week %d) the hint promises no change before %04d-%02d-%02d, but the filter changes on %04d-%02d-%02d: the days in between are skipped" % (s, e, "/%d" % k if k != 1 else "", *q, peval.iso_week(q)[1], *h, *nc)
    r10.check(past is None, {"every_dated_hint": "strictly after the day it was asked on"}, "C02.R10:not-after",
              "" if past is None else "%s: asked on %04d-%02d-%02d the hint is %04d-%02d-%02d, not after that day: the iterator's progress assertion (`infinite loop detected`) panics" % (past[0], *past[1], *past[2]), lib.where_of(hint))
    r10.check(bad is None, {"week_ranges": sum(1 for s in weeks for e in weeks if s <= e), "steps": steps, "filter_evaluations": n_f, "hint_evaluations": n_h, "hint_answers_seen": sorted(answers)}, "C02.R10:week-range", msg, lib.where_of(hint))
    r10.check(wrap is None, {"wrapping_range_hint": "unknown"}, "C02.R10:wrapping", "the hint of the wrapping range `week 51-02` is %r: the filter matches weeks 51..53 and 1..2, a dated hint computed as for a range written in order skips a change" % (wrap,), lib.where_of(hint))
    r10.check("date" in answers, {"hint_answers_seen": sorted(answers)}, "C02.R10:FLOOR", "FLOOR: the scope no longer exercises a dated hint", lib.where_of(hint))
