"""Evaluation of small pure functions of /repo from their MIR facts, over concrete values of a
complete finite domain (exhaustive evaluation of an extracted computation; nothing of /repo is
compiled or run). A function is the set of its cycle-free paths to `return`; each path is the
list of branch conditions taken and the expression of the returned value as computed along that
path (pathterms + flow.shape_on + terms.parse). To evaluate a call the one path whose
conditions hold is selected and its return expression is evaluated.

Values: int / bool; dates as (y, m, d); Option as None | ("some", v); RangeInclusive as
("range", a, b); enum values with fields as ("enum", Variant, {field: v}); fieldless enum values
as their discriminant; arrays as lists.

Anything outside the modelled fragment raises Unmodelled: the calling rule fails closed."""

import re

import flow
import lib
import pathterms
import terms


class Unmodelled(Exception):
    pass


# ---- proleptic Gregorian calendar on (y, m, d) (chrono's NaiveDate range is wider than
# python's datetime, so dates are plain tuples) ---------------------------------------------------

MIN_YEAR, MAX_YEAR = -262143, 262142


def is_leap(y):
    return y % 4 == 0 and (y % 100 != 0 or y % 400 == 0)


def days_in_month(y, m):
    return [31, 29 if is_leap(y) else 28, 31, 30, 31, 30, 31, 31, 30, 31, 30, 31][m - 1]


def ymd_opt(y, m, d):
    if not (MIN_YEAR <= y <= MAX_YEAR) or not 1 <= m <= 12 or not 1 <= d <= days_in_month(y, m):
        return None
    return ("some", (y, m, d))


def succ(date):
    y, m, d = date
    if d < days_in_month(y, m):
        return (y, m, d + 1)
    if m < 12:
        return (y, m + 1, 1)
    return (y + 1, 1, 1)


def pred(date):
    y, m, d = date
    if d > 1:
        return (y, m, d - 1)
    if m > 1:
        return (y, m - 1, days_in_month(y, m - 1))
    return (y - 1, 12, 31)


def ordinal(date):
    y, m, d = date
    y0 = y - 1
    n = y0 * 365 + y0 // 4 - y0 // 100 + y0 // 400
    for mm in range(1, m):
        n += days_in_month(y, mm)
    return n + d


def from_ordinal(n):
    """Inverse of ordinal()."""
    y = max(1, n // 366)
    while ordinal((y + 1, 1, 1)) <= n:
        y += 1
    while ordinal((y, 1, 1)) > n:
        y -= 1
    rem = n - ordinal((y, 1, 1)) + 1
    m = 1
    while rem > days_in_month(y, m):
        rem -= days_in_month(y, m)
        m += 1
    return (y, m, rem)


def iso_week(date):
    """(ISO year, ISO week number) of a date."""
    y = date[0]
    doy = ordinal(date) - ordinal((y, 1, 1)) + 1
    wd = weekday(date) + 1  # 1 = Monday
    w = (doy - wd + 10) // 7

    def weeks_in(year):
        p = lambda yy: (yy + yy // 4 - yy // 100 + yy // 400) % 7
        return 53 if p(year) == 4 or p(year - 1) == 3 else 52
    if w < 1:
        return (y - 1, weeks_in(y - 1))
    if w > weeks_in(y):
        return (y + 1, 1)
    return (y, w)


def weekday(date):
    """0 = Monday."""
    return (ordinal(date) - 1) % 7


DATE_START = (1900, 1, 1)
DATE_END = (10000, 1, 1)


# ---- the evaluator -------------------------------------------------------------------------------

_ACC = re.compile(r"(\.[A-Za-z_0-9]+|@[A-Za-z_0-9]+|\[-?\d+\])")


class Evaluator:
    def __init__(self, prog, externs=None, consts=None):
        self.prog = prog
        self.externs = externs or {}
        self.consts = dict(consts or {})
        self._fn = {}
        self._disp = {}
        self._vars = {}
        self._resolve = {}
        self.unit = {}
        for aid, a in prog.adts.items():
            if not a["variants"] or any(v["fields"] for v in a["variants"]):
                continue
            if len(a["variants"]) < 2:
                continue
            discrs = a["discrs"] or list(range(len(a["variants"])))
            for v, dv in zip(a["variants"], discrs):
                self.unit.setdefault("%s::%s" % (aid.split("::")[-1], v["name"]), dv)
        self.evaluations = 0

    # -- function summaries ----------------------------------------------------------------------
    def summary(self, fn):
        s = self._fn.get(fn.id)
        if s is not None:
            return s
        rows = []
        loops = pathterms.has_cycle(fn)
        for r, b in fn.live_blocks():
            if b["term"]["k"] != "return":
                continue
            if True:
                # a body with a loop: paths in which every block is entered at most 5 times, every local resolved
                # to its last definition before the use along the path (flow.shape_at); more iterations than that
                # leave no feasible path and the evaluation fails closed
                for path in (pathterms.paths_with_loops(fn, r, max_visits=5) if loops else pathterms.acyclic_paths(fn, r)):
                    conds = []
                    for i, bb, op, taken, excluded in pathterms.conditions_at(fn, path):
                        sh = flow.shape_at(fn, op, path, (i, 10 ** 9), depth=64)
                        conds.append((self._parse(sh, fn), taken, excluded, self._discr_kind(fn, op), (i, bb)))
                    rows.append((path, conds, self._parse(flow.shape_at(fn, 0, path, depth=64), fn)))
                continue
            for path in pathterms.acyclic_paths(fn, r):
                conds = []
                for bb, op, taken, excluded in pathterms.conditions(fn, path):
                    sh = flow.shape_on(fn, op, path, depth=48)
                    conds.append((self._parse(sh, fn), taken, excluded, self._discr_kind(fn, op), bb))
                rows.append((path, conds, self._parse(flow.shape_on(fn, 0, path, depth=48), fn)))
        if not rows:
            raise Unmodelled("%s has no return path" % fn.id)
        self._fn[fn.id] = rows
        return rows

    def _parse(self, sh, fn):
        try:
            return terms.parse(sh)
        except terms.TermError as e:
            raise Unmodelled("%s: %s" % (fn.id, e))

    @staticmethod
    def _discr_kind(fn, op):
        pl = lib.operand_place(op)
        if pl is None:
            return None
        for _, n in fn.defs_of(pl["l"]):
            if n["k"] == "assign" and n["rv"]["k"] == "discr":
                src = n["rv"]["pl"]
                fs = [p for p in src["p"] if isinstance(p, dict) and "f" in p]
                ty = fs[-1]["ty"] if fs else fn.locals[src["l"]]["ty"]
                ty = (ty or "").replace("&", "").strip()
                if ty.startswith("core::ops::control_flow::ControlFlow") or ty.startswith("std::ops::ControlFlow"):
                    return "cf"
                if ty.startswith("core::option::Option") or ty.startswith("std::option::Option"):
                    return "opt"
                if ty.startswith("core::result::Result") or ty.startswith("std::result::Result"):
                    return "res"
                return ty
        return None

    def run(self, fn, args):
        """Value returned by fn(args)."""
        rows = self.summary(fn)
        env = {"p%d" % (i + 1): a for i, a in enumerate(args)}
        self.evaluations += 1
        self._depth = getattr(self, "_depth", 0) + 1
        try:
            if self._depth > 60:
                raise Unmodelled("%s: calls nested deeper than 60 for %r - the recursion may not terminate for these values" % (fn.id, args))
            return self._run(fn, rows, env, args)
        finally:
            self._depth -= 1

    def _run(self, fn, rows, env, args):
        chosen = None
        live = rows
        k = 0
        while live:
            done = [r for r in live if len(r[1]) == k]
            if done:
                chosen = (done[0][0], done[0][2])
                break
            # the paths still alive agree on the first k decisions, hence on the k-th switch
            bbs = {r[1][k][4] for r in live}
            if len(bbs) != 1:
                raise Unmodelled("%s: paths diverge without a decision" % fn.id)
            term, _, _, dk, _ = live[0][1][k]
            v = self._switch_value(term, env, dk, fn)
            live = [r for r in live if (v in r[1][k][1] if r[1][k][1] is not None else v not in r[1][k][2])]
            k += 1
        if chosen is None:
            raise Unmodelled("%s: no path is feasible for %r" % (fn.id, args))
        return self.ev(chosen[1], env, fn)

    def _switch_value(self, term, env, dk, fn):
        if term[0] == "app" and term[1] == "discr" and len(term[2]) == 1:
            v = self.ev(term[2][0], env, fn)
            return self.discr(v, dk, fn)
        v = self.ev(term, env, fn)
        if isinstance(v, bool):
            return int(v)
        if isinstance(v, int):
            return v
        raise Unmodelled("%s: switch on %r" % (fn.id, v))

    def discr(self, v, dk, fn):
        if isinstance(v, bool):
            return int(v)
        if isinstance(v, int):
            return v
        if v is None or (isinstance(v, tuple) and v and v[0] == "some"):
            some = v is not None
            if dk == "cf":
                return 0 if some else 1
            if dk == "opt":
                return 1 if some else 0
            if dk == "res":
                return 0 if some else 1
            raise Unmodelled("%s: discriminant of an option-like value of unknown type %r" % (fn.id, dk))
        if isinstance(v, tuple) and v and v[0] == "enum" and v[1] in ("Ok", "Err") and (dk is None or dk == "res" or str(dk).startswith("core::result::Result")):
            return 0 if v[1] == "Ok" else 1
        if isinstance(v, tuple) and v and v[0] == "enum":
            for aid, a in self.prog.adts.items():
                if dk and aid == dk.split("<")[0]:
                    names = [x["name"] for x in a["variants"]]
                    discrs = a["discrs"] or list(range(len(names)))
                    if v[1] in names:
                        return discrs[names.index(v[1])]
            # fall back: unique variant name among the program's enums
            cands = set()
            for aid, a in self.prog.adts.items():
                names = [x["name"] for x in a["variants"]]
                if v[1] in names and len(names) > 1:
                    discrs = a["discrs"] or list(range(len(names)))
                    cands.add(discrs[names.index(v[1])])
            if len(cands) == 1:
                return cands.pop()
        raise Unmodelled("%s: discriminant of %r" % (fn.id, v))

    # -- terms -----------------------------------------------------------------------------------
    def access(self, v, acc, fn):
        if acc.startswith("@"):
            name = acc[1:]
            if name in ("Some", "Continue", "Ok"):
                if isinstance(v, tuple) and v and v[0] == "some":
                    return ("payload", v[1])
                if isinstance(v, tuple) and v and v[0] == "enum" and v[1] == name:
                    return v
                raise Unmodelled("%s: %s of %r" % (fn.id, acc, v))
            if isinstance(v, tuple) and v and v[0] == "enum" and v[1] == name:
                return v
            if name == "Break" and v is None:
                return ("payload", None)  # the residual of `None?`
            raise Unmodelled("%s: downcast %s of %r" % (fn.id, acc, v))
        key = acc[1:] if acc.startswith(".") else acc
        if isinstance(v, tuple) and v and v[0] == "payload":
            if key == "0":
                return v[1] if v[1] is not None else ("residual-none",)
            raise Unmodelled("%s: field %s of a payload" % (fn.id, key))
        if isinstance(v, tuple) and v and v[0] == "enum":
            if key in v[2]:
                return v[2][key]
            raise Unmodelled("%s: field %s of %r" % (fn.id, key, v))
        if isinstance(v, tuple) and v and v[0] == "checked":
            return v[1] if key == "0" else False
        if isinstance(v, tuple) and v and v[0] == "tuple":
            return v[1][int(key)]
        if isinstance(v, dict):
            if key in v:
                return v[key]
        if isinstance(v, list) and acc.startswith("["):
            return v[int(acc[1:-1])]
        raise Unmodelled("%s: access %s of %r" % (fn.id, acc, v))

    def ev(self, node, env, fn):
        k = node[0]
        if k == "int":
            return node[1]
        if k == "var":
            return self.var(node[1], env, fn)
        if k == "str":
            import json as _json
            try:
                return _json.loads(node[1]) if node[1].startswith('"') else node[1][1:-1]
            except ValueError:
                return node[1]
        if k == "cast":
            x = self.ev(node[1], env, fn)
            if isinstance(x, bool):
                x = int(x)
            if not isinstance(x, int):
                raise Unmodelled("%s: cast of %r" % (fn.id, x))
            lo, hi = terms.INT_RANGE.get(node[2], (None, None))
            if lo is None:
                raise Unmodelled("%s: cast to %s" % (fn.id, node[2]))
            if not lo <= x <= hi:
                x = (x - lo) % (hi - lo + 1) + lo  # `as` wraps
            return x
        if k == "proj":
            v = self.ev(node[1], env, fn)
            acc = node[2]
            acc = acc if isinstance(acc, str) and acc.startswith("@") else "." + str(acc)
            for a in [p for p in _ACC.split(acc) if p]:
                v = self.access(v, a, fn)
            if isinstance(v, tuple) and v and v[0] == "payload":
                raise Unmodelled("%s: bare payload" % fn.id)
            return v
        if k == "agg":
            name = node[1].split("::")[-1]
            fields = {f: self.ev(a, env, fn) for f, a in node[2]}
            fields = {f: (a[1] if isinstance(a, tuple) and a and a[0] == "checked" else a) for f, a in fields.items()}
            if name in ("Some", "Ok", "Continue") and list(fields) == ["0"]:
                return ("some", fields["0"])
            return ("enum", name, fields)
        if k == "app":
            return self.app(node, env, fn)
        raise Unmodelled("%s: term %r" % (fn.id, node))

    def var(self, name, env, fn):
        pa = self._vars.get(name)
        if pa is None:
            parts = _ACC.split(name)
            pa = self._vars[name] = (parts[0], [p for p in parts[1:] if p])
        base, accs = pa
        if base in env:
            v = env[base]
        elif base.endswith("{}") and base[:-2] in self.unit:
            v = self.unit[base[:-2]]
        elif base in self.unit:
            v = self.unit[base]
        elif base.startswith("const:") and base[6:] in self.consts:
            v = self.consts[base[6:]]
        elif base in ("Option::None{}", "None{}", "Option::None"):
            v = None
        elif base.endswith("{}") and "::" in base:
            v = ("enum", base[:-2].split("::")[-1], {})  # a fieldless variant of an enum that also has variants with data
        elif base in ("true", "false"):
            v = base == "true"
        else:
            raise Unmodelled("%s: variable %s" % (fn.id, name))
        for a in accs:
            v = self.access(v, a, fn)
        if isinstance(v, tuple) and v and v[0] == "payload":
            raise Unmodelled("%s: bare payload %s" % (fn.id, name))
        return v

    CMP = {"Le": lambda a, b: a <= b, "Lt": lambda a, b: a < b, "Ge": lambda a, b: a >= b, "Gt": lambda a, b: a > b,
           "Eq": lambda a, b: a == b, "Ne": lambda a, b: a != b,
           "le": lambda a, b: a <= b, "lt": lambda a, b: a < b, "ge": lambda a, b: a >= b, "gt": lambda a, b: a > b,
           "eq": lambda a, b: a == b, "ne": lambda a, b: a != b}

    def app(self, node, env, fn):
        full = node[1]
        if full == "alt":
            raise Unmodelled("%s: value with several definitions on one path: %s" % (fn.id, node))
        args = [self.ev(a, env, fn) for a in node[2]]
        args = [a[1] if a.__class__ is tuple and a and a[0] == "checked" else a for a in args]
        key = (full, len(args))
        h = self._disp.get(key)
        if h is None:
            h = self._handler(full, len(args))
            self._disp[key] = h
        return h(args, fn)

    def _handler(self, full, n):
        name = full.split("::")[-1]
        ok = self._ord_key
        isdate = self._is_date

        def unmodelled(args, fn):
            raise Unmodelled("%s: call %s/%d on %r" % (fn.id, full, n, args))

        def guard(pred, f):
            def h(args, fn):
                if not pred(args):
                    return unmodelled(args, fn)
                return f(args, fn)
            return h

        ints = lambda args: all(isinstance(a, int) for a in args)
        d0 = lambda args: isdate(args[0])
        if full in self.externs:
            return lambda args, fn: self.externs[full](*args)
        if name in ("Add", "Sub", "Mul") and n == 2:
            op = {"Add": lambda a, b: a + b, "Sub": lambda a, b: a - b, "Mul": lambda a, b: a * b}[name]
            return guard(ints, lambda args, fn: ("checked", op(int(args[0]), int(args[1]))))
        if name == "mul" and n == 2 and re.search(r"(^|::)mul$", full):
            return guard(lambda a: ints(a) and not any(isinstance(x, bool) for x in a), lambda args, fn: int(args[0]) * int(args[1]))
        if name in ("Div", "Rem") and n == 2:
            def divrem(args, fn):
                a, b = int(args[0]), int(args[1])
                if b == 0:
                    raise Unmodelled("%s: division by zero" % fn.id)
                q = abs(a) // abs(b)
                q = q if (a >= 0) == (b >= 0) else -q
                return q if name == "Div" else a - q * b
            return guard(ints, divrem)
        if name in self.CMP and n == 2:
            cmp = self.CMP[name]
            equality = name.lower() in ("eq", "ne")

            def compare(args, fn):
                a, b = args
                if type(a) is not type(b) and not (isinstance(a, int) and isinstance(b, int)):
                    if not ((a is None or (isinstance(a, tuple) and a[0] == "some")) and (b is None or (isinstance(b, tuple) and b[0] == "some"))):
                        raise Unmodelled("%s: comparison of %r and %r" % (fn.id, a, b))
                return cmp(a, b) if equality else cmp(ok(a), ok(b))
            return compare
        if name in ("cmp", "partial_cmp") and n == 2:
            less, equal, greater = (self.unit.get("Ordering::" + x) for x in ("Less", "Equal", "Greater"))

            def ordering(args, fn):
                if None in (less, equal, greater):
                    raise Unmodelled("%s: core::cmp::Ordering is not in the facts" % fn.id)
                a, b = ok(args[0]), ok(args[1])
                r = less if a < b else greater if a > b else equal
                return ("some", r) if name == "partial_cmp" else r
            return ordering
        if name == "clamp" and n == 3:
            return lambda args, fn: args[1] if ok(args[0]) < ok(args[1]) else args[2] if ok(args[0]) > ok(args[2]) else args[0]
        if name in ("min", "max") and n == 2:
            return lambda args, fn: (args[0] if ok(args[0]) <= ok(args[1]) else args[1]) if name == "min" else (args[1] if ok(args[1]) >= ok(args[0]) else args[0])
        if name in ("Shl", "Shr") and n == 2:
            def shift(args, fn):
                a, b = int(args[0]), int(args[1])
                if b < 0 or b > 127:
                    raise Unmodelled("%s: shift by %d" % (fn.id, b))
                return ("checked", a << b if name == "Shl" else a >> b)
            return guard(ints, shift)
        if name in ("BitAnd", "BitOr", "BitXor") and n == 2:
            op = {"BitAnd": lambda a, b: a & b, "BitOr": lambda a, b: a | b, "BitXor": lambda a, b: a ^ b}[name]
            return guard(ints, lambda args, fn: op(args[0], args[1]))
        if name == "Not" and n == 1:
            return guard(ints, lambda args, fn: (not args[0]) if isinstance(args[0], bool) else ~args[0])
        if full == "closure" and n >= 1:
            return lambda args, fn: ("closure", args[0], list(args[1:]))
        isclo = lambda v: isinstance(v, tuple) and v and v[0] == "closure"
        if name in ("call", "call_once", "call_mut") and n == 2:
            return guard(lambda args: isclo(args[0]) and isinstance(args[1], tuple) and args[1][0] == "tuple", lambda args, fn: self.apply(args[0], args[1][1], fn))
        optfirst = lambda args: args[0] is None or (isinstance(args[0], tuple) and args[0] and args[0][0] == "some")
        if full.endswith("Option::or_else") and n == 2:
            return guard(lambda a: optfirst(a) and isclo(a[1]), lambda args, fn: args[0] if args[0] is not None else self.apply(args[1], [], fn))
        if full.endswith("Option::unwrap_or_else") and n == 2:
            return guard(lambda a: optfirst(a) and isclo(a[1]), lambda args, fn: args[0][1] if args[0] is not None else self.apply(args[1], [], fn))
        if full.endswith("Option::map") and n == 2:
            return guard(lambda a: optfirst(a) and isclo(a[1]), lambda args, fn: None if args[0] is None else ("some", self.apply(args[1], [args[0][1]], fn)))
        if full.endswith("Option::and_then") and n == 2:
            return guard(lambda a: optfirst(a) and isclo(a[1]), lambda args, fn: None if args[0] is None else self.apply(args[1], [args[0][1]], fn))
        if full.endswith("Option::filter") and n == 2:
            return guard(lambda a: optfirst(a) and isclo(a[1]), lambda args, fn: args[0] if args[0] is not None and self.apply(args[1], [args[0][1]], fn) else None)
        if full.endswith("Option::is_some_and") and n == 2:
            return guard(lambda a: optfirst(a) and isclo(a[1]), lambda args, fn: args[0] is not None and bool(self.apply(args[1], [args[0][1]], fn)))
        if full.endswith("Option::map_or") and n == 3:
            return guard(lambda a: optfirst(a) and isclo(a[2]), lambda args, fn: args[1] if args[0] is None else self.apply(args[2], [args[0][1]], fn))
        if full.endswith("Option::or") and n == 2:
            return guard(optfirst, lambda args, fn: args[0] if args[0] is not None else args[1])
        mnum = re.match(r"num_(\w+)::(\w+)$", full)
        if mnum and mnum.group(1) in terms.INT_RANGE and n == 2 and mnum.group(2) in ("checked_add", "checked_sub", "checked_mul", "saturating_add", "saturating_sub", "wrapping_add", "wrapping_sub", "div_ceil", "div_euclid", "rem_euclid", "min", "max", "pow"):
            lo, hi = terms.INT_RANGE[mnum.group(1)]
            op = mnum.group(2)

            def intop(args, fn):
                a, b = int(args[0]), int(args[1])
                base = op.split("_")[-1]
                if op in ("div_ceil", "div_euclid", "rem_euclid"):
                    if b == 0:
                        raise Unmodelled("%s: division by zero" % fn.id)
                    r = -(-a // b) if op == "div_ceil" else a // b if (op == "div_euclid" and b > 0) else a % b if (op == "rem_euclid" and b > 0) else None
                    if r is None:
                        raise Unmodelled("%s: %s with a negative divisor" % (fn.id, op))
                    return r
                if op in ("min", "max"):
                    return min(a, b) if op == "min" else max(a, b)
                r = a + b if base == "add" else a - b if base == "sub" else a * b if base == "mul" else a ** b
                if op.startswith("checked_"):
                    return ("some", r) if lo <= r <= hi else None
                if op.startswith("saturating_"):
                    return max(lo, min(hi, r))
                if op.startswith("wrapping_"):
                    return (r - lo) % (hi - lo + 1) + lo
                return r
            return guard(lambda a: ints(a) and not any(isinstance(x, bool) for x in a), intop)
        if mnum and mnum.group(1) in terms.INT_RANGE and n == 1 and mnum.group(2) in ("abs", "unsigned_abs", "signum", "is_negative", "is_positive", "count_ones", "trailing_zeros", "leading_zeros"):
            op1 = mnum.group(2)
            bits = {"u8": 8, "i8": 8, "u16": 16, "i16": 16, "u32": 32, "i32": 32, "u64": 64, "i64": 64, "usize": 64, "isize": 64}[mnum.group(1)]

            def int1(args, fn):
                a = int(args[0])
                if op1 in ("abs", "unsigned_abs"):
                    return abs(a)
                if op1 == "signum":
                    return (a > 0) - (a < 0)
                if op1 == "is_negative":
                    return a < 0
                if op1 == "is_positive":
                    return a > 0
                u = a % (1 << bits)
                if op1 == "count_ones":
                    return bin(u).count("1")
                if op1 == "trailing_zeros":
                    return bits if u == 0 else (u & -u).bit_length() - 1
                return bits - u.bit_length()
            return guard(lambda a: ints(a) and not isinstance(a[0], bool), int1)
        if name == "from_residual" and n == 1:
            return guard(lambda a: a[0] == ("residual-none",) or a[0] is None, lambda args, fn: None)
        if full.endswith("Result::ok") and n == 1:
            return lambda args, fn: args[0] if (args[0] is None or (isinstance(args[0], tuple) and args[0] and args[0][0] == "some")) else (("some", args[0][2]["0"]) if isinstance(args[0], tuple) and args[0][0] == "enum" and args[0][1] == "Ok" else None)
        if name == "checked_sub" and n == 2:
            return guard(ints, lambda args, fn: ("some", args[0] - args[1]) if args[0] >= args[1] else None)
        if name == "saturating_sub" and n == 2:
            return guard(ints, lambda args, fn: max(args[0] - args[1], 0))
        if name == "div_ceil" and n == 2:
            def div_ceil(args, fn):
                if args[1] <= 0 or args[0] < 0:
                    raise Unmodelled("%s: div_ceil(%r, %r)" % (fn.id, args[0], args[1]))
                return -(-args[0] // args[1])
            return guard(ints, div_ceil)
        if name in ("try_into", "try_from") and n == 2 and True:
            def conv(args, fn):
                target = str(args[1]).strip("'\"")
                r = terms.INT_RANGE.get(target)
                a = self.prog.adts.get(target)
                if r is None and a is not None and a["variants"] and not any(v["fields"] for v in a["variants"]) and isinstance(args[0], int):
                    discrs = a["discrs"] or list(range(len(a["variants"])))
                    return ("some", int(args[0])) if args[0] in discrs else None
                if r is None or not isinstance(args[0], int):
                    raise Unmodelled("%s: %s to %r" % (fn.id, name, args[1]))
                return ("some", int(args[0])) if r[0] <= args[0] <= r[1] else None
            return conv
        # chrono durations in whole days and date arithmetic
        isdays = lambda v: isinstance(v, tuple) and len(v) == 2 and v[0] == "days"
        if full.endswith("TimeDelta::days") and n == 1:
            return guard(ints, lambda args, fn: ("days", int(args[0])))
        if full.endswith("TimeDelta::num_days") and n == 1:
            return guard(lambda a: isdays(a[0]), lambda args, fn: args[0][1])
        if name in ("sub", "add") and n == 2 and re.search(r"(^|::)(add|sub)$", full):
            def date_arith(args, fn):
                a, b = args
                if isdate(a) and isdays(b):
                    o = ordinal(a) + (b[1] if name == "add" else -b[1])
                    if o < 1:
                        raise Unmodelled("%s: date before year 1" % fn.id)
                    return from_ordinal(o)
                if isdate(a) and isdate(b) and name == "sub":
                    return ("days", ordinal(a) - ordinal(b))
                if isinstance(a, int) and isinstance(b, int) and not isinstance(a, bool) and not isinstance(b, bool):
                    r = a + b if name == "add" else a - b
                    if r < 0:
                        raise Unmodelled("%s: %s(%d, %d) is negative (an overflow trap on unsigned values)" % (fn.id, name, a, b))
                    return r
                raise Unmodelled("%s: %s on %r, %r" % (fn.id, name, a, b))
            return date_arith
        if full.endswith("Months::new") and n == 1:
            return guard(ints, lambda args, fn: ("months", int(args[0])))
        if full.endswith("NaiveDate::checked_add_months") and n == 2:
            def add_months(args, fn):
                (y, m, d), k = args[0], args[1][1]
                t = (y * 12 + (m - 1)) + k
                y2, m2 = t // 12, t % 12 + 1
                if y2 > MAX_YEAR:
                    return None
                return ("some", (y2, m2, min(d, days_in_month(y2, m2))))
            return guard(lambda a: isdate(a[0]) and isinstance(a[1], tuple) and a[1][0] == "months", add_months)
        if name == "with_day" and n == 2:
            return guard(lambda a: isdate(a[0]) and isinstance(a[1], int), lambda args, fn: ymd_opt(args[0][0], args[0][1], args[1]))
        if full.endswith("NaiveDate::from_isoywd_opt") and n == 3:
            def isoywd(args, fn):
                y, w, wd = args
                if not (isinstance(y, int) and isinstance(w, int) and isinstance(wd, int)) or not 0 <= wd <= 6:
                    raise Unmodelled("%s: from_isoywd_opt%r" % (fn.id, tuple(args)))
                if not (MIN_YEAR < y < MAX_YEAR) or w < 1 or w > 53:
                    return None
                jan4 = (y, 1, 4)
                d = from_ordinal(ordinal(jan4) - weekday(jan4) + (w - 1) * 7 + wd)
                return ("some", d) if iso_week(d) == (y, w) else None
            return isoywd
        if name == "iso_week" and n == 1:
            return guard(d0, lambda args, fn: ("isoweek",) + iso_week(args[0]))
        isiw = lambda a: isinstance(a[0], tuple) and len(a[0]) == 3 and a[0][0] == "isoweek"
        if full.endswith("IsoWeek::week") and n == 1:
            return guard(isiw, lambda args, fn: args[0][2])
        if full.endswith("IsoWeek::week0") and n == 1:
            return guard(isiw, lambda args, fn: args[0][2] - 1)
        if full.endswith("IsoWeek::year") and n == 1:
            return guard(isiw, lambda args, fn: args[0][1])
        if name == "weekday" and n == 1:
            return guard(d0, lambda args, fn: weekday(args[0]))
        if name == "index" and n == 2:
            def index(args, fn):
                v, i = args
                if isinstance(v, list) and isinstance(i, int) and not isinstance(i, bool) and 0 <= i < len(v):
                    return v[i]
                if isinstance(v, list) and isinstance(i, tuple) and i and i[0] == "enum" and i[1] in ("RangeFrom", "Range", "RangeTo"):
                    lo = int(i[2].get("start", 0))
                    hi = int(i[2].get("end", len(v)))
                    if not 0 <= lo <= hi <= len(v):
                        raise Unmodelled("%s: slice index %d..%d out of a sequence of %d (a panic path) for these values" % (fn.id, lo, hi, len(v)))
                    return v[lo:hi]
                return unmodelled(args, fn)
            return index
        # iterators over finite sequences, as lists (pure pipelines: laziness does not matter)
        def aslist(v, fn):
            if isinstance(v, list):
                return list(v)
            if v is None:
                return []
            if isinstance(v, tuple) and v and v[0] == "some":
                return [v[1]]
            if isinstance(v, tuple) and v and v[0] == "enum" and v[1] == "Range" and set(v[2]) == {"start", "end"}:
                return list(range(int(v[2]["start"]), int(v[2]["end"])))
            if isinstance(v, tuple) and v and v[0] == "range" and isinstance(v[1], int) and isinstance(v[2], int):
                return list(range(v[1], v[2] + 1))
            raise Unmodelled("%s: %r is not a finite sequence" % (fn.id, v))
        if full in ("::into_iter", "IntoIterator::into_iter", "Option::into_iter", "Option::iter", "Range::into_iter", "RangeInclusive::into_iter", "Vec::into_iter", "Vec::iter") and n == 1:
            return lambda args, fn: aslist(args[0], fn)
        if (full.endswith("slice::iter") or full.endswith("VecDeque::iter") or full.endswith("Iter::into_iter")) and n == 1:
            return lambda args, fn: aslist(args[0], fn)
        if full.endswith("Iterator::enumerate") and n == 1:
            return lambda args, fn: [("tuple", [i, x]) for i, x in enumerate(aslist(args[0], fn))]
        if full.endswith("Iterator::skip") and n == 2:
            return guard(lambda a: isinstance(a[1], int) and a[1] >= 0, lambda args, fn: aslist(args[0], fn)[args[1]:])
        if full.endswith("Iterator::take") and n == 2:
            return guard(lambda a: isinstance(a[1], int) and a[1] >= 0, lambda args, fn: aslist(args[0], fn)[:args[1]])
        if full.endswith("Iterator::zip") and n == 2:
            def zip_(args, fn):
                a, b = args
                isfrom = lambda v: isinstance(v, tuple) and v and v[0] == "enum" and v[1] == "RangeFrom"
                if isfrom(a) and not isfrom(b):
                    lb = aslist(b, fn)
                    la = [int(a[2]["start"]) + i for i in range(len(lb))]
                elif isfrom(b) and not isfrom(a):
                    la = aslist(a, fn)
                    lb = [int(b[2]["start"]) + i for i in range(len(la))]
                else:
                    la, lb = aslist(a, fn), aslist(b, fn)
                return [("tuple", [x, y]) for x, y in zip(la, lb)]
            return zip_
        if full.endswith("Iterator::find_map") and n == 2:
            def find_map(args, fn):
                for x in aslist(args[0], fn):
                    r = self.apply(args[1], [x], fn)
                    if r is not None:
                        if not (isinstance(r, tuple) and r and r[0] == "some"):
                            raise Unmodelled("%s: find_map closure returned %r" % (fn.id, r))
                        return r
                return None
            return guard(lambda a: isclo(a[1]), find_map)
        if full.endswith("Iterator::find") and n == 2:
            def find(args, fn):
                for x in aslist(args[0], fn):
                    if self.apply(args[1], [x], fn):
                        return ("some", x)
                return None
            return guard(lambda a: isclo(a[1]), find)
        if full.endswith("Iterator::rev") and n == 1:
            return lambda args, fn: list(reversed(aslist(args[0], fn)))
        if full.endswith("Iterator::chain") and n == 2:
            return lambda args, fn: aslist(args[0], fn) + aslist(args[1], fn)
        if full.endswith("Iterator::map") and n == 2:
            return guard(lambda a: isclo(a[1]), lambda args, fn: [self.apply(args[1], [x], fn) for x in aslist(args[0], fn)])
        if full.endswith("Iterator::filter") and n == 2:
            return guard(lambda a: isclo(a[1]), lambda args, fn: [x for x in aslist(args[0], fn) if self.apply(args[1], [x], fn)])
        if full.endswith("Iterator::filter_map") and n == 2:
            def filter_map(args, fn):
                out = []
                for x in aslist(args[0], fn):
                    r = self.apply(args[1], [x], fn)
                    if r is not None:
                        if not (isinstance(r, tuple) and r and r[0] == "some"):
                            raise Unmodelled("%s: filter_map closure returned %r" % (fn.id, r))
                        out.append(r[1])
                return out
            return guard(lambda a: isclo(a[1]), filter_map)
        if full in ("::next", "Iterator::next", "IntoIter::next", "Chain::next", "Rev::next", "FilterMap::next", "Map::next") and n == 1:
            # the first element of a sequence that was just built (a fresh iterator)
            return lambda args, fn: (("some", aslist(args[0], fn)[0]) if aslist(args[0], fn) else None)
        if full.endswith("Iterator::last") and n == 1:
            return lambda args, fn: (("some", aslist(args[0], fn)[-1]) if aslist(args[0], fn) else None)
        if full.endswith("Iterator::count") and n == 1:
            return lambda args, fn: len(aslist(args[0], fn))
        if full.endswith("Iterator::any") and n == 2:
            return guard(lambda a: isclo(a[1]), lambda args, fn: any(bool(self.apply(args[1], [x], fn)) for x in aslist(args[0], fn)))
        if full.endswith("Iterator::all") and n == 2:
            return guard(lambda a: isclo(a[1]), lambda args, fn: all(bool(self.apply(args[1], [x], fn)) for x in aslist(args[0], fn)))
        if full.endswith("Iterator::min") and n == 1:
            return lambda args, fn: (("some", min(aslist(args[0], fn), key=ok)) if aslist(args[0], fn) else None)
        if full.endswith("Iterator::max") and n == 1:
            return lambda args, fn: (("some", max(aslist(args[0], fn), key=ok)) if aslist(args[0], fn) else None)
        if full.endswith("Iterator::collect") and n == 1:
            return lambda args, fn: aslist(args[0], fn)
        if name == "array":
            return lambda args, fn: list(args)
        if name == "tuple":
            return lambda args, fn: ("tuple", list(args))
        if name == "discr" and n == 1:
            return lambda args, fn: self.discr(args[0], None, fn)
        if full.endswith("Option::unwrap_or") and n == 2:
            return lambda args, fn: args[0][1] if args[0] is not None else args[1]
        if name in ("unwrap", "expect") and n >= 1:
            def unwrap(args, fn):
                if args[0] is None:
                    raise Unmodelled("%s: unwrap of None (a panic path) for these values" % fn.id)
                if isinstance(args[0], tuple) and args[0] and args[0][0] == "some":
                    return args[0][1]
                return args[0]
            return unwrap
        if name in ("Some", "Ok") and n == 1:
            return lambda args, fn: ("some", args[0])
        if name in ("from", "into") and n == 1:
            return guard(ints, lambda args, fn: args[0])
        if name in ("try_into", "try_from") and n == 1:
            # no target type known (shape not taken in path mode): only values every integer type holds
            return guard(lambda a: ints(a) and 0 <= a[0] <= 127, lambda args, fn: ("some", args[0]))
        isrange = lambda args: isinstance(args[0], tuple) and args[0] and args[0][0] == "range"
        if full.endswith("RangeInclusive::start") and n == 1:
            return guard(isrange, lambda args, fn: args[0][1])
        if full.endswith("RangeInclusive::end") and n == 1:
            return guard(isrange, lambda args, fn: args[0][2])
        if full.endswith("RangeInclusive::new") and n == 2:
            return lambda args, fn: ("range", args[0], args[1])
        if full.endswith("RangeInclusive::into_inner") and n == 1:
            return guard(isrange, lambda args, fn: ("tuple", [args[0][1], args[0][2]]))
        if full.endswith("RangeInclusive::contains") and n == 2:
            return guard(isrange, lambda args, fn: ok(args[0][1]) <= ok(args[1]) <= ok(args[0][2]))
        d0 = lambda args: isdate(args[0])
        if full.endswith("NaiveDate::from_ymd_opt") and n == 3:
            return guard(ints, lambda args, fn: ymd_opt(*args))
        if full.endswith("NaiveDate::pred_opt") and n == 1:
            return guard(d0, lambda args, fn: ("some", pred(args[0])) if args[0] > (MIN_YEAR, 1, 1) else None)
        if full.endswith("NaiveDate::succ_opt") and n == 1:
            return guard(d0, lambda args, fn: ("some", succ(args[0])) if args[0] < (MAX_YEAR, 12, 31) else None)
        if name in ("year", "month", "day") and n == 1:
            ix = ("year", "month", "day").index(name)
            return guard(d0, lambda args, fn: args[0][ix])
        if name == "with_year" and n == 2:
            return guard(d0, lambda args, fn: ymd_opt(args[1], args[0][1], args[0][2]))
        if name == "date" and n == 1:
            return guard(d0, lambda args, fn: args[0])
        # slices of distinct ordered values
        islist = lambda args: isinstance(args[0], list)
        if full.endswith("slice::binary_search") and n == 2:
            def bsearch(args, fn):
                v, x = args
                if any(ok(v[i]) >= ok(v[i + 1]) for i in range(len(v) - 1)):
                    raise Unmodelled("%s: binary_search on a slice that is not strictly increasing" % fn.id)
                for i, e in enumerate(v):
                    if ok(e) == ok(x):
                        return ("enum", "Ok", {"0": i})
                    if ok(e) > ok(x):
                        return ("enum", "Err", {"0": i})
                return ("enum", "Err", {"0": len(v)})
            return guard(islist, bsearch)
        if (full.endswith("slice::get") or full.endswith("VecDeque::get") or full.endswith("Vec::get")) and n == 2:
            return guard(islist, lambda args, fn: ("some", args[0][args[1]]) if isinstance(args[1], int) and 0 <= args[1] < len(args[0]) else None)
        if full.endswith("slice::last") and n == 1:
            return guard(islist, lambda args, fn: ("some", args[0][-1]) if args[0] else None)
        if full.endswith("slice::first") and n == 1:
            return guard(islist, lambda args, fn: ("some", args[0][0]) if args[0] else None)
        if (full.endswith("slice::len") or full.endswith("Vec::len")) and n == 1:
            return guard(islist, lambda args, fn: len(args[0]))
        if (full.endswith("slice::is_empty") or full.endswith("Vec::is_empty")) and n == 1:
            return guard(islist, lambda args, fn: not args[0])
        if full.endswith("slice::contains") and n == 2:
            return guard(islist, lambda args, fn: args[1] in args[0])
        isres = lambda args: isinstance(args[0], tuple) and args[0] and args[0][0] == "enum" and args[0][1] in ("Ok", "Err")
        if full.endswith("Result::is_ok") and n == 1:
            return guard(isres, lambda args, fn: args[0][1] == "Ok")
        if full.endswith("Result::is_err") and n == 1:
            return guard(isres, lambda args, fn: args[0][1] == "Err")
        isopt = lambda args: args[0] is None or (isinstance(args[0], tuple) and args[0] and args[0][0] == "some")
        if full.endswith("Option::is_some") and n == 1:
            return guard(isopt, lambda args, fn: args[0] is not None)
        if full.endswith("Option::is_none") and n == 1:
            return guard(isopt, lambda args, fn: args[0] is None)
        callee = self.resolve(full, n)
        if callee is not None:
            return lambda args, fn: self.run(callee, args)

        def by_site(args, fn):
            # the short name is ambiguous program-wide: use the callee resolved at this function's call sites
            ids = flow._CALLEES.get((fn.id, full, n), set())
            cands = [self.prog.fns[i] for i in ids if i in self.prog.fns and self.prog.fns[i].crate in lib.WS_LIBS]
            if len(ids) == 1 and len(cands) == 1:
                return self.run(cands[0], args)
            return unmodelled(args, fn)
        return by_site

    def apply(self, clo, args, fn):
        """Call a closure value ("closure", def id, captures) of /repo."""
        callee = self.prog.fns.get(clo[1])
        if callee is None:
            raise Unmodelled("%s: closure %s has no body in the facts" % (fn.id, clo[1]))
        return self.run(callee, [("tuple", list(clo[2]))] + list(args))

    @staticmethod
    def _is_date(v):
        return isinstance(v, tuple) and len(v) == 3 and all(isinstance(x, int) for x in v)

    @staticmethod
    def _ord_key(v):
        if v is None:
            return (0,)
        if isinstance(v, tuple) and v and v[0] == "some":
            return (1, Evaluator._ord_key(v[1]))
        if isinstance(v, tuple) and v and v[0] == "checked":
            return v[1]
        return v

    def resolve(self, full, nargs):
        key = (full, nargs)
        if key in self._resolve:
            return self._resolve[key]
        segs = [s for s in full.split("::") if s]
        res = None
        if segs:
            cands = []
            for fid, f in self.prog.fns.items():
                if f.crate not in lib.WS_LIBS or f.j["arg_count"] != nargs:
                    continue
                short = flow.short_name(fid)
                if short == full or (len(segs) == 1 and fid.endswith("::" + segs[0])):
                    cands.append(f)
            if len(cands) == 1:
                res = cands[0]
        self._resolve[key] = res
        return res
