"""C19 - ExtendedTime is a faithful 00:00..48:00 minute counter.

Decided: values exist only behind the range check and the accepted region of `new` is exactly
{(h, m): m <= 59 and 60h+m <= 2880} (R1, path boxes over comparisons with constants);
arithmetic is done in wide-enough types and narrowing goes through checked conversions (R2,
interval analysis); the HH:MM format (R3); conversions (R4). Not decided: results of add_* as
values beyond 'no silent wrap', ordering (derived on (hour, minute): argument recorded).
"""

import re

import flow
import intervals
import lib
import witness

ET = "opening_hours_syntax::extended_time::ExtendedTime"


def et_aggregates(prog):
    for f in prog.fns.values():
        for bb, s in f.stmts():
            if s["k"] == "assign" and s["rv"]["k"] == "agg" and s["rv"].get("adt") == ET:
                yield f, bb, s


def run(ctx, prog, res):
    adt = prog.adt(ET)
    new = prog.require_fn(ET + "::new")

    # R1 -------------------------------------------------------------------------------------
    r1 = res.rule("C19.R1", "ExtendedTime values are only built behind the range check: struct literals occur in `new` (accepted region = exactly minute<=59 and 60*hour+minute<=2880) and in From<NaiveTime> (hour()/minute() of a NaiveTime); fields are private and never assigned")
    max_h = max_m = None
    for f, bb, s in et_aggregates(prog):
        key = "C19.R1:%s" % f.id
        if f.impl and f.impl.get("derived"):
            r1.ok({"site": f.id, "kind": "derive expansion"})
            continue
        if f.id == new.id:
            boxes = intervals.path_boxes(new, bb)
            ops = s["rv"]["ops"]
            direct = flow.root_params(new, ops[0]) == {1} and flow.root_params(new, ops[1]) == {2} and not flow.origin_calls(new, ops[0]) and not flow.origin_calls(new, ops[1]) \
                and not [o for o in flow.operand_origins(new, ops[0]) + flow.operand_origins(new, ops[1]) if o.kind in ("bin", "const")]
            r1.check(direct, {"site": f.id, "fields": "hour <- param hour, minute <- param minute (unmodified)"}, key + ":operands",
                     "`new` does not store its parameters unmodified in (hour, minute)", lib.where_of(new, s))
            if boxes is None:
                res.notes.append("C19.R1: branches of `new` are not all parameter-vs-constant comparisons; acceptance region left to witness C19.W1")
                r1.ok({"site": f.id, "acceptance_region": "not analysable by path boxes; decided by compile-time witness W1"})
                max_h, max_m = 48, 59
                continue
            acc = set()
            for b in boxes:
                for h in range(b[1][0], b[1][1] + 1):
                    for m in range(b[2][0], b[2][1] + 1):
                        acc.add((h, m))
            spec = {(h, m) for h in range(256) for m in range(256) if m <= 59 and 60 * h + m <= 2880}
            extra = sorted(acc - spec)[:5]
            missing = sorted(spec - acc)[:5]
            r1.check(acc == spec, {"site": f.id, "paths_to_literal": len(boxes), "accepted_pairs": len(acc), "spec_pairs": len(spec)}, key + ":region",
                     "`new` accepts a wrong set of (hour, minute) pairs: wrongly accepted %s, wrongly rejected %s" % (extra, missing), lib.where_of(new, s))
            if acc:
                max_h = max(h for h, _ in acc)
                max_m = max(m for _, m in acc)
            continue
        if f.impl and f.impl.get("trait") == "core::convert::From" and f.impl.get("self_adt") == ET and "NaiveTime" in f.id:
            ops = s["rv"]["ops"]
            names = []
            ok = True
            for op, want in zip(ops, ("hour", "minute")):
                calls = [flow.call_name(c) for c in flow.deep_origin_calls(f, op)]
                names.append(calls)
                ok &= any(c.endswith("Timelike>::" + want) or c.endswith("Timelike::" + want) for c in calls)
                ok &= all(re.search(r"(Timelike>?::(hour|minute)$|::try_into$|::expect$|::into$)", c) for c in calls)
            r1.check(ok, {"site": f.id, "fields": "hour <- time.hour(), minute <- time.minute() via checked narrowing"}, key,
                     "From<NaiveTime> does not build (hour, minute) from time.hour()/time.minute() through checked conversions only", lib.where_of(f, s), {"calls": names})
            continue
        r1.fail(key, "ExtendedTime struct literal outside `new`/From<NaiveTime>: %s" % f.id, lib.where_of(f, s))
    for fld in adt["variants"][0]["fields"]:
        r1.check(fld["vis"].startswith("restricted:"), {"field": fld["name"], "vis": fld["vis"]}, "C19.R1:vis:%s" % fld["name"], "field %s is public" % fld["name"])
    for f in prog.fns.values():
        for bb, s in f.stmts():
            if s["k"] == "assign" and any(a == ET for a, _, _ in lib.place_fields(s["dst"])):
                r1.fail("C19.R1:assign:%s" % f.id, "a field of ExtendedTime is assigned in %s" % f.id, lib.where_of(f, s))
            if s["k"] == "assign" and s["rv"]["k"] == "ref" and s["rv"]["mut"] and any(a == ET for a, _, _ in lib.place_fields(s["rv"]["pl"])) and not (f.impl and f.impl.get("derived")):
                r1.fail("C19.R1:mutref:%s" % f.id, "a field of ExtendedTime is mutably borrowed in %s" % f.id, lib.where_of(f, s))
    r1.floor(5)
    if max_h is None:
        max_h, max_m = 48, 59

    # R2 -------------------------------------------------------------------------------------
    r2 = res.rule("C19.R2", "arithmetic on extended times cannot wrap: every overflow-checked operation stays inside its type for hour<=%d, minute<=%d and any argument; every `as` cast is value-preserving; no wrapping/unchecked/overflowing/saturating integer operation; narrowing goes through try_into/try_from" % (max_h, max_m))
    field_ranges = {(ET, "hour"): (0, max_h), (ET, "minute"): (0, max_m)}
    summaries = {}
    methods = [f for f in prog.fns.values() if f.crate == lib.SYN and f.file.endswith("extended_time.rs") and f.kind in ("AssocFn", "Fn") and not (f.impl and f.impl.get("derived"))]
    if len(methods) < 8:
        r2.anchor_missing("methods of ExtendedTime (found %d)" % len(methods))

    def call_ranges(an, t):
        name = lib.callee_id(t["callee"])
        if name in summaries:
            return summaries[name]
        return None

    # summary of mins_from_midnight first (callee of add_minutes)
    order = sorted(methods, key=lambda f: 0 if f.name == "mins_from_midnight" else 1)
    for f in order:
        an = intervals.Analysis(f, field_ranges=field_ranges, call_ranges=call_ranges)
        if f.j.get("output") in intervals.INT_RANGES:
            rets = an.env.get(0)
            summaries[f.id] = rets
        for bb, t, m, ety, ok in an.overflow_checks:
            r2.check(ok, {"fn": f.id, "op": t["msg"], "range": list(m) if m else None, "type": ety}, "C19.R2:overflow:%s:%s" % (f.name, t["msg"]),
                     "%s in %s can overflow %s: mathematical range %s" % (t["msg"], f.id, ety, m), lib.where_of(f, t))
        for bb, s, src, sty, dty, ok in an.casts:
            r2.check(ok, {"fn": f.id, "cast": "%s as %s" % (sty, dty), "range": list(src) if src else None}, "C19.R2:cast:%s:%s->%s" % (f.name, sty, dty),
                     "`as` cast %s -> %s in %s is not value-preserving on %s" % (sty, dty, f.id, src), lib.where_of(f, s))
        for bb, t in f.calls():
            for n in flow.call_names(t):
                if re.search(r"core::num::<impl \w+>::(wrapping_|unchecked_|overflowing_|saturating_|unbounded_)", n):
                    r2.fail("C19.R2:wrapping:%s:%s" % (f.name, n), "%s uses %s (silent wrap/saturation instead of a checked operation)" % (f.id, n), lib.where_of(f, t))
        # plain (non-checked) arithmetic statements that rustc did not guard (release semantics) do not exist at
        # mir-opt-level=0 with overflow checks on; shifts are not used here.
    r2.check(summaries.get(ET + "::mins_from_midnight") == (0, 60 * max_h + max_m), {"summary": "mins_from_midnight in [0, %d]" % (60 * max_h + max_m)},
             "C19.R2:summary", "mins_from_midnight summary is %s" % (summaries.get(ET + "::mins_from_midnight"),))
    am = prog.require_fn(ET + "::add_minutes")
    adds = [t for _, t in am.calls() if re.search(r"core::num::<impl i\d+>::checked_add$", flow.call_name(t))]
    r2.check(len(adds) == 1, {"fn": am.id, "addition": "checked_add"}, "C19.R2:add_minutes-checked", "add_minutes does not add through checked_add", lib.where_of(am))
    r2.floor(3)

    # R3 -------------------------------------------------------------------------------------
    r3 = res.rule("C19.R3", "Display prints zero-padded HH:MM: template = [arg(width 2, zero pad) ':' arg(width 2, zero pad)] bound to hour then minute")
    disp = prog.impl_method_one("core::fmt::Display", "fmt", self_adt=ET)
    tmpl = None
    args_fields = []
    for bb, t in disp.calls():
        if flow.call_name(t).startswith("core::fmt::Arguments::<'a>::new") and t["args"]:
            for o in flow.operand_origins(disp, t["args"][0]):
                if o.kind == "const" and o.node.get("bytes") is not None:
                    tmpl = flow.decode_fmt_template(o.node["bytes"])
        if "core::fmt::rt::Argument::<'_>::new_" in flow.call_name(t):
            args_fields.append((flow.call_name(t).split("::")[-1], [n for _, _, n in flow.origin_fields(disp, t["args"][0]) if n in ("hour", "minute")]))
    ok = False
    if tmpl is not None and len(tmpl) == 3:
        a, l, b = tmpl
        ok = (a[0] == "arg" and b[0] == "arg" and l == ("lit", ":")
              and all(x[1]["width"] == 2 and x[1]["zero_pad"] and not x[1]["plus"] and x[1]["precision"] is None and not x[1]["alternate"] for x in (a, b))
              and a[1]["index"] == 0 and b[1]["index"] == 1
              and [f for _, f in args_fields] == [["hour"], ["minute"]]
              and all(k == "new_display" for k, _ in args_fields))
    r3.check(ok, {"template": [p if p[0] == "lit" else ("arg", {k: p[1][k] for k in ("index", "width", "zero_pad")}) for p in (tmpl or [])], "args": args_fields},
             "C19.R3:template", "Display for ExtendedTime is not `{hour:02}:{minute:02}`: %s with args %s" % (tmpl, args_fields), lib.where_of(disp))

    # R4 -------------------------------------------------------------------------------------
    r4 = res.rule("C19.R4", "conversions: TryInto<NaiveTime> passes (hour, minute, 0) in that order to from_hms_opt and maps None to Err; mins_from_midnight multiplies the hour by 60; from_mins_from_midnight divides for the hour and takes the remainder for the minute")
    ti = prog.impl_method_one("core::convert::TryInto", "try_into", self_adt=ET)
    hms = [t for _, t in ti.calls() if flow.call_name(t).endswith("NaiveTime::from_hms_opt")]
    ok = False
    if len(hms) == 1:
        a = hms[0]["args"]
        ok = ([n for _, _, n in flow.origin_fields(ti, a[0])] == ["hour"] and [n for _, _, n in flow.origin_fields(ti, a[1])] == ["minute"]
              and a[2].get("k") == "const" and a[2].get("int") == 0
              and all(flow.call_name(c).endswith("::into") for c in flow.deep_origin_calls(ti, a[0]) + flow.deep_origin_calls(ti, a[1])))
        rets = [flow.call_name(c) for c in flow.origin_calls(ti, 0)]
        ok = ok and rets == ["core::option::Option::<T>::ok_or"]
    r4.check(ok, {"fn": ti.id, "call": "from_hms_opt(hour, minute, 0).ok_or(())"}, "C19.R4:try_into", "TryInto<NaiveTime> is not from_hms_opt(hour, minute, 0).ok_or(..)", lib.where_of(ti))
    mm = prog.require_fn(ET + "::mins_from_midnight")
    muls = [s for _, s in mm.stmts() if s["k"] == "assign" and s["rv"]["k"] == "bin" and s["rv"]["op"].startswith("Mul")]
    ok = False
    if len(muls) == 1:
        a, b = muls[0]["rv"]["a"], muls[0]["rv"]["b"]
        c, v = (a, b) if a.get("k") == "const" else (b, a)
        ok = c.get("int") == 60 and [n for _, _, n in flow.origin_fields(mm, v)] == ["hour"]
    adds = [s for _, s in mm.stmts() if s["k"] == "assign" and s["rv"]["k"] == "bin" and s["rv"]["op"].startswith("Add")]
    if ok and len(adds) == 1:
        fs = sorted(n for op in (adds[0]["rv"]["a"], adds[0]["rv"]["b"]) for _, _, n in flow.origin_fields(mm, op))
        ok = "minute" in fs
    else:
        ok = False
    pending4 = [("mins_from_midnight", ok, {"fn": mm.id, "formula": "minute + 60 * hour"}, "C19.R4:mins_from_midnight", "mins_from_midnight is not minute + 60*hour", lib.where_of(mm))]
    fm = prog.require_fn(ET + "::from_mins_from_midnight")
    newc = [t for _, t in fm.calls() if flow.call_name(t) == new.id]
    ok = False
    if len(newc) == 1:
        def arith(op):
            return [n["rv"]["op"] for n in flow.deep_origin_calls(fm, op) if n["k"] == "assign" and n["rv"]["k"] == "bin" and n["rv"]["op"] in ("Div", "Rem")]
        def consts(op):
            return [x.get("int") for n in flow.deep_origin_calls(fm, op) if n["k"] == "assign" and n["rv"]["k"] == "bin" and n["rv"]["op"] in ("Div", "Rem") for x in (n["rv"]["b"],)]
        ok = arith(newc[0]["args"][0]) == ["Div"] and arith(newc[0]["args"][1]) == ["Rem"] and consts(newc[0]["args"][0]) == [60] and consts(newc[0]["args"][1]) == [60]
    pending4.append(("from_mins_from_midnight", ok, {"fn": fm.id, "formula": "new(minute / 60, minute % 60)"}, "C19.R4:from_mins", "from_mins_from_midnight is not new(m / 60, m % 60)", lib.where_of(fm)))
    ah = prog.require_fn(ET + "::add_hours")
    newc = [t for _, t in ah.calls() if flow.call_name(t) == new.id]
    ok = False
    if len(newc) == 1:
        ok = [n for _, _, n in flow.origin_fields(ah, newc[0]["args"][1])] == ["minute"] and not flow.deep_origin_calls(ah, newc[0]["args"][1])
        hsrc = [n for n in flow.deep_origin_calls(ah, newc[0]["args"][0]) if n["k"] == "assign" and n["rv"]["k"] == "bin"]
        ok = ok and len(hsrc) == 1 and hsrc[0]["rv"]["op"].startswith("Add")
        if ok:
            fa = [n for _, _, n in flow.origin_fields(ah, hsrc[0]["rv"]["a"]) + flow.origin_fields(ah, hsrc[0]["rv"]["b"])]
            ps = flow.root_params(ah, hsrc[0]["rv"]["a"]) | flow.root_params(ah, hsrc[0]["rv"]["b"])
            ok = fa == ["hour"] and 2 in ps
    pending4.append(("add_hours", ok, {"fn": ah.id, "formula": "new(hour + hours, minute)"}, "C19.R4:add_hours", "add_hours is not new(hour + hours (checked narrowing), minute)", lib.where_of(ah)))

    # W --------------------------------------------------------------------------------------
    witness.run_positive(ctx, prog, res, "C19.W1", "compile-time witness (rustc const evaluation, labelled): for all u8 x u8, ExtendedTime::new(h, m).is_some() == (m < 60 && 60h+m <= 2880)", group="c19")
    # R7 -------------------------------------------------------------------------------------
    r7 = res.rule("C19.R7", "values: minutes since midnight and back are inverse (60*h + m), add_minutes / add_hours equal integer addition and answer none exactly when the result leaves 00:00..=48:00. The five functions are extracted per path from MIR (peval) and evaluated on every valid time (2881; quick tier: the 246 with minute in {0, 1, 30, 58, 59}) with 15 offsets each around 0, +-1 h, +-24 h, +-48 h and the extremes of the argument type, and from_mins_from_midnight on 0..=3000 and 65535")
    import peval
    ETP = "opening_hours_syntax::extended_time::ExtendedTime::"
    fns = {n: prog.fns.get(ETP + n) for n in ("new", "mins_from_midnight", "from_mins_from_midnight", "add_minutes", "add_hours")}
    if None in fns.values():
        r7.anchor_missing("ExtendedTime::{new, mins_from_midnight, from_mins_from_midnight, add_minutes, add_hours}")
    else:
        mk = lambda h, m: ("enum", "ExtendedTime", {"hour": h, "minute": m})
        ev = peval.Evaluator(prog, consts={"MIDNIGHT_00": mk(0, 0), "MIDNIGHT_24": mk(24, 0), "MIDNIGHT_48": mk(48, 0)})
        un = lambda v: None if v is None else (v[1][2]["hour"], v[1][2]["minute"])
        thorough = ctx.tier == "thorough"
        times = [(h, m) for h in range(49) for m in (range(60) if thorough else (0, 1, 30, 58, 59)) if 60 * h + m <= 2880]
        KM = [-32768, -2881, -2880, -1441, -1440, -61, -60, -1, 0, 1, 59, 60, 1440, 2880, 32767]
        KH = [-128, -49, -48, -25, -24, -1, 0, 1, 23, 24, 25, 47, 48, 49, 127]
        bad = {}
        n_ev = 0
        try:
            for h, m in times:
                t = mk(h, m)
                tot = ev.run(fns["mins_from_midnight"], [t]); n_ev += 1
                if tot != 60 * h + m:
                    bad.setdefault("mins_from_midnight", "%02d:%02d -> %r (expected %d)" % (h, m, tot, 60 * h + m))
                for k in KM:
                    got = un(ev.run(fns["add_minutes"], [t, k])); n_ev += 1
                    w = 60 * h + m + k
                    want = (w // 60, w % 60) if 0 <= w <= 2880 else None
                    if got != want:
                        bad.setdefault("add_minutes", "%02d:%02d %+d min -> %r (expected %r)" % (h, m, k, got, want))
                for k in KH:
                    got = un(ev.run(fns["add_hours"], [t, k])); n_ev += 1
                    w = 60 * (h + k) + m
                    want = (h + k, m) if 0 <= w <= 2880 else None
                    if got != want:
                        bad.setdefault("add_hours", "%02d:%02d %+d h -> %r (expected %r)" % (h, m, k, got, want))
            for n in list(range(0, 3001)) + [65535]:
                got = un(ev.run(fns["from_mins_from_midnight"], [n])); n_ev += 1
                want = (n // 60, n % 60) if n <= 2880 else None
                if got != want:
                    bad.setdefault("from_mins_from_midnight", "%d -> %r (expected %r)" % (n, got, want))
        except peval.Unmodelled as ex:
            r7.fail("C19.R7:unmodelled", "ExtendedTime's arithmetic cannot be evaluated from its MIR any more (%s): not decided, failing closed" % ex, lib.where_of(fns["add_minutes"]))
            bad = None
        if bad is not None:
            for nm in ("mins_from_midnight", "from_mins_from_midnight", "add_minutes", "add_hours"):
                r7.check(nm not in bad, {"fn": nm, "times": len(times), "evaluations": n_ev}, "C19.R7:%s" % nm, "ExtendedTime::%s: %s" % (nm, bad.get(nm, "")), lib.where_of(fns[nm]))
    r7.floor(4)

    # R4's three formula obligations are shape comparisons: where the shape is not the expected one but R7 decided
    # the same function by value on the whole domain, the formula holds (written differently)
    by_value = bad is not None if "bad" in dir() else False
    for nm, ok4, inst, key4, msg4, where4 in pending4:
        if ok4:
            r4.ok(inst)
        elif by_value and nm not in (bad or {}):
            r4.ok(dict(inst, formula_shape="not the expected one; decided by value (C19.R7)"))
        else:
            r4.fail(key4, msg4, where4)
    r4.floor(4)

    witness.run_doctests(ctx, prog, res, "C19.W2", "the struct literal and the fields are not accessible outside the crate; twins compile", "c19", floor=2)
