"""Parse the canonical expression shapes produced by flow.shape() into trees and evaluate the
integer ones over a finite domain (exhaustive evaluation of an arithmetic expression extracted
from MIR: the expression is the program's, the domain is complete, nothing of /repo runs)."""

import re


class TermError(Exception):
    pass


_TOK = re.compile(r"\s*(?:(\d+)|('(?:[^'\\]|\\.)*'(?![\w])|\"(?:[^\"\\]|\\.)*\")|([A-Za-z_:<>@\[\]'&][\w:<>@\[\]'&]*(?:\.[\w@:<>\[\]]+)*)|(.))")


def parse(s):
    pos = [0]

    def peek():
        m = _TOK.match(s, pos[0])
        if not m:
            return None, None
        return m, (("int", int(m.group(1))) if m.group(1) is not None else ("str", m.group(2)) if m.group(2) is not None else ("name", m.group(3)) if m.group(3) is not None else ("sym", m.group(4)))

    def take():
        m, t = peek()
        if m is None:
            raise TermError("unexpected end in %r" % s)
        pos[0] = m.end()
        if t == ("name", ":"):
            return ("sym", ":")
        if t[0] == "name" and t[1].endswith(":") and not t[1].endswith("::"):
            # `field:` inside an aggregate: give the colon back
            pos[0] -= 1
            t = ("name", t[1][:-1])
        return t

    def expect(sym):
        t = take()
        if t != ("sym", sym):
            raise TermError("expected %r, got %r in %r" % (sym, t, s))

    def expr():
        m, t = peek()
        if t is None:
            raise TermError("empty term in %r" % s)
        if t[0] == "int":
            take()
            node = ("int", t[1])
        elif t[0] == "str":
            take()
            node = ("str", t[1])
        elif t == ("sym", "-"):
            take()
            n = take()
            if n[0] != "int":
                raise TermError("bad negative literal in %r" % s)
            node = ("int", -n[1])
        elif t == ("sym", "("):
            take()
            inner = expr()
            m2, t2 = peek()
            if t2 == ("name", "as"):
                take()
                ty = take()
                node = ("cast", inner, ty[1])
            else:
                node = inner
            expect(")")
        elif t[0] == "name":
            take()
            m2, t2 = peek()
            if t2 == ("sym", "("):
                take()
                args = []
                m3, t3 = peek()
                if t3 != ("sym", ")"):
                    while True:
                        args.append(expr())
                        m3, t3 = peek()
                        if t3 == ("sym", ",") or (t3 == ("sym", "|") and t[1] == "alt"):
                            take()
                            continue
                        break
                expect(")")
                node = ("app", t[1], tuple(args))
            elif t2 == ("sym", "{"):
                # unit aggregate `Type::Variant{}`
                save = pos[0]
                take()
                m3, t3 = peek()
                if t3 == ("sym", "}"):
                    take()
                    node = ("var", t[1] + "{}")
                else:
                    fields = []
                    while True:
                        fn_ = take()
                        if fn_[0] not in ("name", "int"):
                            raise TermError("field name in %r" % s)
                        expect(":")
                        fields.append((str(fn_[1]), expr()))
                        m4, t4 = peek()
                        if t4 == ("sym", ","):
                            take()
                            continue
                        break
                    expect("}")
                    node = ("agg", t[1], tuple(fields))
            else:
                node = ("var", t[1])
        else:
            raise TermError("unexpected %r in %r" % (t, s))
        # postfix: tuple / field projections `.0` `.name`, variant downcasts `@Some`
        while True:
            m2, t2 = peek()
            if t2 == ("sym", "."):
                save = pos[0]
                take()
                m3, t3 = peek()
                if t3 is not None and t3[0] == "int":
                    take()
                    node = ("proj", node, t3[1])
                    continue
                if t3 is not None and t3[0] == "name" and node[0] != "var":
                    take()
                    node = ("proj", node, t3[1])
                    continue
                pos[0] = save
            if t2 is not None and t2[0] == "name" and t2[1].startswith("@") and node[0] != "var":
                take()
                node = ("proj", node, t2[1])
                continue
            break
        return node

    node = expr()
    if _TOK.match(s, pos[0]) and s[pos[0]:].strip():
        raise TermError("trailing input %r in %r" % (s[pos[0]:], s))
    return node


INT_RANGE = {"u8": (0, 255), "u16": (0, 65535), "u32": (0, 2 ** 32 - 1), "u64": (0, 2 ** 64 - 1), "usize": (0, 2 ** 64 - 1),
             "i8": (-128, 127), "i16": (-2 ** 15, 2 ** 15 - 1), "i32": (-2 ** 31, 2 ** 31 - 1), "i64": (-2 ** 63, 2 ** 63 - 1), "isize": (-2 ** 63, 2 ** 63 - 1)}


def evaluate(node, leaf):
    """Integer value of a term. `leaf(node)` gives the value of application/variable leaves (or
    None when it is not a leaf it knows). Raises TermError on anything unmodelled, including a
    lossy cast."""
    k = node[0]
    if k == "int":
        return node[1]
    v = leaf(node)
    if v is not None:
        return v
    if k == "proj":
        return evaluate(node[1], leaf)  # (value, overflow flag).0 of a checked operation
    if k == "cast":
        x = evaluate(node[1], leaf)
        lo, hi = INT_RANGE.get(node[2], (None, None))
        if lo is None or not lo <= x <= hi:
            raise TermError("cast of %d to %s" % (x, node[2]))
        return x
    if k == "app":
        name = node[1].split("::")[-1]
        args = [evaluate(a, leaf) for a in node[2]]
        if name in ("Add", "AddWithOverflow", "AddUnchecked") and len(args) == 2:
            return args[0] + args[1]
        if name in ("Sub", "SubWithOverflow", "SubUnchecked") and len(args) == 2:
            return args[0] - args[1]
        if name in ("Mul", "MulWithOverflow", "MulUnchecked") and len(args) == 2:
            return args[0] * args[1]
        if name == "Div" and len(args) == 2:
            if args[1] == 0:
                raise TermError("division by zero")
            q = abs(args[0]) // abs(args[1])
            return q if (args[0] >= 0) == (args[1] >= 0) else -q
        if name == "Rem" and len(args) == 2:
            if args[1] == 0:
                raise TermError("remainder by zero")
            r = abs(args[0]) % abs(args[1])
            return r if args[0] >= 0 else -r
        if name in ("from", "into", "try_from", "try_into", "unwrap", "expect") and len(args) >= 1:
            return args[0]
    raise TermError("unmodelled term %r" % (node,))


def leaves(node, pred, out=None):
    out = [] if out is None else out
    if pred(node):
        out.append(node)
        return out
    if node[0] in ("proj", "cast"):
        leaves(node[1], pred, out)
    elif node[0] == "app":
        for a in node[2]:
            leaves(a, pred, out)
    elif node[0] == "agg":
        for _, a in node[2]:
            leaves(a, pred, out)
    return out


def linear(node):
    """Integer term as a linear form {atom repr: coeff, 1: const} or None (not linear / unknown)."""
    k = node[0]
    if k == "int":
        return {1: node[1]}
    if k == "proj":
        return linear(node[1])
    if k == "cast":
        return linear(node[1])  # value-preserving casts assumed (checked elsewhere)
    if k == "app":
        name = node[1].split("::")[-1]
        if name in ("Add", "AddWithOverflow", "Sub", "SubWithOverflow") and len(node[2]) == 2:
            a, b = linear(node[2][0]), linear(node[2][1])
            if a is None or b is None:
                return None
            sgn = 1 if name.startswith("Add") else -1
            out = dict(a)
            for key, c in b.items():
                out[key] = out.get(key, 0) + sgn * c
            return {key: c for key, c in out.items() if c != 0 or key == 1}
        if name in ("from", "into", "try_from", "try_into", "unwrap", "expect", "ok") and len(node[2]) >= 1:
            return linear(node[2][0])
    return {repr(node): 1}


def lin_sub(a, b):
    out = dict(a)
    for key, c in b.items():
        out[key] = out.get(key, 0) - c
    return {key: c for key, c in out.items() if c != 0}
