"""PEG ordered-choice shadowing check on the grammar artefact (C05.R5).

Atomic (token) rules are matched greedily in both readings. For every rule, sentences are generated from the grammar read as an ordinary (unordered,
backtracking) grammar - one alternative per choice, options absent/present, repetitions 0..2,
representative characters for ranges - and each sentence that the backtracking reading of the
rule accepts must also be accepted by pest's PEG reading (ordered choice, possessive
repetition). A sentence accepted by the former only is *shadowed*: the grammar's author listed
it, but an earlier alternative or a greedy repetition captures a prefix and the parse fails.
Bounded enumeration over the grammar only; no repository code is involved."""

import peg

CAP = 48


class Backtrack:
    """All end positions of an expression at a position (unordered choice, non-possessive
    repetition); predicates are evaluated with the same semantics."""

    def __init__(self, g):
        self.g = g
        self.memo = {}

    def rule(self, name, text, pos):
        key = (name, pos, id(text))
        if key in self.memo:
            return self.memo[key]
        self.memo[key] = frozenset()
        if self.g.rules[name]["ty"] == "Atomic":
            # tokens are lexed greedily in both readings: only the structure above tokens is unordered
            p = self.g._expr(self.g.rules[name]["expr"], text, pos)
            r = frozenset() if p is None else frozenset([p])
        else:
            r = self.expr(self.g.rules[name]["expr"], text, pos)
        self.memo[key] = r
        return r

    def expr(self, e, text, pos):
        k = e["k"]
        if k in ("str", "insens", "range"):
            p = self.g._expr(e, text, pos)
            return frozenset() if p is None else frozenset([p])
        if k == "ident":
            n = e["s"]
            if n in ("SOI", "EOI") or n in peg.BUILTIN_CHARS:
                p = self.g._expr(e, text, pos)
                return frozenset() if p is None else frozenset([p])
            return self.rule(n, text, pos)
        if k == "seq":
            out = set()
            for p in self.expr(e["a"], text, pos):
                out |= self.expr(e["b"], text, p)
            return frozenset(out)
        if k == "choice":
            return self.expr(e["a"], text, pos) | self.expr(e["b"], text, pos)
        if k == "opt":
            return self.expr(e["a"], text, pos) | frozenset([pos])
        if k in ("rep", "rep1", "repn"):
            lo = 1 if k == "rep1" else (e.get("min", 0) if k == "repn" else 0)
            hi = e.get("max") if k == "repn" else None
            cur = {pos}
            out = set([pos]) if lo == 0 else set()
            n = 0
            seen = set()
            while cur and (hi is None or n < hi) and n < 64:
                nxt = set()
                for p in cur:
                    for q in self.expr(e["a"], text, p):
                        if (n + 1, q) not in seen:
                            seen.add((n + 1, q))
                            nxt.add(q)
                n += 1
                if n >= lo:
                    out |= nxt
                if nxt == cur:
                    break
                cur = nxt
            return frozenset(out)
        if k == "pos":
            return frozenset([pos]) if self.expr(e["a"], text, pos) else frozenset()
        if k == "neg":
            return frozenset() if self.expr(e["a"], text, pos) else frozenset([pos])
        raise peg.GrammarError("unmodelled expression kind %s" % k)

    def accepts(self, name, text):
        self.memo = {}
        return len(text) in self.rule(name, text, 0)


def _cap(xs):
    xs = sorted(set(xs), key=lambda s: (len(s), s))
    if len(xs) <= CAP:
        return xs
    # keep the shortest and a spread of the rest
    step = len(xs) / float(CAP)
    return [xs[int(i * step)] for i in range(CAP)]


class Generator:
    def __init__(self, g):
        self.g = g
        self.memo = {}

    def rule(self, name):
        if name in self.memo:
            return self.memo[name]
        self.memo[name] = []
        out = _cap(self.expr(self.g.rules[name]["expr"]))
        self.memo[name] = out
        return out

    def expr(self, e):
        k = e["k"]
        if k in ("str", "insens"):
            return [e["s"]]
        if k == "range":
            return sorted({e["lo"], e["hi"]})
        if k == "ident":
            n = e["s"]
            if n in ("SOI", "EOI"):
                return [""]
            if n == "ANY":
                return ["x"]
            if n == "ASCII_DIGIT":
                return ["0", "7"]
            if n == "ASCII_NONZERO_DIGIT":
                return ["3"]
            if n in peg.BUILTIN_CHARS:
                return ["a"]
            return self.rule(n)
        if k == "seq":
            a, b = self.expr(e["a"]), self.expr(e["b"])
            if len(a) * len(b) <= CAP * 4:
                return _cap([x + y for x in a for y in b])
            out = [x + b[0] for x in a] + [a[0] + y for y in b]
            for i in range(min(len(a), len(b))):
                out.append(a[i] + b[i])
            return _cap(out)
        if k == "choice":
            return _cap(self.expr(e["a"]) + self.expr(e["b"]))
        if k == "opt":
            return _cap([""] + self.expr(e["a"]))
        if k in ("rep", "rep1", "repn"):
            a = self.expr(e["a"])
            lo = 1 if k == "rep1" else (e.get("min", 0) if k == "repn" else 0)
            hi = e.get("max") if k == "repn" else None
            out = []
            for n in range(lo, min((hi if hi is not None else lo + 2), lo + 2) + 1):
                if n == 0:
                    out.append("")
                elif n == 1:
                    out += a
                else:
                    out += [x * n for x in a[:6]] + [a[i] + a[(i + 1) % len(a)] * (n - 1) for i in range(min(len(a), 6))]
            return _cap(out)
        if k in ("pos", "neg"):
            return [""]
        raise peg.GrammarError("unmodelled expression kind %s" % k)


# Reviewed differences between the two readings on the pinned grammar would go here as
# (rule, sentence): reason. None is needed today.
REVIEWED = {}


def check(g, rule, thorough=False):
    gen = Generator(g)
    bt = Backtrack(g)
    n_sent = 0
    n_rules = 0
    for name in g.order:
        sentences = gen.rule(name)
        n_rules += 1
        shadowed = []
        for s in sentences:
            n_sent += 1
            if g.full_match(name, s):
                continue
            if bt.accepts(name, s) and (name, s) not in REVIEWED:
                shadowed.append(s)
        if shadowed:
            rule.fail("C05.R5:%s" % name, "rule `%s`: sentence(s) %s are produced by the grammar's alternatives but rejected by pest's ordered/possessive reading (an earlier alternative or a greedy repetition captures a prefix)" % (name, shadowed[:4]),
                      "opening-hours-syntax/src/grammar.pest:%s (rule %s)" % (g.rules[name]["line"], name), {"sentences": shadowed[:10]})
        else:
            rule.ok({"rule": name, "sentences_checked": len(sentences)})
    # adjacent selectors: a date / month / year selector followed by a time span, with every separator - where an
    # hour can be taken for a day number or a year. Sentences of `wide_range_selectors` x separators x `timespan`,
    # read from `selector_sequence`.
    global CAP
    wide = sorted({w.rstrip(" :") for w in gen.rule("wide_range_selectors")}, key=lambda x: (len(x), x))
    old_cap, CAP = CAP, (800 if thorough else 200)
    try:
        spans = Generator(g).rule("timespan")
    finally:
        CAP = old_cap
    shadowed = []
    n_adj = 0
    for w in wide:
        for sep in ("", " ", ":", ": "):
            for t in spans:
                txt = w + sep + t
                n_adj += 1
                if g.full_match("selector_sequence", txt):
                    continue
                if bt.accepts("selector_sequence", txt) and ("selector_sequence", txt) not in REVIEWED:
                    shadowed.append(txt)
    if shadowed:
        rule.fail("C05.R5:selector_sequence:adjacent", "a date selector followed by a time span: sentence(s) %s are produced by the grammar's alternatives but rejected by pest's ordered reading (the first digits of the time are captured as a day number or year)" % shadowed[:4],
                  "opening-hours-syntax/src/grammar.pest:%s (rule selector_sequence)" % g.rules["selector_sequence"]["line"], {"sentences": shadowed[:10], "count": len(shadowed)})
    else:
        rule.ok({"rule": "selector_sequence", "adjacent_selector_sentences_checked": n_adj, "wide_prefixes": len(wide), "time_spans": len(spans)})
    rule.r["instances"] = rule.r["instances"][:30] + [{"rules": n_rules, "sentences_checked_in_total": n_sent + n_adj}]
    rule.floor(80)
