"""C06 - printed expressions parse back to an equivalent expression.

Decided: the printer and the grammar are sibling implementations of one concrete syntax.
R1 the printer's token tables are grammar tokens of the variant the builder maps them to;
R2 every field of every AST node is read by its printer; R3 every output shape of every
`Display` impl - all paths of its MIR body, extracted by a symbolic interpreter, instantiated
over the grammar's token ranges and the constants the printer itself compares with - is a
sentence of the grammar rule the AST builder turns into that node type, each printed child
coming back as a token of the child's own rule at the same place (level A: node types; level B:
whole rule sequences and expressions from `input_opening_hours`); R5 printing is injective on
the explored values up to the listed semantic equalities: no field is silently dropped;
R4 the Python `__str__`/`__repr__` are that same text.
Not decided: that the re-parsed tree evaluates identically (needs the builder's denotation,
C05, and the evaluator, C01), values outside the representative classes, lists longer than
two elements (loop bodies are uniform), Debug escaping of exotic comment characters in repr.
"""

import re
import time

import flow
import lib
import peg
import printmodel
import symprint
import tokens
from printmodel import short

SYN = "opening_hours_syntax::"
DAY = SYN + "rules::day::"
TIME = SYN + "rules::time::"
RULES = SYN + "rules::"
P = SYN + "parser::"
ET = SYN + "extended_time::ExtendedTime"


def fld(v, path):
    for n in path.split("."):
        if v[0] == "some":
            v = v[1]
        if v[0] == "adt":
            v = dict(v[3])[n]
        elif v[0] == "tup":
            v = v[1][int(n)]
        else:
            raise KeyError(path)
    return v


def kid_sequences(g, rule, max_len=7):
    """All child sequences (tuples of rule names) the grammar can emit for `rule`, loops taken at
    most twice."""
    start, acc, delta = g.kids_dfa(rule)
    out = set()

    def walk(q, seq, visits):
        if q in acc:
            out.add(tuple(seq))
        if len(seq) >= max_len:
            return
        for s, t in sorted(delta.get(q, {}).items()):
            if visits.get(t, 0) >= 2:
                continue
            v2 = dict(visits)
            v2[t] = v2.get(t, 0) + 1
            walk(t, seq + [s], v2)

    walk(start, [], {start: 1})
    return out


def feasibility_rows(g):
    """Shapes of AST values that no parse can produce: (id, type, predicate `is infeasible`,
    grammar fact that must hold for the exemption to stand, reason)."""
    wr = kid_sequences(g, "weekday_range")
    ho = kid_sequences(g, "holiday")
    ts = kid_sequences(g, "timespan")
    all_true = ("list", (True,) * 5)
    rows = [
        ("F1", DAY + "WeekDayRange",
         lambda v: v[2] == "Holiday" and fld(v, "kind")[2] == "School" and fld(v, "offset") != 0,
         all(not ("school_holiday" in s and "day_offset" in s) for s in ho) and bool(ho),
         "`holiday` never has a day_offset child next to school_holiday; build_holiday leaves the offset at 0"),
        ("F2", DAY + "WeekDayRange",
         lambda v: v[2] == "Fixed" and fld(v, "range.start") != fld(v, "range.end") and (fld(v, "offset") != 0 or fld(v, "nth_from_start") != all_true or fld(v, "nth_from_end") != all_true),
         all(not (s.count("wday") == 2 and ("nth_entry" in s or "day_offset" in s)) for s in wr) and bool(wr),
         "`weekday_range` with two wday children has neither nth_entry nor day_offset; the builder then keeps all nth and offset 0"),
        ("F4", TIME + "TimeSpan",
         lambda v: fld(v, "open_end") is True and fld(v, "repeats")[0] == "some",
         all(not ("timespan_plus" in s and ("minute" in s or "hour_minutes" in s)) for s in ts) and bool(ts),
         "`timespan` never has both a timespan_plus and a repetition (minute | hour_minutes) child"),
        ("F5", DAY + "DaySelector",
         lambda v: len(fld(v, "year")[1]) > 0 and fld(v, "year")[1][-1] is not None and fld(fld(v, "year")[1][-1], "step") != 1 and len(fld(v, "monthday")[1]) > 0 and starts_with_year(fld(v, "monthday")[1][0]),
         step_is_greedy(g),
         "a year range with a step cannot be directly followed by a date that starts with a year: `positive_number` takes every following digit"),
    ]
    return rows, {"weekday_range": len(wr), "holiday": len(ho), "timespan": len(ts)}


def starts_with_year(md):
    """A monthday range whose text starts with digits (its first date carries a year)."""
    if md[2] == "Month":
        return fld(md, "year")[0] == "some"
    d = fld(md, "start.0")
    return fld(d, "year")[0] == "some"


def step_is_greedy(g):
    t = g.parse_tree("selector_sequence", "1900-1901/21902 Jan 5")
    if t is None:
        return True
    return not any(n[0] == "year_range" and n[2] - n[1] == len("1900-1901/2") for n in tree_nodes(t))


# Child fields built from a narrower grammar rule than the child's type admits in general:
# (type, field path) -> grammar rule; cross-checked against the child sequences of the parent rule.
FIELD_RULES = [
    (TIME + "TimeSpan", "range.start", "time", "timespan", lambda s: s and s[0] == "time"),
    (TIME + "TimeSpan", "range.end", "extended_time", "timespan", lambda s: len(s) < 2 or s[1] in ("extended_time", "timespan_plus")),
]

# Semantic equalities under which two different values may print the same text (R5).
#   key: type -> function(value) -> canonical value
def canon_rules():
    def rule_sequence(v):
        d = dict(v[3])
        # the operator is printed by the parent expression (checked there)
        d["operator"] = None
        # several comments come back joined into one string (allowed by the property)
        c = d["comments"]
        d["comments"] = ", ".join(fld(v, "comments.0")[1])
        return ("adt", v[1], v[2], tuple(sorted(d.items(), key=lambda kv: kv[0])))
    return {RULES + "RuleSequence": rule_sequence}


class Machinery:
    def __init__(self, prog, full=False):
        self.prog = prog
        self.g = peg.load()
        self.sp = symprint.SymPrinter(prog, full_bits=full)
        self.unmodelled = {}
        self.paths = {}
        self.fns = {}
        for f in prog.fns.values():
            if f.crate == lib.SYN and f.impl and f.impl.get("trait") == "core::fmt::Display" and f.name == "fmt" and f.impl.get("self_adt"):
                tid = f.impl["self_adt"]
                if tid.startswith(SYN + "error") or tid not in prog.adts:
                    continue
                self.fns[tid] = f
                try:
                    self.paths[tid] = self.sp.run_fmt(f, tid)
                except symprint.Unmodelled as e:
                    self.unmodelled[tid] = str(e)
        self.dom = printmodel.Domains(self.g)
        self.rows, self.row_stats = feasibility_rows(self.g)
        self.row_hits = {r[0]: 0 for r in self.rows}
        self.field_rule_ok = {}
        for ty, path, rule, parent, fact in FIELD_RULES:
            seqs = kid_sequences(self.g, parent)
            self.field_rule_ok[(ty, path)] = bool(seqs) and all(fact(s) for s in seqs)
        self.field_rule_hits = {}
        self.M = printmodel.Models(prog, self.g, self.sp, self.paths, self.dom, feasible=self.feasible,
                                   max_per_path=96 if full else 48, core_cap=40 if full else 28, max_per_type=60000 if full else 4000)
        self.type_rules = self.derive_type_rules()
        self.load_tables()

    def load_tables(self):
        for tid, ps in self.paths.items():
            for p in ps:
                for m in re.finditer(r"table:([\w:]+)", repr(p.out)):
                    fn = m.group(1)
                    if fn not in self.M.tables:
                        f = self.prog.require_fn(fn)
                        ty = symprint.clean_ty(f.j["inputs"][0])
                        _, tab = tokens.printer_table(self.prog, ("fn_arms", fn), ty)
                        self.M.tables[fn] = tab

    def derive_type_rules(self):
        """AST type -> grammar rules whose builder returns it (from the builders' signatures)."""
        out = {}
        for f in self.prog.fns.values():
            if f.crate == lib.SYN and f.module == SYN + "parser" and f.kind == "Fn" and f.name.startswith("build_") and f.name[6:] in self.g.rules:
                ty = f.j["output"]
                m = re.match(r"core::result::Result<(.*), opening_hours_syntax::error::Error>$", ty)
                if m:
                    ty = m.group(1)
                m = re.match(r"alloc::vec::Vec<(.*)>$", ty)
                if m:
                    # a selector: the type that wraps exactly this list
                    for a in self.prog.adts.values():
                        if a["id"].startswith(SYN) and a["kind"] == "Struct" and len(a["variants"][0]["fields"]) == 1 and a["variants"][0]["fields"][0]["ty"] == ty:
                            out.setdefault(a["id"], []).append(f.name[6:])
                    continue
                if ty in self.prog.adts:
                    out.setdefault(ty, []).append(f.name[6:])
        # the expression is what `parse` builds from the start rule
        parse = self.prog.require_fn(P + "parse")
        if RULES + "OpeningHoursExpression" in parse.j["output"]:
            out[RULES + "OpeningHoursExpression"] = ["input_opening_hours"]
        return out

    def host_rules(self, tid):
        """Rules a node's text is matched against: its own, or a host rule it is a complete sentence
        of (a day selector on its own is a `selector_sequence` without time selector)."""
        own = self.type_rules.get(tid, [])
        if not own and tid == DAY + "DaySelector" and "selector_sequence" in self.g.rules:
            return ["selector_sequence"]
        return own

    def feasible(self, tid, v):
        for rid, ty, infeasible, fact, reason in self.rows:
            if ty == tid and fact and infeasible(v):
                self.row_hits[rid] += 1
                return False
        if tid == ET and 60 * fld(v, "hour") + fld(v, "minute") > 48 * 60:
            return False
        if tid == TIME + "TimeSelector" and len(fld(v, "time")[1]) == 0:
            return False
        if tid == RULES + "RuleSequence":
            c = fld(v, "comments.0")[1]
            if list(c) != sorted(set(c)):
                return False
        for ty, path, rule, parent, fact in FIELD_RULES:
            if ty == tid and self.field_rule_ok[(ty, path)]:
                child = fld(v, path)
                s = self.M.render(child[1], child)
                if not self.g.full_match(rule, s):
                    self.field_rule_hits[(ty, path)] = self.field_rule_hits.get((ty, path), 0) + 1
                    return False
        return True

    def template(self, path):
        out = []
        for piece in path.out:
            if piece[0] == "lit":
                out.append(piece[1])
            else:
                spec = piece[4]
                out.append("{%s%s}" % (symprint.val_str(piece[2]).replace(SYN, ""), (":0%d" % spec[0]) if spec[0] else ""))
        return "".join(out)


_CACHE = {}


def machinery(prog, full):
    key = (lib.tree_hash(), full)
    if key not in _CACHE:
        _CACHE.clear()
        _CACHE[key] = Machinery(prog, full)
    return _CACHE[key]


def tree_nodes(tree, out=None):
    out = [] if out is None else out
    for n in tree:
        out.append(n)
        tree_nodes(n[3], out)
    return out


def run(ctx, prog, res):
    full = ctx.tier == "thorough"
    t0 = time.time()
    mc = machinery(prog, full)
    g, M = mc.g, mc.M

    # R1 -------------------------------------------------------------------------------------
    r1 = res.rule("C06.R1", "printer tokens are grammar tokens of the same variant: the text printed for each variant of an enumerated AST type is accepted by the grammar rule the builder maps to that variant (weekday, month, event, rule kind, holiday kind, rule separators)")
    for grule, bfn, ast, how in tokens.TABLES:
        bf, bt = tokens.builder_table(prog, bfn, ast)
        pf, pt = tokens.printer_table(prog, how, ast)
        if pt is None:
            continue
        inv = {v: r for r, v in bt.items()}
        for variant, text in sorted(pt.items()):
            rule = inv.get(variant)
            ok = text is not None and rule is not None and g.full_match(rule, text)
            r1.check(ok, {"type": short(ast), "variant": variant, "printed": text, "grammar_rule": rule}, "C06.R1:%s:%s" % (short(ast), variant),
                     "%s::%s prints as %r, which is not a text of the grammar rule `%s` the builder maps to it" % (short(ast), variant, text, rule), lib.where_of(pf))
    r1.floor(31)

    # R2 -------------------------------------------------------------------------------------
    r2 = res.rule("C06.R2", "every field is printed: the Display impl of each AST node type reads (itself or through the helpers it calls) every field of that type; a field that is never read cannot come back")
    exempt = {(RULES + "RuleSequence", "operator"): "printed by the parent expression between two rules (R3 level B checks the separator)"}
    nfields = 0
    for tid, f in sorted(mc.fns.items()):
        a = prog.adts[tid]
        got = lib.reads(prog, f.id, tid)
        for v in a["variants"]:
            for fd in v["fields"]:
                nfields += 1
                key = (v["name"] if a["kind"] == "Enum" else None, fd["name"])
                hit = any((k[0] in (key[0], None) or key[0] is None) and k[1] == fd["name"] for k in got)
                if (tid, fd["name"]) in exempt:
                    r2.ok({"type": short(tid), "field": fd["name"], "exempt": exempt[(tid, fd["name"])]})
                    continue
                r2.check(hit, {"type": short(tid), "variant": v["name"], "field": fd["name"]}, "C06.R2:%s:%s:%s" % (short(tid), v["name"], fd["name"]),
                         "Display for %s never reads field `%s` of %s: the printed text cannot depend on it" % (short(tid), fd["name"], v["name"]), lib.where_of(f))
    # the parent prints the exempted operator
    ef = mc.fns.get(RULES + "OpeningHoursExpression")
    if ef is None:
        r2.anchor_missing("Display for OpeningHoursExpression")
    else:
        got = lib.reads(prog, ef.id, RULES + "RuleSequence")
        r2.check(any(k[1] == "operator" for k in got), {"type": "OpeningHoursExpression", "reads": "RuleSequence.operator"}, "C06.R2:OpeningHoursExpression:operator",
                 "Display for OpeningHoursExpression does not read rule.operator: the separators cannot depend on it", lib.where_of(ef))
    r2.floor(40)

    # R3 -------------------------------------------------------------------------------------
    r3 = res.rule("C06.R3", "every output shape of a printer is a sentence of the node's grammar rule: each path of each Display body (symbolic interpretation of its MIR: path condition + template), instantiated with representative values of every class the path condition and the grammar's token ranges distinguish, is matched in full by the PEG model of the rule(s) the AST builder turns into that type, and each printed child with a rule of its own comes back as a token of that rule at the same position")
    for tid, why in sorted(mc.unmodelled.items()):
        r3.fail("C06.R3:%s:unmodelled" % short(tid), "Display for %s uses a construct outside the modelled subset (%s): its output shapes are unknown" % (short(tid), why), lib.where_of(mc.fns[tid]))
    for rid, ty, infeasible, fact, reason in mc.rows:
        r3.check(fact, {"feasibility_row": rid, "type": short(ty), "grammar_fact_holds": True, "reason": reason}, "C06.R3:feasibility:%s" % rid,
                 "the grammar fact behind feasibility exemption %s no longer holds (%s): the shape is checked like any other" % (rid, reason))
    for (ty, path), ok in sorted(mc.field_rule_ok.items()):
        r3.check(ok, {"context_rule": "%s.%s" % (short(ty), path), "grammar_fact_holds": True}, "C06.R3:context:%s.%s" % (short(ty), path),
                 "the grammar fact behind the context rule of %s.%s no longer holds" % (short(ty), path))
    total_strings = 0
    collisions = {}
    canon = canon_rules()
    order = sorted(mc.paths, key=lambda t: (len(mc.paths[t]) > 100, t))
    for tid in order:
        try:
            ms = M.models(tid)
        except printmodel.ModelError as e:
            r3.fail("C06.R3:%s:model" % short(tid), "no concrete models for the printer paths of %s: %s" % (short(tid), e), lib.where_of(mc.fns[tid]))
            continue
        st = M.stats[tid]
        rules = mc.host_rules(tid)
        by_path_bad = {}
        align_bad = {}
        seen_text = {}
        checked = 0
        for i, m in ms:
            try:
                spans = []
                s = M.render(tid, m, spans)
            except printmodel.ModelError as e:
                by_path_bad.setdefault(i, ("<no text>", str(e)))
                continue
            # R5 bookkeeping
            cm = canon[tid](m) if tid in canon else m
            prev = seen_text.get(s)
            if prev is None:
                seen_text[s] = cm
            elif prev != cm:
                collisions.setdefault(tid, []).append((s, prev, cm, i))
            if not rules or s == "":
                continue  # no rule of its own / empty optional: checked inside its parents
            checked += 1
            tree = None
            used = None
            for r in rules:
                tree = g.parse_tree(r, s)
                if tree is not None:
                    used = r
                    break
            if tree is None:
                by_path_bad.setdefault(i, (s, "not accepted"))
                continue
            nodes = tree_nodes(tree)
            taken = {}
            for (a, b, hty, hv) in spans:
                if a == b or not (isinstance(hv, tuple) and hv and hv[0] == "adt"):
                    continue
                crules = mc.type_rules.get(hv[1])
                if not crules:
                    continue
                # the smallest token of the child's own rule that contains what the child printed
                # (spaces aside); two children never share one token
                inside = [n for n in nodes if n[0] in crules and n[1] <= a + (len(s[a:b]) - len(s[a:b].lstrip())) and n[2] >= b - (len(s[a:b]) - len(s[a:b].rstrip()))]
                inside.sort(key=lambda n: n[2] - n[1])
                if not inside or (inside[0][1], inside[0][2]) in taken:
                    align_bad.setdefault(i, (s, s[a:b], short(hv[1]), crules))
                else:
                    taken[(inside[0][1], inside[0][2])] = (a, b)
        total_strings += checked
        for i, (s, why) in sorted(by_path_bad.items()):
            p = mc.paths[tid][i]
            tmpl = mc.template(p)
            r3.fail("C06.R3:%s:%s" % (short(tid), tmpl), "Display for %s can print %r (shape %s), which grammar rule %s does not accept: %s" % (short(tid), s, tmpl, "|".join(rules), why), lib.where_of(mc.fns[tid]),
                    {"path_condition": [str(a) for a in p.pc][:12]})
        for i, (s, part, cty, crules) in sorted(align_bad.items()):
            p = mc.paths[tid][i]
            tmpl = mc.template(p)
            r3.fail("C06.R3:%s:%s:align:%s" % (short(tid), tmpl, cty), "Display for %s prints %r; the part %r printed for its %s child is not read back as a `%s` token at that place" % (short(tid), s, part, cty, "|".join(crules)), lib.where_of(mc.fns[tid]))
        for i, why in st["uncovered"]:
            p = mc.paths[tid][i]
            if why == "no model":
                r3.fail("C06.R3:%s:%s:uncovered" % (short(tid), mc.template(p)), "no representative value reaches a printer path of %s (shape %s): its output is not checked" % (short(tid), mc.template(p)), lib.where_of(mc.fns[tid]),
                        {"path_condition": [str(a) for a in p.pc][:12]})
        r3.ok({"type": short(tid), "printer_paths": st["paths"], "paths_reached_by_a_parseable_shape": st["covered"], "paths_only_reached_by_unparseable_by_construction_shapes": len([1 for _, w in st["uncovered"] if w.startswith("only")]),
               "paths_with_contradictory_integer_conditions": len([1 for _, w in st["uncovered"] if w == "infeasible"]), "paths_only_satisfiable_outside_the_field_domain": len([1 for _, w in st["uncovered"] if w == "outside domain"]),
               "values": st["models"], "texts_matched": checked, "grammar_rules": rules or "(checked inside its parents)", "shapes_excluded_as_infeasible": st["infeasible_shape"]})
    # level B, adjacency: what a printed rule can end with x what the next printed rule can begin with x every
    # separator the expression printer uses; the two rules must come back as two rule_sequence tokens
    RS_T = RULES + "RuleSequence"
    if RS_T in mc.paths and RS_T in M._models:
        def leaves_of(tree):
            out = []
            for n in tree:
                if n[3]:
                    out += leaves_of(n[3])
                else:
                    out.append(n)
            return out
        heads, tails = {}, {}
        seen_txt = set()
        for _, m_ in M.models(RS_T):
            try:
                txt = M.render(RS_T, m_)
            except printmodel.ModelError:
                continue
            if not txt or txt in seen_txt:
                continue
            seen_txt.add(txt)
            tree = g.parse_tree("rule_sequence", txt)
            if tree is None:
                continue
            lv = [n for n in leaves_of(tree) if n[2] > n[1]]  # tokens that matched nothing say nothing about adjacency
            if not lv:
                continue
            def cls(n):
                return (n[0], "".join("0" if c.isdigit() else c for c in txt[n[1]:n[2]])[:4] if n[0] in ("daynum", "year", "hour", "extended_hour", "minute", "weeknum", "positive_number", "nth") else "")
            def presence(m):
                """Which parts of the rule are there at all (the printer's disambiguation helpers test exactly this)."""
                sig = []
                for n_, x_ in m[3]:
                    if isinstance(x_, tuple) and x_ and x_[0] == "adt":
                        for n2, x2 in x_[3]:
                            if isinstance(x2, tuple) and x2 and x2[0] == "list":
                                sig.append((n2, bool(x2[1])))
                    elif isinstance(x_, tuple) and x_ and x_[0] == "list":
                        sig.append((n_, bool(x_[1])))
                return tuple(sorted(sig))
            heads.setdefault(cls(lv[0]), m_)
            tails.setdefault((cls(lv[-1]), presence(m_)), m_)
        E_T = RULES + "OpeningHoursExpression"
        ops = M.variants(RULES + "RuleOperator") if (RULES + "RuleOperator") in prog.adts else []
        n_adj, bad_adj = 0, []
        for t_m in tails.values():
            for h_m in heads.values():
                for op_ in ops:
                    h2 = printmodel.adt(h_m[1], h_m[2], tuple((n_, printmodel.adt(RULES + "RuleOperator", op_, ()) if n_ == "operator" else x_) for n_, x_ in h_m[3]))
                    val = printmodel.adt(E_T, "OpeningHoursExpression", (("rules", ("list", (t_m, h2))),))
                    try:
                        spans = []
                        sent = M.render(E_T, val, spans)
                    except printmodel.ModelError as e:
                        bad_adj.append(("<no text>", str(e)))
                        continue
                    n_adj += 1
                    holes = [(a, b) for (a, b, hty, hv) in spans if isinstance(hv, tuple) and hv and hv[0] == "adt" and hv[1] == RS_T]
                    tree = g.parse_tree("input_opening_hours", sent)
                    ok_ = False
                    rs = []
                    if tree is not None and len(holes) == 2:
                        rs = [n for n in tree_nodes(tree) if n[0] == "rule_sequence"]
                        # each printed rule inside a rule_sequence token of its own
                        ok_ = len(rs) == 2 and rs[0][1] <= holes[0][0] and holes[0][1] <= rs[0][2] and rs[1][1] <= holes[1][0] and holes[1][1] <= rs[1][2]
                    if not ok_:
                        bad_adj.append((sent, "rejected" if tree is None else "read back as %d rule(s): %s" % (len(rs), [sent[n[1]:n[2]] for n in rs][:3])))
        for sent, why in bad_adj[:6]:
            r3.fail("C06.R3:OpeningHoursExpression:adjacent:%s" % ("rejected" if why == "rejected" else "merged"), "two rules printed one after the other, %r, are %s" % (sent, why), lib.where_of(mc.fns[E_T]) if E_T in mc.fns else None, {"count": len(bad_adj)})
        seps = ops
        r3.ok({"adjacent_rules": "endings x beginnings x separators", "endings": len(tails), "beginnings": len(heads), "separators": seps, "sentences_read_back_as_the_same_two_rules": n_adj - len(bad_adj), "of": n_adj})
    r3.ok({"strings_matched_in_full": total_strings, "feasibility_rows_hits": mc.row_hits, "context_rule_hits": {"%s.%s" % (short(k[0]), k[1]): v for k, v in mc.field_rule_hits.items()},
           "grammar_child_sequences_inspected": mc.row_stats, "symbolic_states": mc.sp.states, "domains": mc.dom.notes, "printer_panic_paths": sorted({w for _, w in mc.sp.panics}), "seconds": round(time.time() - t0, 1)})
    r3.floor(20)

    # R5 -------------------------------------------------------------------------------------
    r5 = res.rule("C06.R5", "printing loses nothing: two explored values of one node type that differ (other than by the listed semantic equalities: operator printed by the parent, comments joined) never print the same text - an unprinted or half-compared field would make two different expressions read back as one")
    for tid in order:
        cl = collisions.get(tid, [])
        seen = set()
        for s, a, b, i in cl:
            diff = describe_diff(a, b)
            key = "C06.R5:%s:%s" % (short(tid), diff)
            if key in seen:
                continue
            seen.add(key)
            r5.fail(key, "Display for %s prints %r for two values that differ in %s" % (short(tid), s, diff), lib.where_of(mc.fns[tid]), {"template": mc.template(mc.paths[tid][i])})
        if tid in M.stats:
            r5.ok({"type": short(tid), "values": M.stats[tid]["models"], "collisions": len(cl)})
    r5.floor(18)

    # R6 -------------------------------------------------------------------------------------
    r6 = res.rule("C06.R6", "a dated range prints each of its two dates and offsets whole, through their own printers: the end is never abbreviated to a part of itself (`Jan 20-10`). The abbreviated forms the grammar accepts for an end are read back *relative to the start* by the builder (a smaller day number means the next month, a month without year inherits one), so a printer that abbreviates changes what is read back even though the text is a sentence of the grammar")
    MR = "opening_hours_syntax::rules::day::MonthdayRange"
    DATE_T = "opening_hours_syntax::rules::day::Date"
    OFF_T = "opening_hours_syntax::rules::day::DateOffset"
    mfn = [f for k, f in prog.fns.items() if k == "<%s as core::fmt::Display>::fmt" % MR]
    if len(mfn) != 1:
        r6.anchor_missing("Display for MonthdayRange")
    else:
        try:
            mpaths = symprint.SymPrinter(prog).run_fmt(mfn[0], MR)
        except symprint.Unmodelled as ex:
            mpaths = None
            r6.fail("C06.R6:unmodelled", "Display for MonthdayRange is outside the modelled subset (%s): not decided, failing closed" % ex, lib.where_of(mfn[0]))
        n_holes = 0
        for pth in mpaths or []:
            if not any(c[0][0] == "is" and c[0][2] == "Date" and c[1] for c in pth.pc if isinstance(c, tuple) and isinstance(c[0], tuple)):
                continue
            for piece in pth.out:
                if not (isinstance(piece, tuple) and piece and piece[0] == "hole"):
                    continue
                src = repr(piece[2])
                under = [side for side in ("start", "end") if "'%s')" % side in src]
                if not under:
                    continue
                n_holes += 1
                hty = piece[3] if len(piece) > 3 else None
                whole = hty in (DATE_T, OFF_T)
                r6.check(whole, {"printed": "%s.%s" % (under[0], "date" if hty == DATE_T else "offset" if hty == OFF_T else "?"), "through": (hty or "?").split("::")[-1]}, "C06.R6:%s:%s" % (under[0], (hty or "?").split("::")[-1]),
                         "Display for MonthdayRange prints a part of the %s date on its own (a value of type %s taken from %s): abbreviated ends are read back relative to the start (`Jan 20-10` is Jan 20 to Feb 10), so the range `Jan 20-Jan 10` does not survive printing" % (under[0], hty, src[:120]), lib.where_of(mfn[0]))
        r6.check(n_holes >= 4 or mpaths is None, {"holes_under_start_or_end": n_holes}, "C06.R6:FLOOR", "FLOOR: only %d printed parts of a dated range found" % n_holes, lib.where_of(mfn[0]))

    # R4 -------------------------------------------------------------------------------------
    r4 = res.rule("C06.R4", "the Python __str__ is the core's Display of the wrapped expression and __repr__ wraps exactly that text (shared with C12.R10)")
    if lib.PY not in prog.crates:
        r4.anchor_missing("crate opening_hours_py")
    else:
        PYO = "opening_hours_py::PyOpeningHours::"
        f = prog.require_fn(PYO + "__str__")
        sh = flow.shape(f, 0)
        r4.check(flow.displays_only(f, 0), {"fn": f.id, "returns": "Display text of self.inner"}, "C06.R4:str", "__str__ returns %s" % sh, lib.where_of(f))
        f = prog.require_fn(PYO + "__repr__")
        sh = flow.shape(f, 0)
        r4.check(re.search(r"array\(Argument::new_debug\(::to_string\(p1\.inner\)\)\)", sh) is not None, {"fn": f.id, "returns": sh}, "C06.R4:repr", "__repr__ returns %s" % sh, lib.where_of(f))
        # Display for OpeningHours delegates to the expression
        oh = prog.impl_method_one("core::fmt::Display", "fmt", self_adt="opening_hours::opening_hours::OpeningHours")
        shown = []
        for _, t in oh.calls():
            if flow.call_name(t).startswith("core::fmt::rt::Argument::<'_>::new_"):
                shown.append((flow.call_name(t).split("::")[-1], (t["callee"].get("gargs") or [""])[-1]))
        r4.check(shown in ([("new_display", RULES + "OpeningHoursExpression")], [("new_display", "alloc::sync::Arc<%sOpeningHoursExpression>" % RULES)]), {"fn": oh.id, "prints": shown}, "C06.R4:delegate", "Display for OpeningHours does not print exactly its expression with Display (%s)" % shown, lib.where_of(oh))


def describe_diff(a, b, path=""):
    """First place where two model values differ, as a field path."""
    if a == b:
        return ""
    if isinstance(a, tuple) and isinstance(b, tuple) and a and b and a[0] == b[0] == "adt" and a[1] == b[1]:
        if a[2] != b[2]:
            return "%s(variant)" % path
        for (n, x), (_, y) in zip(a[3], b[3]):
            if x != y:
                return describe_diff(x, y, "%s.%s" % (path, n) if path else n)
    if isinstance(a, tuple) and isinstance(b, tuple) and a and b and a[0] == b[0] == "tup":
        for i, (x, y) in enumerate(zip(a[1], b[1])):
            if x != y:
                return describe_diff(x, y, "%s.%d" % (path, i))
    if isinstance(a, tuple) and isinstance(b, tuple) and a and b and a[0] == b[0] == "some":
        return describe_diff(a[1], b[1], path)
    return path or "(value)"
