"""Tables shared by several properties: entry points, effect classes, operation classes."""

import re

import lib
from lib import SYN, OH, CC, PY

OHT = "opening_hours::opening_hours::OpeningHours::<L>::"

# Public API entry points (anchored by path: a missing one fails the check closed).
EVAL_ENTRY = [
    OHT + "schedule_at",
    OHT + "iter_range",
    OHT + "iter_from",
    OHT + "next_change",
    OHT + "state",
    OHT + "is_open",
    OHT + "is_closed",
    OHT + "is_unknown",
    OHT + "normalize",
    OHT + "with_context",
    "<opening_hours::opening_hours::OpeningHours<L> as core::fmt::Display>::fmt",
    "<opening_hours::opening_hours::TimeDomainIterator<L> as core::iter::traits::iterator::Iterator>::next",
    "<opening_hours::schedule::IntoIter as core::iter::traits::iterator::Iterator>::next",
    "opening_hours::schedule::Schedule::from_ranges",
    "opening_hours::schedule::Schedule::addition",
    "<opening_hours::schedule::Schedule as core::iter::traits::collect::IntoIterator>::into_iter",
]

PARSE_ENTRY = [
    "opening_hours_syntax::parser::parse",
    "opening_hours::opening_hours::OpeningHours::parse",
    "<opening_hours::opening_hours::OpeningHours as core::str::traits::FromStr>::from_str",
]

SYNTAX_ENTRY = [
    "opening_hours_syntax::rules::OpeningHoursExpression::normalize",
    "opening_hours_syntax::rules::OpeningHoursExpression::is_constant",
    "<opening_hours_syntax::rules::OpeningHoursExpression as core::fmt::Display>::fmt",
]

CONTEXT_ENTRY = [
    "opening_hours::context::Context::<opening_hours::localization::localize::TzLocation<chrono_tz::timezones::Tz>>::from_coords",
    "opening_hours::context::Context::<L>::with_holidays",
    "opening_hours::context::Context::<L>::with_locale",
    "opening_hours::context::Context::<L>::approx_bound_interval_size",
    "opening_hours::context::ContextHolidays::new",
    "opening_hours::localization::coordinates::Coordinates::new",
    "opening_hours::localization::coordinates::Coordinates::event_time",
    "opening_hours::localization::localize::TzLocation::<Tz>::new",
    "opening_hours::localization::localize::TzLocation::<Tz>::with_coords",
    "opening_hours::localization::localize::TzLocation::<chrono_tz::timezones::Tz>::from_coords",
    "opening_hours::localization::country::<impl opening_hours::localization::country::generated::Country>::holidays",
    "opening_hours::localization::country::<impl opening_hours::localization::country::generated::Country>::try_from_coords",
    "<opening_hours::localization::country::generated::Country as core::str::traits::FromStr>::from_str",
    "opening_hours::localization::country::generated::Country::iso_code",
    "opening_hours::localization::country::generated::Country::name",
]

LOCALIZE_IMPLS = [
    "<opening_hours::localization::localize::NoLocation as opening_hours::localization::localize::Localize>::naive",
    "<opening_hours::localization::localize::NoLocation as opening_hours::localization::localize::Localize>::datetime",
    "<opening_hours::localization::localize::TzLocation<Tz> as opening_hours::localization::localize::Localize>::naive",
    "<opening_hours::localization::localize::TzLocation<Tz> as opening_hours::localization::localize::Localize>::datetime",
    "<opening_hours::localization::localize::TzLocation<Tz> as opening_hours::localization::localize::Localize>::event_time",
    "opening_hours::localization::localize::Localize::event_time",
]


def require_all(prog, ids, rule):
    """Anchors must exist; report each missing one (fail closed)."""
    ok = []
    for i in ids:
        if i in prog.fns:
            ok.append(i)
        else:
            rule.anchor_missing("entry point " + i)
    return ok


def eval_roots(prog, rule, with_parse=False, with_context=True):
    ids = list(EVAL_ENTRY) + list(SYNTAX_ENTRY) + list(LOCALIZE_IMPLS)
    if with_context:
        ids += CONTEXT_ENTRY
    if with_parse:
        ids += PARSE_ENTRY
    return require_all(prog, ids, rule)


# ---- effect classes (callee paths are real definition paths as printed by rustc) -------------

EFFECTS = {
    "TIME": re.compile(r"(std::time::(SystemTime|Instant)::now|std::time::SystemTime::elapsed|std::time::Instant::elapsed|chrono::offset::(local::Local|utc::Utc)::now|chrono::offset::local::|::now$)"),
    "RANDOM": re.compile(r"(^rand(_core|_chacha)?::|getrandom|std::hash::random::RandomState::new|std::random::|fastrand)"),
    "ENV": re.compile(r"^std::env::"),
    "FS": re.compile(r"^std::fs::|^std::path::Path::(exists|metadata|read_|is_file|is_dir|canonicalize)"),
    "NET": re.compile(r"^std::net::|^std::os::unix::net"),
    "IO": re.compile(r"^std::io::(stdin|stdio::stdin)|^std::process::"),
    "THREAD": re.compile(r"^std::thread::(current|spawn|sleep|park|yield_now|scope|available_parallelism)|^std::thread::local::|^std::thread::Thread::id"),
    "ADDRESS": re.compile(r"(::as_ptr$|::as_mut_ptr$|core::ptr::.*::addr$|::expose_provenance$|alloc::sync::Arc::<T>::(as_ptr|ptr_eq)|alloc::rc::Rc::<T>::(as_ptr|ptr_eq)|core::ptr::eq$|core::ptr::addr_eq$)"),
    "REFCOUNT": re.compile(r"alloc::(sync::Arc|rc::Rc)::<T.*>::(strong_count|weak_count|get_mut|make_mut|get_mut_unchecked|is_unique)"),
    "INTERIOR": re.compile(r"(core::cell::(Cell|RefCell|UnsafeCell|OnceCell)|std::sync::(Mutex|RwLock|OnceLock|mpsc)|std::sync::poison::(mutex::Mutex|rwlock::RwLock)|core::sync::atomic::Atomic|std::sync::once_lock::OnceLock|std::sync::mpmc)"),
}


def classify_effect(path):
    for k, rx in EFFECTS.items():
        if rx.search(path):
            return k
    return None


def callee_paths(t):
    c = t["callee"]
    if "indirect" in c:
        return []
    ps = [c["def"]]
    if c.get("resolved"):
        ps.append(c["resolved"]["def"])
    return ps


def static_refs(fn):
    """Statics referenced (by address or value) in a body: [(static id, node)]."""
    res = []
    for _, s in fn.stmts():
        if s["k"] != "assign":
            continue
        for op in lib.rvalue_operands(s["rv"]):
            if op.get("k") == "const" and op.get("static"):
                res.append((op["static"], s))
    for _, b in fn.live_blocks():
        for op in lib.term_operands(b["term"]):
            if op.get("k") == "const" and op.get("static"):
                res.append((op["static"], b["term"]))
    return res
