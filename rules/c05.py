"""C05 - the parser accepts the supported grammar and builds the denoted expression.

Decided: grammar and AST builder agree on structure - every child sequence the grammar can
emit is handled by an explicit arm and nothing parsed is dropped (R1, R2, abstract
interpretation of the builder's MIR over the grammar's child-sequence automata); numeric token
languages are exactly the documented ranges and fit their target types, rejections listed in
the property are enforced by the grammar (R3, exhaustive enumeration with a PEG matcher on the
grammar); enumerated tokens map to the AST variant the printer prints with a literal of the
same grammar rule (R4); ordered choice does not shadow a later alternative (R5, bounded).
Not decided: the full denotation (which field a number lands in, signs of offsets beyond
C11.R5), acceptance of every relaxation.
"""

import itertools
import re

import builder
import flow
import lib
import peg
import tokens

P = "opening_hours_syntax::parser::"


def run(ctx, prog, res):
    try:
        a = builder.get(prog)
    except peg.GrammarError as e:
        res.add_violation("C05.R0", "C05.R0:grammar", "the grammar cannot be analysed: %s" % e)
        return
    g = a.g

    # R1 -------------------------------------------------------------------------------------
    r1 = res.rule("C05.R1", "conformance: every expect/unwrap/assert/unexpected_token site of the AST builder is unreachable for every child sequence the grammar can produce (each builder is entered only with pairs of the rule it asserts; every `match` on a rule has an explicit arm for every rule that can occur)")
    sites = a.panic_sites()
    bad_nodes = {id(s.node): s for s in a.violations()}
    reported = set()
    for f, t, cls, msg in sites:
        s = bad_nodes.get(id(t))
        if s is None:
            r1.ok({"fn": f.id.replace(P, ""), "site": cls, "message": msg})
        else:
            reported.add(id(t))
            r1.fail("C05.R1:%s:%s:%s" % (f.id, cls, msg), "%s in %s is reachable: %s %s" % (cls, f.id, s.kind, {k: v for k, v in s.detail.items()}), lib.where_of(f, t), s.detail)
    for s in a.violations():
        if id(s.node) not in reported:
            r1.fail("C05.R1:%s:%s:%s" % (s.fn.id, s.what, s.detail.get("message", "")), "%s: %s in %s %s" % (s.kind, s.what, s.fn.id, s.detail), lib.where_of(s.fn, s.node), s.detail)
    missing = sorted(set(a.builders) - set(a.interpreted) - {P + "unexpected_token"})
    r1.check(not missing, {"builders": len(a.builders), "reached_from_parse": len(a.builders) - len(missing), "abstract_states": a.it.states, "builder_activations": a.it.calls}, "C05.R1:coverage",
             "builders never reached from parse for any child sequence (grammar rule no longer produced?): %s" % missing)
    r1.floor(110)

    # R2 -------------------------------------------------------------------------------------
    r2 = res.rule("C05.R2", "nothing parsed is dropped: when a builder returns a value, the children it did not consume are only marker tokens (single-literal rules); every information-carrying rule the grammar can emit reaches a builder")
    left = a.leftovers()
    for (fid, rule, syms), w in sorted(left.items()):
        r2.fail("C05.R2:%s:%s" % (fid, ",".join(syms)), "%s can return while children %s of `%s` are still unconsumed (after %s)" % (fid, list(syms), rule, w), lib.where_of(prog.fns[fid]))
    consumed = set()
    for (fid, args) in a.it.memo:
        if fid in prog.fns and prog.fns[fid].module == builder.MOD:
            for x in args:
                if x[0] == "pair":
                    consumed.add(x[1])
    emitted = set()
    for n in g.order:
        if g.produces_token(n) and g.rules[n]["ty"] != "Atomic" or n in g.order:
            start, acc, delta = g.kids_dfa(n)
            for q, m in delta.items():
                emitted.update(m.keys())
    info = sorted(s for s in emitted if s not in a.markers and s != "EOI")
    # rules consumed through as_str()/as_rule() inside their parent builder instead of a builder of their own
    inline = set()
    for f, t, rule, ty, msg in a.it.parse_obligations:
        inline.add(rule)
    never = [s for s in info if s not in consumed and s not in inline and s not in ("comment_character", "daynum_digits")]
    # symbols only inspected via as_rule() in a match (enumerated tokens) count as consumed when they appear in a token table
    tabled = set()
    for grule, bfn, ast, how in tokens.TABLES:
        _, tb = tokens.builder_table(prog, bfn, ast)
        tabled.update(tb.keys())
    never = [s for s in never if s not in tabled]
    r2.check(not never, {"information_carrying_rules": len(info), "reach_a_builder_or_table": len(info) - len(never), "markers": sorted(a.markers)[:12]}, "C05.R2:unreached",
             "grammar rules whose tokens never reach a builder: %s" % never)
    r2.ok({"value_returns_with_unconsumed_information": len(left)})
    # ... and nothing built is dropped: when a builder's tuple result is taken apart, every component that is used
    # at all reaches every value the function returns afterwards
    n_t = 0
    for f in prog.fns.values():
        if f.crate != lib.SYN or f.module != builder.MOD or f.kind != "Fn" or f.from_expansion:
            continue
        tl = {}
        for bb, b in f.live_blocks():
            for st in b["stmts"]:
                if st["k"] != "assign" or st["rv"]["k"] != "use":
                    continue
                pl = lib.operand_place(st["rv"]["op"])
                if pl and len(pl["p"]) == 1 and isinstance(pl["p"][0], dict) and "f" in pl["p"][0] and f.locals[pl["l"]]["ty"].startswith("("):
                    tl.setdefault(pl["l"], {}).setdefault(pl["p"][0]["f"], []).append(bb)
        rets = [(bb, st) for bb, b in f.live_blocks() for st in b["stmts"] if st["k"] == "assign" and st["dst"]["l"] == 0 and not st["dst"]["p"] and st["rv"]["k"] == "agg" and st["rv"].get("variant") == "Ok"]
        for l, comps in tl.items():
            base = flow.shape(f, l, depth=10)
            if "build_" not in base:
                continue
            for bb, st in rets:
                if not any(f.dominates(ub, bb) for v in comps.values() for ub in v):
                    continue
                sh = flow.rv_shape(f, st["rv"], depth=12)
                missing = [i for i in sorted(comps) if (base + ".%d" % i) not in sh]
                n_t += 1
                r2.check(not missing, {"fn": f.name, "result_of": re.sub(r"\(.*", "", base.replace("alt(", ""))[:60], "components_reaching_the_result": sorted(comps)}, "C05.R2:dropped:%s" % f.id,
                         "%s takes the result of %s apart and returns a value that drops component(s) %s of it (e.g. the `\"label\":` comment of a rule without weekday or time selector)" % (f.id, base[:80], missing), lib.where_of(f, st))
    r2.check(n_t >= 4, {"tuple_results_followed_to_the_return": n_t}, "C05.R2:dropped:FLOOR", "FLOOR: expected at least 4 destructured builder results, found %d" % n_t)

    # R3 -------------------------------------------------------------------------------------
    # ... nor is what an earlier repetition of a child contributed: in a builder loop over repeated children (a loop that
    # takes the next pair), a named accumulator that was initialised before the loop and is read after it must not be
    # overwritten as a whole by a value that does not depend on it - the last repetition would win (`Mo[1,3]` -> `Mo[3]`)
    n_loops = 0
    _rep = {}

    def repeatable(rule):
        """Symbols that can occur more than once among the children of `rule`."""
        if rule in _rep:
            return _rep[rule]
        start, acc, delta = g.kids_dfa(rule)

        def reach(q):
            seen, work = set(), [q]
            while work:
                x = work.pop()
                if x in seen:
                    continue
                seen.add(x)
                work.extend(delta.get(x, {}).values())
            return seen
        out = set()
        for q, m in delta.items():
            for sym, q2 in m.items():
                for q3 in reach(q2):
                    if sym in delta.get(q3, {}):
                        out.add(sym)
        _rep[rule] = out
        return out
    for fid, f in sorted(prog.fns.items()):
        if f.module != builder.MOD or f.kind != "Fn" or f.from_expansion:
            continue
        inloop = set()
        for b_, _blk in f.live_blocks():
            succs_ = [x for x in f.succs(b_) if not f.blocks[x]["cleanup"]]
            if any(b_ in flow.reachable_blocks(f, x) for x in succs_):
                inloop.add(b_)
        takes = [b_ for b_, t in f.calls() if b_ in inloop and re.search(r"Pairs::<'i, R> as core::iter::traits::iterator::Iterator>::next$|Pairs.*::next$", flow.call_name(t) or "")]
        if not takes:
            continue
        n_loops += 1
        for b_, st in f.stmts():
            if b_ not in inloop or st["k"] != "assign" or st["dst"]["p"]:
                continue
            l_ = st["dst"]["l"]
            name = f.locals[l_].get("name")
            if not name:
                continue
            outside_defs = [db for db, n in f.defs_of(l_) if db not in inloop]
            if not outside_defs:
                continue  # declared inside the loop: per-iteration value
            sh_ = flow.rv_shape(f, st["rv"], depth=5)
            depends = re.search(r"\b%s\b" % re.escape(name), sh_) is not None or ("_%d" % l_) in sh_
            # a child that the grammar allows at most once among the children of this builder's rule cannot be
            # overwritten by a second one: `x = build_x(pair)` under its own match arm is then fine
            rule_ = f.name[len("build_"):] if f.name.startswith("build_") else None
            if not depends and rule_ in g.rules:
                built = [x for x in re.findall(r"parser::build_(\w+)\(", sh_) if x in g.rules]
                if built and all(x not in repeatable(rule_) for x in built):
                    depends = True
            r2.check(depends, {"builder": f.name, "accumulator": name, "updated_in_loop_from": sh_[:60]}, "C05.R2:overwritten:%s:%s" % (f.name, name),
                     "%s overwrites `%s` - initialised before its loop over repeated children - with a value that does not depend on it (%s): only the last repetition survives, what earlier children contributed is dropped" % (f.name, name, sh_[:80]), lib.where_of(f, st))
    r2.check(n_loops >= 1, {"builder_loops_over_repeated_children": n_loops}, "C05.R2:FLOOR:loops", "FLOOR: no builder loop over repeated children found", None)
    r3 = res.rule("C05.R3", "numeric token languages are exactly the documented ranges and fit the types they are parsed into; the listed out-of-range inputs are rejected (exhaustive enumeration of digit strings with a PEG matcher on the grammar)")
    def vals(rule, n=5):
        return g.digit_language(rule, n)
    year = vals("year")
    r3.check(sorted(year) == ["%d" % y for y in range(1900, 10000)], {"rule": "year", "language": "1900..9999 (4 digits)", "size": len(year)}, "C05.R3:year", "L(year) is not exactly 1900..9999: size %d, e.g. %s" % (len(year), sorted(set(year) ^ {"%d" % y for y in range(1900, 10000)})[:4]))
    wk = vals("weeknum", 4)
    r3.check({int(x) for x in wk} == set(range(1, 54)) and all(len(x) <= 2 for x in wk), {"rule": "weeknum", "values": "1..53", "size": len(wk)}, "C05.R3:weeknum", "L(weeknum) values are %s..%s with lengths %s" % (min(map(int, wk)), max(map(int, wk)), sorted({len(x) for x in wk})))
    dn = vals("daynum", 4)
    r3.check({int(x) for x in dn} == set(range(1, 32)) and all(len(x) <= 2 for x in dn), {"rule": "daynum", "values": "1..31", "size": len(dn)}, "C05.R3:daynum", "L(daynum) values are %s" % sorted({int(x) for x in dn} ^ set(range(1, 32)))[:5])
    nth = vals("nth", 3)
    r3.check(nth == ["1", "2", "3", "4", "5"], {"rule": "nth", "values": nth}, "C05.R3:nth", "L(nth) = %s" % nth)
    mi = vals("minute", 4)
    r3.check(sorted(mi) == ["%02d" % m for m in range(60)], {"rule": "minute", "values": "00..59 (2 digits)"}, "C05.R3:minute", "L(minute) = %s..." % sorted(mi)[:3])
    hr = vals("hour", 4)
    r3.check({int(x) for x in hr} == set(range(24)) and all(len(x) <= 2 for x in hr), {"rule": "hour", "values": "0..23"}, "C05.R3:hour", "L(hour) values %s" % sorted({int(x) for x in hr} ^ set(range(24)))[:5])
    eh = vals("extended_hour", 4)
    r3.check({int(x) for x in eh} == set(range(49)) and all(len(x) <= 2 for x in eh), {"rule": "extended_hour", "values": "0..48"}, "C05.R3:extended_hour", "L(extended_hour) values %s" % sorted({int(x) for x in eh} ^ set(range(49)))[:5])
    hm_ok = g.full_match("hour_minutes", "24:00") and not any(g.full_match("hour_minutes", s) for s in ("24:01", "24:30", "25:00", "24:0", "12:60", "12:7"))
    r3.check(hm_ok, {"rule": "hour_minutes", "also": "exactly 24:00 beyond 23:59"}, "C05.R3:hour_minutes", "hour_minutes does not accept exactly 24:00 beyond hour:minute")
    ehm_ok = g.full_match("extended_hour_minutes", "48:00") and g.full_match("extended_hour_minutes", "48:59") and not any(g.full_match("extended_hour_minutes", s) for s in ("49:00", "48:60", "100:00"))
    r3.check(ehm_ok, {"rule": "extended_hour_minutes", "max_hour": 48, "minutes_above_48:00": "rejected by ExtendedTime::new (C19.R1)"}, "C05.R3:extended_hour_minutes", "extended_hour_minutes bounds changed")
    pn_bad = [s for n in range(1, 5) for s in ("".join(t) for t in itertools.product("0123456789", repeat=n)) if g.full_match("positive_number", s) != (s.strip("0") != "")]
    r3.check(not pn_bad, {"rule": "positive_number", "language": "digit strings with a non-zero digit (steps are never 0)", "strings_checked": 11110}, "C05.R3:positive_number", "positive_number accepts zero or rejects a positive number: %s" % pn_bad[:5])
    for c in a.parse_checks():
        r3.check(not c["bad"], {"builder": c["fn"].replace(P, ""), "token": c["rule"], "parsed_as": c["type"], "language_size": c["language_size"], "max": c["max"]}, "C05.R3:parse:%s:%s:%s" % (c["fn"], c["rule"], c["type"]),
                 "%s parses token `%s` as %s and unwraps the result, but the token language does not fit: %s" % (c["fn"], c["rule"], c["type"], c["bad"]), lib.where_of(prog.fns[c["fn"]], c["node"]))
    rejects = {
        "empty input": ("input_opening_hours", ""),
        "unbalanced quote": ("input_opening_hours", 'Mo "abc'),
        "start hour above 24": ("input_opening_hours", "25:00-26:00"),
        "minute above 59": ("input_opening_hours", "10:60-12:00"),
        "extended hour above 48": ("input_opening_hours", "10:00-49:00"),
        "day 0": ("input_opening_hours", "Jan 0"),
        "day above 31": ("input_opening_hours", "Jan 32"),
        "week 0": ("input_opening_hours", "week 0"),
        "week above 53": ("input_opening_hours", "week 54"),
        "nth 0": ("input_opening_hours", "Mo[0]"),
        "nth 6": ("input_opening_hours", "Mo[6]"),
        "year below 1900": ("input_opening_hours", "1899"),
        "year above 9999": ("input_opening_hours", "10000"),
        "zero step (year)": ("input_opening_hours", "2020-2030/0"),
        "zero step (week)": ("input_opening_hours", "week 1-53/0"),
    }
    for what, (rule, text) in rejects.items():
        r3.check(not g.full_match(rule, text), {"rejected": what, "input": text}, "C05.R3:reject:%s" % what, "the grammar now accepts `%s` (%s)" % (text, what))
    accepts = ["24/7", "Mo-Fr 10:00-18:00", "Mo 9:00-12:00", "Jan 1", "Mo off", "Jan: 10:00-12:00", "Jan 10:00-12:00", "Mo[1,-1] 10:00-12:00", "2020-2030/2", "week 1-53/2 Mo", "sunrise-sunset", "(sunrise+01:00)-(sunset-00:30)", "10:00-12:00+", "10:00+", "PH +1 day", "Jan 1+Su -1 day-Feb 3", "easter -2 days-easter +1 day", "10:00-12:00/30", "10:00-12:00/01:30", "Mo-Fr 10:00-12:00 ; Sa off || unknown \"call\""]
    for text in accepts:
        r3.check(g.full_match("input_opening_hours", text), {"accepted": text}, "C05.R3:accept:%s" % text, "the grammar no longer accepts `%s`" % text)
    r3.floor(50)

    # R4 -------------------------------------------------------------------------------------
    r4 = res.rule("C05.R4", "token tables commute: for each enumerated AST type the builder's table Rule -> variant is injective and onto the variants, and the text the printer emits for a variant is accepted by the very grammar rule the builder maps to it")
    for grule, bfn, ast, how in tokens.TABLES:
        bf, bt = tokens.builder_table(prog, bfn, ast)
        variants = [v["name"] for v in prog.adt(ast)["variants"]]
        vals_ = list(bt.values())
        r4.check(len(set(vals_)) == len(vals_) and sorted(vals_) == sorted(variants), {"type": ast.split("::")[-1], "rows": len(bt), "bijective_onto_variants": True}, "C05.R4:%s:bijection" % grule,
                 "builder table for %s is not a bijection onto %s: %s" % (grule, ast.split("::")[-1], bt), lib.where_of(bf))
        pf, pt = tokens.printer_table(prog, how, ast)
        if pt is None:
            continue
        for rule, variant in sorted(bt.items()):
            text = pt.get(variant)
            ok = text is not None and g.full_match(rule, text)
            r4.check(ok, {"type": ast.split("::")[-1], "grammar_rule": rule, "variant": variant, "printed": text}, "C05.R4:%s:%s" % (grule, rule),
                     "`%s` is built as %s::%s, which prints as %r - not a text of grammar rule `%s`" % (rule, ast.split("::")[-1], variant, text, rule), lib.where_of(bf))
    r4.floor(35)

    # R5 -------------------------------------------------------------------------------------
    r5 = res.rule("C05.R5", "ordered choice does not shadow a supported sentence: for every rule, each sentence obtained by committing to one alternative per choice (bounded enumeration over the grammar with representative tokens) is accepted by the PEG reading of the same rule")
    import shadow
    shadow.check(g, r5, thorough=(ctx.tier == "thorough"))

    # R6 -------------------------------------------------------------------------------------
    r6 = res.rule("C05.R6", "abbreviated date ranges (`Dec 25-05`) roll over correctly: wherever the result of a cyclic successor (`Month::next`) is compared with a constant to detect the wrap, the constant is the first element of the cycle (the month frame start, January)")
    DAYM = "opening_hours_syntax::rules::day::Month"
    fs = prog.fns.get("<%s as opening_hours_syntax::normalize::frame::Framable>::FRAME_START" % DAYM)
    first = flow.shape(fs, 0) if fs else None
    n = 0
    for f in prog.fns.values():
        if f.crate != lib.SYN or f.from_expansion:
            continue
        for bb, d in flow.comparisons(f):
            if d["op"] not in ("Eq", "Ne"):
                continue
            for side, other in (("a", "b"), ("b", "a")):
                calls = [flow.call_name(c) for c in flow.origin_calls(f, d[side])]
                if DAYM + "::next" in calls:
                    vs = flow.const_variants(f, d[other])
                    if vs:
                        n += 1
                        want = "Month::%s{}" % vs[0].split("::")[-1]
                        r6.check(first is not None and want == first, {"fn": f.id, "compares_successor_with": vs[0].split("::")[-1], "frame_start": first}, "C05.R6:%s" % f.id,
                                 "%s detects the wrap of Month::next by comparing with %s, but the cycle restarts at %s" % (f.id, vs[0].split("::")[-1], first), lib.where_of(f, d["node"]))
    # the day-number form of an end (`Jan 10-20`, `Jan 25-05`): the end rolls into the next month only when its day
    # number is strictly smaller than the start's; an equal day is the start day itself
    bdt = prog.fns.get("opening_hours_syntax::parser::build_date_to")
    if bdt is None:
        r6.anchor_missing("parser::build_date_to")
    else:
        tests = [c for _, c in flow.comparisons(bdt) if c["op"] in ("Lt", "Le", "Gt", "Ge") and any("Fixed.day" in flow.shape(bdt, c[x], depth=4) for x in ("a", "b")) and any("build_daynum" in flow.shape(bdt, c[x], depth=6) or "daynum" in flow.shape(bdt, c[x], depth=6).lower() for x in ("a", "b"))]
        r6.check(len(tests) >= 1, {"fn": "build_date_to", "day_number_tests": len(tests)}, "C05.R6:date_to:ANCHOR", "ANCHOR: build_date_to no longer compares the start's day with the parsed day number", lib.where_of(bdt))
        for c in tests:
            r6.check(c["op"] in ("Lt", "Gt"), {"fn": "build_date_to", "roll_over_test": c["op"], "strict": True}, "C05.R6:date_to:strict",
                     "build_date_to rolls the end into the next month with a non-strict test (%s): `Jan 10-10` then ends on Feb 10 instead of being the single day" % c["op"], lib.where_of(bdt, c["node"]))
    r6.floor(2)

    # R7 -------------------------------------------------------------------------------------
    r7 = res.rule("C05.R7", "an open-ended date (`May 1+`, `2024 May 1+`, `2024 easter+`) runs to the end of the year, or for ever when its start carries a year - for every kind of start date: where the builder chooses the far end `9999 Dec 31`, the choice is controlled by a test that looks at the year of every variant of Date that has one (Date::has_year, or an equivalent inline test)")
    DATE = "opening_hours_syntax::rules::day::Date"
    year_variants = sorted(v["name"] for v in prog.adts[DATE]["variants"] if any(f["name"] == "year" for f in v["fields"])) if DATE in prog.adts else []
    hy = prog.fns.get(DATE + "::has_year")
    hy_reads = {v for (v, f) in lib.reads(prog, hy.id, DATE) if f == "year"} if hy else set()
    n7 = 0
    for fid, fn in sorted(prog.fns.items()):
        if not fid.startswith("opening_hours_syntax::parser::") or fn.from_expansion:
            continue
        for bb, t in fn.calls():
            if not (flow.call_name(t) or "").endswith("day::Date::ymd"):
                continue
            shs = [flow.shape(fn, a, depth=4) for a in t["args"]]
            if "9999" not in shs:
                continue
            n7 += 1
            # switches that control this block: a dominating switch one of whose edges dominates the block
            ctrl = []
            cur = fn.blocks[bb]["idom"]
            while cur is not None:
                tt = fn.blocks[cur]["term"]
                if tt["k"] == "switch":
                    succs = set(fn.succs(cur))
                    doms = [s_ for s_ in succs if fn.dominates(s_, bb)]
                    if len(doms) == 1 and len(succs) > 1:
                        ctrl.append(flow.shape(fn, tt["op"], depth=6))
                cur = fn.blocks[cur]["idom"]
            # ... and the switches of the `match`/`if` region that ends in this block (or-patterns reach the arm
            # through several edges: none of them dominates it alone)
            top = fn.blocks[bb]["idom"]
            if top is not None:
                back = {bb}
                work = [bb]
                preds = {}
                for i, _b in fn.live_blocks():
                    for x in fn.succs(i):
                        preds.setdefault(x, set()).add(i)
                while work:
                    x = work.pop()
                    for pz in preds.get(x, ()):
                        if pz not in back and fn.dominates(top, pz):
                            back.add(pz)
                            if pz != top:
                                work.append(pz)
                for x in back:
                    tt = fn.blocks[x]["term"]
                    if tt["k"] == "switch":
                        ctrl.append(flow.shape(fn, tt["op"], depth=6))
            text = " ".join(ctrl)
            if "Date::has_year(" in text:
                seen = hy_reads
                how = "Date::has_year"
            else:
                seen = {v for v in year_variants if re.search(r"@%s\.year" % v, text)}
                how = "inline test"
            missing = [v for v in year_variants if v not in seen]
            r7.check(bool(year_variants) and not missing, {"fn": fid.split("::")[-1], "far_end": "Date::ymd(%s)" % ", ".join(shs), "decided_by": how, "year_looked_at_for": sorted(seen)}, "C05.R7:%s" % fid.split("::")[-1],
                     "%s chooses the far end `9999 Dec 31` of an open-ended date by a test that never looks at the year of %s: `2024 easter+` ends on the undated Dec 31 (every year) instead of running for ever" % (fid, ", ".join("Date::" + v for v in missing)), lib.where_of(fn, t))
    r7.floor(1)

    # R8 -------------------------------------------------------------------------------------
    r8 = res.rule("C05.R8", "an optional part that is absent takes its neutral default, not what a sibling parsed: in a dated range `(start, start offset) - (end, end offset)` the end's offset may only repeat the start's offset where the end itself repeats the start (the single date `Jan 5 +1 day`); an end parsed by its own rule (`-Dec 31`, `+`) has its own offset or none")
    import terms as _terms
    n8 = 0
    for fid, fn in sorted(prog.fns.items()):
        if not fid.startswith("opening_hours_syntax::parser::") or fn.from_expansion:
            continue
        for bb, b in fn.live_blocks():
            for st in b["stmts"]:
                if not (st["k"] == "assign" and st["rv"]["k"] == "agg" and st["rv"].get("ak") == "adt" and st["rv"].get("variant") == "Date" and str(st["rv"].get("adt", "")).endswith("MonthdayRange")):
                    continue
                ops = dict(zip(st["rv"]["fields"], st["rv"]["ops"]))
                if set(ops) != {"start", "end"}:
                    continue
                parts = {}
                for k, o in ops.items():
                    sh = flow.shape(fn, o, depth=8)
                    try:
                        t = _terms.parse(sh)
                    except _terms.TermError:
                        t = None
                    if t is None or t[0] != "app" or t[1] != "tuple" or len(t[2]) != 2:
                        parts = None
                        break
                    # split the printed tuple at its top-level comma
                    depth = 0
                    inner = sh[len("tuple("):-1]
                    cut = None
                    for i, ch in enumerate(inner):
                        if ch in "([{":
                            depth += 1
                        elif ch in ")]}":
                            depth -= 1
                        elif ch == "," and depth == 0:
                            cut = i
                            break
                    parts[k] = (inner[:cut].strip(), inner[cut + 1:].strip())
                n8 += 1
                if parts is None:
                    r8.fail("C05.R8:ANCHOR:%s" % fid.split("::")[-1], "ANCHOR: a MonthdayRange::Date is built from something else than two (date, offset) pairs in %s" % fid, lib.where_of(fn, st))
                    continue
                (sd, so), (ed, eo) = parts["start"], parts["end"]
                same_date = ed == sd
                # by call site, not by spelling: the end's offset inherits when the very call that parsed the
                # start's offset is in its backward slice (two parses written alike are two call sites)
                def comp(op, i):
                    pl = lib.operand_place(op)
                    if pl is None or pl["p"]:
                        return None
                    defs = [n for _, n in fn.defs_of(pl["l"]) if n["k"] == "assign" and n["rv"]["k"] == "agg" and n["rv"].get("ak") == "tuple" and len(n["rv"]["ops"]) == 2]
                    return defs[0]["rv"]["ops"][i] if len(defs) == 1 else None
                so_op, eo_op = comp(ops["start"], 1), comp(ops["end"], 1)
                if so_op is None or eo_op is None:
                    r8.fail("C05.R8:ANCHOR2:%s" % fid.split("::")[-1], "ANCHOR: the (date, offset) pairs of a MonthdayRange::Date are not built as plain tuples in %s" % fid, lib.where_of(fn, st))
                    continue
                is_parse = lambda c: c.get("k") == "call" and (flow.call_name(c) or "").endswith("build_date_offset")
                so_calls = [c for c in flow.deep_origin_calls(fn, so_op, depth=8) if is_parse(c)]
                eo_calls = [c for c in flow.deep_origin_calls(fn, eo_op, depth=8) if is_parse(c)]
                inherits = any(c is d for c in so_calls for d in eo_calls)
                r8.check(same_date or not inherits, {"fn": fid.split("::")[-1], "end_is_the_start": same_date, "end_offset": eo[:120]}, "C05.R8:%s" % fid.split("::")[-1],
                         "%s gives the end of a dated range the start's offset although the end is a date of its own (%s): `Dec 25 -2 days-Dec 31` ends on Dec 29" % (fid, ed[:120]), lib.where_of(fn, st))
    r8.floor(2)
