"""C08 - supported date range: closed outside 1900..9999, results never leave it.

Decided: the bounds are the documented constants and agree with the year frame (R1); the
per-day guard dominates all rule evaluation and the pre-1900 guard precedes the constant
shortcut (R2); both window ends are clamped and emitted ranges cannot leave the window (R3);
hints saturate to DATE_END (R5). R4 = C03.R2. Not decided: that the first instant >= 1900
reported is really the first non-closed one (iterator values).
"""

import re

import flow
import lib

OHT = "opening_hours::opening_hours::OpeningHours::<L>::"
DS = "opening_hours::opening_hours::DATE_START"
DE = "opening_hours::opening_hours::DATE_END"
RANGE = "core::ops::range::Range"
MIN = re.compile(r"(^core::cmp::min$|core::cmp::Ord::min$)")
MAX = re.compile(r"(^core::cmp::max$|core::cmp::Ord::max$)")


def const_call_args(fn, suffix):
    res = []
    for _, t in fn.calls():
        if flow.call_name(t).endswith(suffix):
            res.append(tuple(a.get("int") for a in t["args"]))
    return res


def is_min_with_end(fn, call):
    """min(DATE_END, x) or min(x, DATE_END): returns the other operand or None."""
    if not any(MIN.search(n) for n in flow.call_names(call)) or len(call["args"]) != 2:
        return None
    a, b = call["args"]
    if flow.date_bound(fn, a) == "DATE_END":
        return b
    if flow.date_bound(fn, b) == "DATE_END":
        return a
    return None


def run(ctx, prog, res):
    # R1 -------------------------------------------------------------------------------------
    r1 = res.rule("C08.R1", "DATE_START = 1900-01-01T00:00 and DATE_END = 10000-01-01T00:00, and they agree with the year frame used by normalization (1900 / 9999 + 1)")
    for cid, ymd in ((DS, (1900, 1, 1)), (DE, (10000, 1, 1))):
        f = prog.require_fn(cid)
        r1.check(const_call_args(f, "NaiveDate::from_ymd_opt") == [ymd] and const_call_args(f, "NaiveTime::from_hms_opt") == [(0, 0, 0)],
                 {"const": cid, "ymd": list(ymd), "hms": [0, 0, 0]}, "C08.R1:%s" % cid.split("::")[-1],
                 "%s is not %s at 00:00:00 (found %s %s)" % (cid, ymd, const_call_args(f, "NaiveDate::from_ymd_opt"), const_call_args(f, "NaiveTime::from_hms_opt")), lib.where_of(f))
    frame = {}
    for nm in ("FRAME_START", "FRAME_END"):
        f = prog.fns.get("<opening_hours_syntax::rules::day::Year as opening_hours_syntax::normalize::frame::Framable>::" + nm)
        if f is None:
            r1.anchor_missing("Year::" + nm)
            continue
        vals = [op.get("int") for _, s in f.stmts() if s["k"] == "assign" and s["rv"]["k"] == "agg" for op in s["rv"]["ops"]]
        frame[nm] = vals[0] if vals else None
    r1.check(frame.get("FRAME_START") == 1900 and frame.get("FRAME_END") == 9999, {"Year::FRAME_START": frame.get("FRAME_START"), "Year::FRAME_END": frame.get("FRAME_END")},
             "C08.R1:frame", "year frame %s does not match DATE_START.year / DATE_END.year - 1" % frame)
    # python layer uses the same re-exported constant
    pym = prog.fns.get("opening_hours_py::types::datetime::DateTimeMaybeAware::map_date_limit")
    if pym is not None:
        items = [i for _, d in flow.comparisons(pym) for side in ("a", "b") for i in flow.const_items(pym, d[side])]
        r1.check(DE in items, {"python_layer": "map_date_limit compares with opening_hours::DATE_END"}, "C08.R1:py", "the Python layer does not compare with the core's DATE_END", lib.where_of(pym))
    else:
        r1.anchor_missing("opening_hours_py map_date_limit")

    # R2 -------------------------------------------------------------------------------------
    r2 = res.rule("C08.R2", "closed outside the range by construction: every producer of day schedules is only reachable through schedule_at, where `(DATE_START.date()..DATE_END.date()).contains(date)` (exclusive end) dominates all rule evaluation and its failing edge returns the empty schedule; in the hint, `date < DATE_START.date()` on the unmodified date precedes the constant shortcut")
    producers = set()
    for f in prog.fns.values():
        if f.crate != lib.OH or f.kind == "Closure":
            continue
        for x in prog.with_closures(f.id):
            for _, t in prog.fns[x].calls():
                n = flow.call_name(t)
                if n == "opening_hours::schedule::Schedule::from_ranges" or n.startswith("opening_hours::filter::time_filter::time_selector_intervals_at"):
                    producers.add(f.id)
    producers.discard("opening_hours::filter::time_filter::time_selector_intervals_at")
    expected = {"opening_hours::opening_hours::rule_sequence_schedule_at"}
    r2.check(producers == expected, {"schedule_producers": sorted(producers)}, "C08.R2:producers", "schedule producers are %s (expected only rule_sequence_schedule_at): a new producer needs the date guard" % sorted(producers))
    cg = prog.callgraph()
    for p in sorted(producers):
        callers = {f for f, outs in cg.items() if p in outs and prog.fns[f].crate in lib.WS_LIBS and f != p}
        callers = {prog.fns[c].parent if prog.fns[c].kind == "Closure" else c for c in callers}
        r2.check(callers == {OHT + "schedule_at"}, {"producer": p, "callers": sorted(callers)}, "C08.R2:callers:%s" % p, "%s is called from %s (expected only schedule_at)" % (p, sorted(callers)))
    sa = prog.require_fn(OHT + "schedule_at")
    guard = None
    for bb, t in sa.calls():
        if flow.call_name(t) == "core::ops::range::Range::<Idx>::contains":
            recv = [o for o in flow.operand_origins(sa, t["args"][0]) if o.kind == "agg" and o.node["rv"].get("adt") == RANGE]
            if len(recv) == 1:
                st, en = recv[0].node["rv"]["ops"]
                if flow.date_bound(sa, st) == "DATE_START" and flow.date_bound(sa, en) == "DATE_END" and flow.root_params(sa, t["args"][1]) == {2} and not flow.origin_calls(sa, t["args"][1]):
                    d = flow.bool_switch_of(sa, t["t"]) or {}
                    sw = sa.blocks[t["t"]]["term"]
                    if sw["k"] == "switch":
                        tg = dict(sw["targets"])
                        guard = {"true": sw["otherwise"] if 0 in tg else tg.get(1), "false": tg.get(0) if 0 in tg else sw["otherwise"], "bb": bb}
    r2.check(guard is not None, {"fn": sa.id, "guard": "(DATE_START.date()..DATE_END.date()).contains(&date)"}, "C08.R2:guard", "schedule_at has no exclusive-range guard on the unmodified date", lib.where_of(sa))
    if guard:
        evals = [bb for bb, t in sa.calls() if flow.call_name(t) in expected or flow.call_names(t)[0].endswith("DateFilter::filter")]
        r2.check(evals and all(sa.dominates(guard["true"], b) for b in evals), {"evaluation_blocks": evals, "dominated_by_guard": True}, "C08.R2:dominance",
                 "rule evaluation in schedule_at is reachable without passing the date-range guard", lib.where_of(sa))
        fb = [flow.call_name(t) for bb, t in sa.calls() if sa.dominates(guard["false"], bb)]
        r2.check(fb == ["<opening_hours::schedule::Schedule as core::default::Default>::default"], {"outside_range_returns": fb}, "C08.R2:default",
                 "outside the supported range schedule_at does not return the empty schedule: %s" % fb, lib.where_of(sa))
    nh = prog.require_fn(OHT + "next_change_hint")
    pre = None
    for sbb, _ in nh.live_blocks():
        d = flow.bool_switch_of(nh, sbb)
        if d and d["op"] in ("Lt", "Gt"):
            a, b = (d["a"], d["b"]) if d["op"] == "Lt" else (d["b"], d["a"])
            if flow.date_bound(nh, b) == "DATE_START" and flow.root_params(nh, a) == {2} and not flow.origin_calls(nh, a) and not [o for o in flow.operand_origins(nh, a) if o.kind == "bin"]:
                pre = d
    r2.check(pre is not None, {"fn": nh.id, "guard": "date < DATE_START.date()"}, "C08.R2:hint-guard", "next_change_hint does not test the unmodified date against DATE_START.date() with `<`", lib.where_of(nh))
    if pre:
        consts = [bb for bb, t in nh.calls() if flow.call_name(t).endswith("OpeningHoursExpression::is_constant")]
        r2.check(consts and all(nh.dominates(pre["false_bb"], b) for b in consts), {"is_constant_blocks": consts, "after_pre_1900_guard": True}, "C08.R2:hint-order",
                 "the constant-expression shortcut is reachable before the pre-1900 guard", lib.where_of(nh))
        rets = [flow.date_bound(nh, s["rv"]["ops"][0]) for bb, s in nh.stmts() if nh.dominates(pre["true_bb"], bb) and s["k"] == "assign" and s["rv"]["k"] == "agg" and s["rv"].get("variant") == "Some"]
        r2.check(rets == ["DATE_START"], {"before_1900_hint": rets}, "C08.R2:hint-value", "before 1900 the hint is not DATE_START.date(): %s" % rets, lib.where_of(nh))
    r2.floor(6)

    # R3 -------------------------------------------------------------------------------------
    r3 = res.rule("C08.R3", "both window ends are clamped with DATE_END before they reach the iterator, every emitted range is max(start, from)..min(end, to) with the clamped from/to, and iter_from passes the localisation of DATE_END as end")
    irn = prog.require_fn(OHT + "iter_range_naive")
    news = [t for _, t in irn.calls() if flow.call_name(t) == "opening_hours::opening_hours::TimeDomainIterator::<L>::new"]
    r3.check(len(news) == 1, {"fn": irn.id, "iterator": "TimeDomainIterator::new"}, "C08.R3:new", "iter_range_naive does not build exactly one TimeDomainIterator", lib.where_of(irn))
    clamped = {}
    if len(news) == 1:
        for idx, pname in ((1, 2), (2, 3)):
            cs = flow.origin_calls(irn, news[0]["args"][idx])
            other = is_min_with_end(irn, cs[0]) if len(cs) == 1 else None
            ok = other is not None and flow.root_params(irn, other) == {pname} and not flow.origin_calls(irn, other)
            if ok:
                clamped[pname] = cs[0]
            r3.check(ok, {"fn": irn.id, "iterator_arg": idx, "value": "min(DATE_END, param %d)" % pname}, "C08.R3:clamp:naive:%d" % idx,
                     "argument %d of TimeDomainIterator::new is not min(DATE_END, the corresponding parameter)" % idx, lib.where_of(irn, news[0]))
    maps = [t for _, t in irn.calls() if flow.call_names(t)[0] == "core::iter::traits::iterator::Iterator::map"]
    ok = False
    if len(maps) == 1 and len(clamped) == 2:
        cl = prog.fns.get(flow.closure_of_operand(irn, maps[0]["args"][1]))
        caps = flow.closure_captures(irn, maps[0]["args"][1])
        cap_src = [[c for c in flow.origin_calls(irn, op)] for op in caps]
        if cl is not None:
            mk = [t for _, t in cl.calls() if flow.call_name(t).endswith("DateTimeRange::<D>::new_with_sorted_comments")]
            if len(mk) == 1:
                rng = [o for o in flow.operand_origins(cl, mk[0]["args"][0]) if o.kind == "agg" and o.node["rv"].get("adt") == RANGE]
                if len(rng) == 1:
                    st, en = rng[0].node["rv"]["ops"]
                    sc, ec = flow.origin_calls(cl, st), flow.origin_calls(cl, en)

                    def side(call, cls, fld, want_clamp):
                        if not any(cls.search(n) for n in flow.call_names(call)) or len(call["args"]) != 2:
                            return False
                        has_field = has_cap = False
                        for a in call["args"]:
                            nf = flow.nearest_field(cl, a)
                            if nf and nf[0] == RANGE and nf[2] == fld:
                                has_field = True
                            elif nf and nf[0].startswith("(closure"):
                                i = int(nf[2])
                                if i < len(cap_src) and len(cap_src[i]) == 1 and cap_src[i][0] is want_clamp:
                                    has_cap = True
                        return has_field and has_cap
                    ok = len(sc) == 1 and len(ec) == 1 and side(sc[0], MAX, "start", clamped[2]) and side(ec[0], MIN, "end", clamped[3])
                    # kind and comments are forwarded unchanged
                    k = flow.nearest_field(cl, mk[0]["args"][1])
                    c = flow.nearest_field(cl, mk[0]["args"][2])
                    ok = ok and k is not None and k[2] == "kind" and c is not None and c[2] == "comments"
    r3.check(ok, {"fn": irn.id, "emitted": "max(dtr.start, from)..min(dtr.end, to), kind and comments forwarded"}, "C08.R3:emit",
             "ranges emitted by iter_range_naive are not max(start, from)..min(end, to) of the clamped bounds", lib.where_of(irn))
    ir = prog.require_fn(OHT + "iter_range")
    calls = [t for _, t in ir.calls() if flow.call_name(t) == OHT + "iter_range_naive"]
    r3.check(len(calls) == 1, {"fn": ir.id}, "C08.R3:iter_range-call", "iter_range does not delegate to iter_range_naive exactly once", lib.where_of(ir))
    if len(calls) == 1:
        for idx, pname in ((1, 2), (2, 3)):
            cs = flow.origin_calls(ir, calls[0]["args"][idx])
            other = is_min_with_end(ir, cs[0]) if len(cs) == 1 else None
            ok = False
            if other is not None:
                nv = flow.origin_calls(ir, other)
                ok = len(nv) == 1 and flow.call_names(nv[0])[0].endswith("Localize::naive") and flow.root_params(ir, nv[0]["args"][1]) == {pname}
            r3.check(ok, {"fn": ir.id, "arg": idx, "value": "min(DATE_END, locale.naive(param %d))" % pname}, "C08.R3:clamp:iter_range:%d" % idx,
                     "argument %d of iter_range_naive is not min(DATE_END, locale.naive(parameter))" % idx, lib.where_of(ir, calls[0]))
    itf = prog.require_fn(OHT + "iter_from")
    calls = [t for _, t in itf.calls() if flow.call_name(t) == OHT + "iter_range"]
    ok = False
    if len(calls) == 1:
        dt = flow.origin_calls(itf, calls[0]["args"][2])
        ok = len(dt) == 1 and flow.call_names(dt[0])[0].endswith("Localize::datetime") and flow.date_bound(itf, dt[0]["args"][1]) == "DATE_END" and flow.root_params(itf, calls[0]["args"][1]) == {2}
    r3.check(ok, {"fn": itf.id, "end": "locale.datetime(DATE_END)"}, "C08.R3:iter_from", "iter_from does not pass locale.datetime(DATE_END) as the end of the window", lib.where_of(itf))
    r3.floor(7)

    # R5 -------------------------------------------------------------------------------------
    r5 = res.rule("C08.R5", "hints saturate to the upper bound: in the date filters every fallback date (`unwrap_or`, `unwrap_or_else`, let-else default) that is a range constant is DATE_END.date(), never DATE_START.date()")
    n = 0
    for f in prog.fns.values():
        if f.crate != lib.OH or not (f.module or "").startswith("opening_hours::filter::date_filter"):
            continue
        for bb, t in f.calls():
            name = flow.call_name(t)
            if re.search(r"core::option::Option::<T>::unwrap_or$", name) and "NaiveDate" in t["callee"].get("path_args", ""):
                b = flow.date_bound(f, t["args"][1])
                if b is not None:
                    n += 1
                    r5.check(b == "DATE_END", {"fn": f.id, "fallback": b}, "C08.R5:%s:unwrap_or" % f.id, "a hint falls back to %s instead of DATE_END in %s" % (b, f.id), lib.where_of(f, t))
            if re.search(r"core::option::Option::<T>::unwrap_or_else$", name) and "NaiveDate" in t["callee"].get("path_args", ""):
                cl = prog.fns.get(flow.closure_of_operand(f, t["args"][1]) or "")
                if cl is not None:
                    b = flow.date_bound(cl, 0)
                    if b is not None:
                        n += 1
                        r5.check(b == "DATE_END", {"fn": f.id, "fallback": b}, "C08.R5:%s:unwrap_or_else" % f.id, "a hint falls back to %s instead of DATE_END in %s" % (b, f.id), lib.where_of(f, t))
    r5.floor(5)
