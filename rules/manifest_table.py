"""Source of MANIFEST.json (bin/mkmanifest). One entry per claimed property."""

ENGINES = [
    {"name": "mirfacts", "path": "engines/mirfacts", "serves_properties": ["C18"],
     "kind_free_text": "rustc_private driver (nightly) run as RUSTC_WORKSPACE_WRAPPER under cargo check: dumps MIR with resolved callees, field names, dominators, ADTs, statics, impls, unsafe sites as JSON facts; rules are Python queries over those facts"},
    {"name": "witness", "path": "engines/witness", "serves_properties": ["C18"],
     "kind_free_text": "compile-time witnesses: trait-bound assertions type-checked by cargo check; compile_fail,E0xxx doctests with compiling twins"},
]

NOTES = ("Technique family: static analysis only. Every check re-extracts facts from /repo's current working tree "
         "(keyed by a hash of the tree) and decides named structural clauses of its property; what is not decided "
         "is listed per property in DESIGN.md section 3 and in level_note.")

CHECKS = {
    "C18": {
        "engine": "mirfacts+witness",
        "level": "proof",
        "technique": "type-and-effect analysis over MIR: no unsafe, no interior-mutable state or statics, no ambient-effect callee reachable from evaluation entry points; Send/Sync/Clone compile-time witnesses",
        "text": "Whole property decided as an effect argument: in safe Rust, evaluation through &self can neither change nor observe state other than its arguments unless unsafe code, interior mutability, a static, ambient OS state, an address or a reference count is reachable. The check enumerates every static, every library type (deep field walk), every function reachable from the evaluation entry points and every lazy initialiser, and discharges each obligation; Send+Sync+Clone are checked by the compiler in the witness crate.",
        "design_ref": "DESIGN.md section 3, C18",
        "note": "Trusted: rustc's type/borrow/auto-trait checking, std LazyLock/Once/Arc contracts, and purity of third-party crates on the evaluation path (chrono, chrono-tz, sunrise, flate2, tzf-rs, country-boundaries, pest, log), which are summarised by effect class and not analysed. Facts are taken from the unified workspace feature set.",
    },
}

def _c(engine, technique, text, ref, note, level="other"):
    return {"engine": engine, "level": level, "technique": technique, "text": text, "design_ref": ref, "note": note}


_TB = "Trusted: rustc nightly MIR construction, type checking and trait resolution; the fact extractor of this repository; std/chrono documentation for summarised callees. "

CHECKS.update({
    "C03": _c("mirfacts", "MIR dataflow rules: callee/operand provenance of state/is_*/next_change, abstract evaluation of the bound comparison on the three orderings",
              "Decides three structural clauses: the three predicates are exactly the three RuleKind cases of state on the same instant; next_change returns the end of the first interval of iter_from(instant) and maps 'naive(end) >= DATE_END' (true at equality, false below) to none; state evaluates a non-empty window and defaults to closed. It does not decide 'never earlier, never later' (values of the iterator).",
              "DESIGN.md section 3, C03", _TB + "Not decided: iterator values, sub-minute behaviour."),
    "C08": _c("mirfacts", "MIR dominance and provenance rules: constant tables, guard dominance, min/max clamping data paths, fallback constants of hints",
              "Decides: DATE_START/DATE_END are the documented constants and agree with the year frame and the Python layer; the exclusive date-range guard dominates every producer of day schedules and the pre-1900 guard (on the unmodified date) precedes the constant shortcut; both window ends reach the iterator only through min(DATE_END, .) and every emitted range is max(start, from)..min(end, to); hint fallbacks saturate to DATE_END. Does not decide that the first reported instant is the first non-closed one.",
              "DESIGN.md section 3, C08", _TB + "Not decided: values produced by the iterator."),
    "C14": _c("mirfacts+witness", "MIR ownership (who-may-write) rule, query-based sibling rule on merge-by-start loops, dominance/path rules on in-place merge and hole filling, compile_fail witnesses",
              "Decides: only module schedule builds or mutates a schedule's range vector; wherever ranges sorted by start are merged the farther end is kept (from_ranges and ranges_union are found by query); inputs are filtered by start < end; an in-place merge re-examines the merged element; hole filling extends closed periods under kind == HOLES_STATE; every yielded value passes pre_yield. Does not decide overlay ('most recent wins') and coalescing semantics of insert.",
              "DESIGN.md section 3, C14", _TB + "Not decided: insert/addition value semantics, exact tiling."),
    "C15": _c("mirfacts+witness", "MIR writer/reader wire-atom agreement, interval analysis of shift amounts under asserted parameter ranges, path rules on insert, adaptor-class rule on zip operands, compile_fail witnesses",
              "Decides: serialize/deserialize of the three types agree on the ordered wire atoms, buffer sizes and byte order and move values unmodified; every variable shift amount is proved in range from the asserted parameter ranges; fields are private and no mutable reference to the representation escapes; equality is derived and every window-opening path of insert sets first_year; year labels are zipped with unfiltered year slots. Does not decide bit positions, window growth counts, first_after values.",
              "DESIGN.md section 3, C15", _TB + "Not decided: arithmetic on runtime values (bit positions, counts)."),
    "C19": _c("mirfacts+witness", "exact path-box analysis of ExtendedTime::new (branches compare parameters with constants), interval analysis of all arithmetic, fmt template decoding, provenance rules, const-evaluated compile-time witness",
              "Decides: the accepted region of `new` is exactly {minute <= 59, 60*hour+minute <= 2880} (exhaustive over the box decomposition of its CFG paths, cross-checked by a const-evaluated witness over all u8 x u8 pairs); literals exist only in new and From<NaiveTime>; no arithmetic or cast on extended times can wrap for any argument; Display is {:02}:{:02} on (hour, minute); conversions pass (hour, minute, 0) and use / 60, % 60, * 60 on the right operands. Does not decide ordering (derived) and add_* results beyond no-silent-wrap.",
              "DESIGN.md section 3, C19", _TB + "The const witness is evaluated by rustc's const interpreter at type-check time and is reported under its own rule id (C19.W1)."),
    "C20": _c("mirfacts+witness", "MIR construction-site inventory with must-pass-through (sort then dedup) on the data path, ownership rule, guard/provenance rules on union, compile_fail witnesses",
              "Decides: a UniqueSortedVec can only be created empty, from a vector that passed natural-order sort then dedup on every path, or element-wise through Borrow from an existing instance; it is never handed out mutably; in union every extend is guarded by last(receiver) < first(argument), every push pushes the popped maximum onto the recursive result, and recursion is preceded by a pop; lookups binary-search the inner vector. Does not decide that union equals set union for every interleaving.",
              "DESIGN.md section 3, C20", _TB + "Assumes Borrow preserves order (documented by the crate)."),
})
ENGINES[0]["serves_properties"] = sorted(CHECKS.keys())
ENGINES[1]["serves_properties"] = ["C14", "C15", "C18", "C19", "C20"]

CHECKS.update({
    "C01": _c("mirfacts", "field-dependency completeness (reads) per trait role, must-pass-through on the conjunction of selector groups, enum-arm/field correspondence for holiday calendars, shape rules on the midnight spill, query-based merge rule, exhaustive evaluation of the extracted nth-position index expressions over their complete finite domain",
              "Decides: a rule is matched against all four selector groups conjunctively and every leaf selector reads every field of every variant; PH/SH read only, and the right, context calendar on the date shifted by the rule's offset, and evaluation reaches no embedded database; time spans are projected through every meaningful field; the spill past midnight is cut at 24:00/48:00 and shifted by exactly -24 h, a span wraps iff not start < end; overlapping spans are merged keeping the farther end; the indices into the nth tables are ceil(d/7)-1 and ceil((n-d+1)/7)-1 for every day of every month length, taken from the shifted date. Does not decide other selector arithmetic (steps, offsets, leap days, Easter, ISO weeks) nor the overlay of rule kinds/operators.",
              "DESIGN.md section 3, C01", _TB + "Not decided: arithmetic on dates in general. C01.R6 evaluates one extracted integer expression on all 118 elements of its domain (labelled in DESIGN.md)."),
    "C02": _c("mirfacts", "operation-class rules (MIN before flatten, no adaptor between list and aggregation), reads completeness for hints and for the constant shortcut, sibling agreement filter/hint, guard dominance in the iterator",
              "Decides: hints are combined as minima over all rules, all selector groups and all elements, with 'unknown' (None) winning; leaf hints read every field or answer unknown; the constant shortcut reads every rule attribute schedule_at branches on and compares only with the hole state; the hint's calendar lookups use the filter's shifted date; the iterator only jumps to a hint asserted to be in the future. Does not decide that each selector's hint value is a lower bound, nor merging across days.",
              "DESIGN.md section 3, C02", _TB + "Not decided: hint values (e.g. a hint one day late)."),
    "C07": _c("mirfacts", "reads completeness for MakeCanonical impls, constant tables of frames, sibling agreement canonical/as_naive on the wrap condition, must-pass-through of days_covered.set, universal-loop early-exit rule on is_val",
              "Decides necessary conditions of the rewrite: selectors are folded into the paving only after every field was inspected; frame bounds are the extremes of each dimension; a time span is canonical exactly when evaluation does not wrap it; every emitted rule marks its days covered; is_val only answers false early or true at exhaustion (this rule found the defect fixed in 8fb95e4); the day-wide reset uses the full bounds. Does not decide the paving algebra (set/pop_filter values) nor operator choice as a whole.",
              "DESIGN.md section 3, C07", _TB + "Not decided: values of the paving."),
    "C09": _c("mirfacts+witness", "expression-shape rules on the Localize impls, generic-call rule (no resolved Localize call in generic bodies), per-variant delegation via enum arms, compile-time witness with an opaque DateTime type",
              "Decides: naive() is naive_local of with_timezone(&self.tz); datetime() resolves with latest() and retries after +1 minute on the unmodified naive value; the generic evaluator converts only through the locale and builds every returned bound with locale.datetime (plus a parametricity witness); the Python locale delegates per variant. Does not decide monotonicity of returned bounds in absolute time.",
              "DESIGN.md section 3, C09", _TB + "Trusted: chrono/chrono-tz semantics of with_timezone, from_local_datetime, latest."),
    "C11": _c("mirfacts", "enum-arm constant tables, parameter-name driven argument provenance (lat/lon), expression-shape rule on the UTC->zone data path",
              "Decides exactly the first sentence (default table 06/07/19/20 without coordinates) and: event -> solar event table with one twilight definition; latitude/longitude never swapped at any of the 10 call boundaries with lat*/lon*/lng* parameters; the UTC event reaches the result only through with_timezone(&self.tz) and the wall-clock conversion; offsets are added with the written sign. Does not decide the physical ordering of events nor coordinate acceptance (inside the `sunrise` crate).",
              "DESIGN.md section 3, C11", _TB + "Trusted: sunrise, tzf-rs, country-boundaries."),
    "C12": _c("mirfacts", "type-directed conversion-site rule (error type -> exception), expression-shape delegation rules, enum-arm tables, control-dependence rule for explicit country",
              "Decides: error types map to the documented exceptions; validate is the success of the constructor's parser call; RuleKind -> State and texts agree with the core; each method delegates to its namesake on self.inner with the instant passed in; 10000-01-01 becomes None on interval ends by equality with the core's DATE_END; holiday inference from coordinates is only reachable without an explicit country; aware results keep their zone; __str__/__repr__ print the core's Display. Does not decide value agreement over all 13 argument combinations.",
              "DESIGN.md section 3, C12", _TB + "pyo3-generated glue is not analysed."),
    "C13": _c("mirfacts", "effect-class reachability from normalize, hash-iteration rule, derived-equality inventory, shared structural rules of C07",
              "Decides the determinism sentence (normalizing equal expressions gives equal results): no ambient input, no hash-order dependence, structural equality on all 16 AST types; and re-checks the two structural conditions of C07 whose violation breaks idempotence. Does not decide idempotence as a whole.",
              "DESIGN.md section 3, C13", _TB + "Not decided: normalize(normalize(e)) == normalize(e)."),
    "C17": _c("mirfacts+witness", "type facts, string-creation reachability (provenance), expression-shape rules on schedule construction and on the interval iterator, compile_fail witnesses",
              "Decides: comments leave the library only as UniqueSortedVec<Arc<str>>; evaluation creates no string, so every comment value was stored by the parser; a period is built with the kind and comments of the rule its spans come from, holes without comments; intervals carry the comments of the first peeked period and the interval iterator never merges comments; the parser chains both comment positions. Does not decide which comments an overlapping/merged period ends with.",
              "DESIGN.md section 3, C17", _TB + "The sorted/unique invariant itself is C20."),
})
ENGINES[0]["serves_properties"] = sorted(CHECKS.keys())
ENGINES[1]["serves_properties"] = ["C09", "C14", "C15", "C17", "C18", "C19", "C20"]

CHECKS.update({
    "C04": _c("mirfacts+grammardump", "whole-program panic-site inventory over the resolved call graph with class-based third-party summaries and a reviewed table; abstract interpretation of the AST builder's MIR over the grammar's child-sequence automata; SCC analysis of the call graph; acyclicity of grammar and AST type graph",
              "Decides panic freedom up to a reviewed inventory: every potentially panicking call/assertion reachable from the public API (incl. the Python methods) is discharged by a machine-checked guard, a reviewed row (count + argument) or is a recorded known finding with its failing input; all 125 builder sites are discharged exhaustively against the grammar (this found `10:00-12:00/30` and `/24:00`, fixed); recursion is bounded (acyclic grammar, 11 reviewed call-graph cycles with measures, acyclic AST types). Does not decide debug-only overflow traps, termination of raw loops, pest backtracking cost.",
              "DESIGN.md section 3, C04", _TB + "Reviewed rows are human arguments; std/chrono functions outside the may-panic classes are assumed total; sunrise, tzf-rs, country-boundaries, flate2, chrono-tz, pest, log, pyo3 are opaque-trusted. 8 known findings (unchecked chrono arithmetic on AST offsets, instants at chrono's limits)."),
    "C05": _c("mirfacts+grammardump", "abstract interpretation (collecting semantics with per-symbol forking) of the builder's MIR over DFAs of the grammar's child sequences; exhaustive enumeration of finite token languages with a PEG matcher on the grammar; three-way token tables; bounded PEG-vs-backtracking shadowing check",
              "Decides: grammar and builder agree on structure (every producible child sequence is handled by an explicit arm, nothing information-carrying is left unconsumed at a value return); numeric token languages are exactly the documented ranges and fit their target types, the listed out-of-range inputs are rejected and 20 documented forms accepted by the grammar; enumerated tokens map to the variant whose printed text the same grammar rule accepts; no alternative is shadowed by ordered choice (bounded); the abbreviated-range month wrap compares with the frame start. Does not decide which field a number lands in.",
              "DESIGN.md section 3, C05", _TB + "Trusted: pest_meta's grammar front end (same version as pest_derive), the PEG matcher of this repository. kids(R) ignores PEG ordering (superset): can only add obligations."),
    "C10": _c("mirfacts", "bijection check over enum/ALL/iso_code/FromStr tables and data files; decoding of the artefacts embedded in the compiled initialisers (constants in MIR) with the wire format and bit layout read off the code; expression-shape rules on the decoder and the build script; shared C15.R1/R2",
              "Decides: the country tables are one bijection with the data files; the embedded public and school databases (the byte constants the compiler baked into the lazy initialisers for the current tree) decode to exactly the dates of the data files, region by region with nothing left over (113517 + 988 dates, exhaustive); each decoded calendar is keyed by parsing its own region code; codec, public/school pairing and build-script table are consistent; reader and writer agree (C15.R1/R2). Does not decide flate2's inflate nor CompactCalendar::contains for every date beyond the structural rules of C15.",
              "DESIGN.md section 3, C10", _TB + "The artefact is produced by the build script during the analysing `cargo check`; the check decodes it with zlib and its own reader of the format."),
})
CHECKS.update({
    "C06": _c("mirfacts+grammardump", "symbolic interpretation of every Display body's MIR into path conditions + output templates; model finding over finite candidate sets (predicate abstraction with the printer's own comparison constants and the grammar's token ranges); PEG matcher on the grammar with token alignment; injectivity of the extracted printer on the explored values; reads() completeness; token tables",
              "Decides: every output shape of every Display impl of the syntax tree (all MIR paths; lists of length 0, 1, >=2; all 32x32 nth tables in the thorough tier) is a sentence of the grammar rule the builder turns into that node type, up to whole rule sequences and two-rule expressions from the start rule, with each printed child read back by a token of its own rule; no two explored values that differ print the same text (nothing is silently dropped or half compared); every field is read by its printer; printed tokens are the grammar's tokens of the same variant; Python str/repr print that text. Found and fixed: PH offsets, event offsets, Y-Y/n, missing `/` before repeats, a lone year merging into the first date (`2020Jan 5,Feb 3`), and `Su[2-1] +1 day` -> `Su +1 day`. Does not decide that the re-parsed tree evaluates identically, values outside the representative classes, lists beyond two elements.",
              "DESIGN.md section 3, C06", _TB + "Shapes no parse can produce are excluded through four feasibility rows, each tied to a grammar fact re-checked on every run and re-read against the builder (a fifth row was wrong, hid `Su[2-1] +1 day` -> `Su +1 day`, and was removed). Trusted: the PEG matcher and symbolic printer of this repository (unmodelled constructs fail closed)."),
})
ENGINES[0]["serves_properties"] = sorted(CHECKS.keys())
ENGINES.append({"name": "grammardump", "path": "engines/grammardump", "serves_properties": ["C04", "C05", "C06"], "kind_free_text": "pest_meta front end dumping grammar.pest as JSON; consumed by rules/peg.py (child-sequence DFAs, PEG matcher)"})

CHECKS.update({
    "C16": _c("mirfacts", "who-reads rule on the bound, guard extraction (comparisons with the bound as terms), dominance of the approximating branch, sibling agreement of the two interval constructors, constant relation between the two guard thresholds",
              "Decides the clauses visible in the shape of the code: the bound is only ever compared; the reporting guard measures the very interval it reports and its taken branch replaces only the end, by the constant DATE_END (start, kind and comments are those of the exact answer, so state is unchanged and an approximated answer is none, never another time); the early exit only returns; its threshold exceeds the reporting threshold by at least one day with the same bound, so a consumption cut short is always reported as none; the builder stores the bound unchanged. Does not decide the two value statements (exact within B - 24 h, none beyond B) nor the iterator state an early exit leaves for later calls.",
              "DESIGN.md section 3, C16", _TB + "Claimed for the named clauses only; the first design declined the property as a whole."),
})
ENGINES[0]["serves_properties"] = sorted(CHECKS.keys())

NOT_APPLICABLE = {
}

# properties whose rules are still being built are listed as not applicable until their check exists
PENDING = ["C01", "C02", "C03", "C04", "C05", "C06", "C07", "C08", "C09", "C10", "C11", "C12", "C13", "C14", "C15", "C17", "C19", "C20"]
for _p in PENDING:
    if _p not in CHECKS:
        NOT_APPLICABLE[_p] = "check not built yet in this revision of /verif (see DESIGN.md section 8 for the build order); not claimed until its rules run"
