"""Source of MANIFEST.json (bin/mkmanifest). One entry per claimed property."""

ENGINES = [
    {"name": "mirfacts", "path": "engines/mirfacts", "serves_properties": ["C18"],
     "kind_free_text": "rustc_private driver (nightly) run as RUSTC_WORKSPACE_WRAPPER under cargo check: dumps MIR with resolved callees, field names, dominators, ADTs, statics, impls, unsafe sites as JSON facts; rules are Python queries over those facts"},
    {"name": "witness", "path": "engines/witness", "serves_properties": ["C18"],
     "kind_free_text": "compile-time witnesses: trait-bound assertions type-checked by cargo check; compile_fail,E0xxx doctests with compiling twins"},
]

NOTES = ("Technique family: static analysis only. Every check re-extracts facts from /repo's current working tree "
         "(keyed by a hash of the tree) and decides named structural clauses of its property; what is not decided "
         "is listed per property in DESIGN.md section 3 and in level_note.")

CHECKS = {
    "C18": {
        "engine": "mirfacts+witness",
        "level": "proof",
        "technique": "type-and-effect analysis over MIR: no unsafe, no interior-mutable state or statics, no ambient-effect callee reachable from evaluation entry points; Send/Sync/Clone compile-time witnesses",
        "text": "Whole property decided as an effect argument: in safe Rust, evaluation through &self can neither change nor observe state other than its arguments unless unsafe code, interior mutability, a static, ambient OS state, an address or a reference count is reachable. The check enumerates every static, every library type (deep field walk), every function reachable from the evaluation entry points and every lazy initialiser, and discharges each obligation; Send+Sync+Clone are checked by the compiler in the witness crate.",
        "design_ref": "DESIGN.md section 3, C18",
        "note": "Trusted: rustc's type/borrow/auto-trait checking, std LazyLock/Once/Arc contracts, and purity of third-party crates on the evaluation path (chrono, chrono-tz, sunrise, flate2, tzf-rs, country-boundaries, pest, log), which are summarised by effect class and not analysed. Facts are taken from the unified workspace feature set.",
    },
}

NOT_APPLICABLE = {
    "C16": "Every sentence compares durations measured at run time from two reference points of a stateful iterator; no clause whose truth is visible in the shape of the code could be separated without either inter-call path-sensitive taint over iterator state or freezing a source fragment (DESIGN.md section 4).",
}

# properties whose rules are still being built are listed as not applicable until their check exists
PENDING = ["C01", "C02", "C03", "C04", "C05", "C06", "C07", "C08", "C09", "C10", "C11", "C12", "C13", "C14", "C15", "C17", "C19", "C20"]
for _p in PENDING:
    if _p not in CHECKS:
        NOT_APPLICABLE[_p] = "check not built yet in this revision of /verif (see DESIGN.md section 8 for the build order); not claimed until its rules run"
