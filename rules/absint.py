"""Abstract interpreter over MIR facts for the pest AST builders (parser.rs).

Collecting semantics with path forking over a finite abstract domain:
  pair(R)            a pest Pair of rule R
  pairs(R, q, pk)    the children iterator of a pair of rule R in DFA state q of kids(R);
                     pk = symbol already peeked (next must be it) or '$end' (peeked: exhausted)
  some(v)/none, ok(v)/err, rule(R), bool, int range, tuples / small enums, references to locals,
  function items, closures, lazy iterator adaptors over pairs, strof(R) (text of a pair), unk.
`next()`/`peek()` fork the state per possible next symbol, so every later comparison on the
rule of a pair is evaluated on a definite rule. A panic reachable in the abstract semantics is
reported with the call site; an `unwrap/expect` (or similar) on a value the domain cannot track
is *undischarged* and reported too (fails closed). No repository code is executed: the
interpreter walks the compiler's MIR with abstract values derived from the grammar's automata.
"""

import re

import lib

UNK = ("unk",)
NONE = ("none",)
UNIT = ("tup", ())
END = "$end"


def SOME(v):
    return ("some", v)


def OK(v):
    return ("ok", v)


ERR = ("err",)


def BOOL(b):
    return ("bool", bool(b))


def INT(lo, hi=None):
    return ("int", lo, lo if hi is None else hi)


class Panic(Exception):
    pass


class Site:
    """A reachable panic or an undischarged obligation."""

    def __init__(self, kind, fn, node, what, detail=None):
        self.kind, self.fn, self.node, self.what, self.detail = kind, fn, node, what, detail or {}

    def key(self):
        msg = self.detail.get("message") or ""
        return "%s:%s:%s:%s" % (self.kind, self.fn.id, self.what, msg)


class Interp:
    def __init__(self, prog, grammar, rule_adt, max_states=200000):
        self.prog = prog
        self.g = grammar
        self.rule_adt = rule_adt
        adt = prog.adt(rule_adt)
        self.rule_names = [v["name"] for v in adt["variants"]]
        self.rule_discr = dict(zip(self.rule_names, adt["discrs"] or range(len(self.rule_names))))
        self.discr_rule = {v: k for k, v in self.rule_discr.items()}
        self.memo = {}
        self.in_progress = set()
        self.sites = {}
        self.discharged = {}  # site key -> count of (fn, site) evaluated without panic
        self.max_states = max_states
        self.states = 0
        self.calls = 0
        self.accepted_inputs = {}  # builder fn -> set of rules it was entered with (and survived the assertion)
        self.parse_obligations = []  # (fn, node, rule, target type)
        self.unconsumed = []  # (fn, pairs value, node) at value returns
        self.consumed_pairs = {}
        self.callee_info = {}
        self.builder_module = "opening_hours_syntax::parser"
        self._ranges = {}
        self.summaries = {}

    # -- helpers -----------------------------------------------------------------------------------

    def site(self, kind, fn, node, what, **detail):
        s = Site(kind, fn, node, what, detail)
        self.sites.setdefault(s.key(), s)

    def ok_site(self, fn, node, what):
        k = (fn.id, what, node["sp"]["line"] if node.get("sp") else 0)
        self.discharged[k] = self.discharged.get(k, 0) + 1

    def witness(self, pv):
        """A shortest child sequence leading to the state of a pairs value."""
        if pv[0] != "pairs":
            return None
        _, rule, q, pk = pv
        start, acc, delta = self.g.kids_dfa(rule)
        prev = {start: None}
        work = [start]
        while work:
            s = work.pop(0)
            for sym, t in delta.get(s, {}).items():
                if t not in prev:
                    prev[t] = (s, sym)
                    work.append(t)
        seq = []
        cur = q
        while prev.get(cur) is not None:
            s, sym = prev[cur]
            seq.append(sym)
            cur = s
        seq.reverse()
        return {"rule": rule, "consumed": seq, "peeked": pk}

    # -- places ------------------------------------------------------------------------------------

    def read_place(self, env, pl):
        v = env.get(pl["l"], UNK)
        return self._project(env, v, pl["p"])

    def _project(self, env, v, projs):
        for p in projs:
            if p == "*":
                if v[0] == "ref":
                    v = self._project(env, env.get(v[1], UNK), v[2])
                elif v[0] in ("unk",):
                    v = UNK
                # boxes / other pointers: transparent
                continue
            if isinstance(p, dict) and "dc" in p:
                continue
            if isinstance(p, tuple) and p[0] == "x":
                v = UNK
                continue
            if (isinstance(p, dict) and "f" in p) or (isinstance(p, tuple) and p[0] == "f"):
                i = p["f"] if isinstance(p, dict) else p[1]
                if v[0] == "tup":
                    v = v[1][i] if i < len(v[1]) else UNK
                elif v[0] == "adt":
                    v = v[3][i] if i < len(v[3]) else UNK
                elif v[0] in ("some", "ok") and i == 0:
                    v = v[1]
                elif v[0] == "clo":
                    v = v[2][i] if i < len(v[2]) else UNK
                elif v[0] == "ref":
                    v = self._project(env, env.get(v[1], UNK), v[2] + (("f", i),))
                else:
                    v = UNK
                continue
            v = UNK
        return v

    def write_place(self, env, pl, val):
        if not pl["p"]:
            env[pl["l"]] = val
            return
        # write through a reference to a whole local
        base = env.get(pl["l"], UNK)
        if pl["p"] == ["*"] and base[0] == "ref" and not base[2]:
            env[base[1]] = val
            return
        # field writes into tracked aggregates are not modelled: forget the aggregate
        if base[0] == "ref":
            env[base[1]] = UNK
        else:
            env[pl["l"]] = UNK if base[0] in ("pairs", "pair") else base

    def operand(self, fn, env, op):
        k = op.get("k")
        if k in ("copy", "move"):
            v = self.read_place(env, op["pl"])
            if k == "move" and not op["pl"]["p"] and v[0] in ("pairs", "map", "flatmap"):
                env[op["pl"]["l"]] = ("moved",)
            return v
        if k == "const":
            return self.const(fn, op)
        return UNK

    def const(self, fn, op):
        if "fn" in op:
            c = op["fn"]
            fid = lib.callee_id(c)
            self.callee_info[fid] = c
            return ("fn", fid)
        if op.get("closure"):
            return ("clo", op["closure"], ())
        if "promoted" in op:
            body = fn.j.get("promoted", [])
            if op["promoted"] < len(body):
                return self._promoted(fn, body[op["promoted"]])
            return UNK
        ty = op.get("ty", "")
        if op.get("variant") and self.rule_adt in ty:
            return ("rule", op["variant"])
        if "bool" in op:
            return BOOL(op["bool"])
        if "str" in op:
            return ("str", op["str"])
        if "int" in op and not op.get("variant"):
            return INT(op["int"])
        if op.get("variant"):
            return ("adt", ty.lstrip("&"), op["variant"], ())
        if ty == "()":
            return UNIT
        return UNK

    def _promoted(self, fn, body):
        env = {}
        for b in body["blocks"]:
            for s in b["stmts"]:
                if s["k"] == "assign":
                    env[s["dst"]["l"]] = self.rvalue(fn, env, s["rv"]) if not s["dst"]["p"] else UNK
        v = env.get(0, UNK)
        if v[0] == "ref":
            return self._project(env, env.get(v[1], UNK), v[2])
        return v

    # -- rvalues -----------------------------------------------------------------------------------

    def rvalue(self, fn, env, rv):
        k = rv["k"]
        if k == "use":
            return self.operand(fn, env, rv["op"])
        if k in ("ref", "rawptr"):
            pl = rv["pl"]
            projs = pl["p"]
            if projs and projs[0] == "*":
                base = env.get(pl["l"], UNK)
                if base[0] == "ref":
                    rest = self._hproj(projs[1:])
                    return ("ref", base[1], base[2] + rest)
                return self._project(env, base, projs[1:]) if base[0] != "unk" else UNK
            rest = self._hproj(projs)
            return ("ref", pl["l"], rest)
        if k == "discr":
            return self.discr(self.read_place(env, rv["pl"]))
        if k == "agg":
            ops = tuple(self.operand(fn, env, o) for o in rv["ops"])
            ak = rv.get("ak")
            if ak == "tuple":
                return ("tup", ops)
            if ak == "closure":
                caps = tuple(self._deref_val(env, o) for o in ops)
                return ("clo", rv["closure"], caps)
            if ak == "adt":
                adt, var = rv["adt"], rv["variant"]
                if adt == "core::option::Option":
                    return NONE if var == "None" else SOME(ops[0])
                if adt == "core::result::Result":
                    return OK(ops[0]) if var == "Ok" else ERR
                if adt == self.rule_adt:
                    return ("rule", var)
                if adt.startswith("opening_hours_syntax::parser::") or adt in ("core::ops::control_flow::ControlFlow", "core::ops::range::RangeInclusive", "core::ops::range::Range"):
                    return ("adt", adt, var, ops)
                return UNK
            return UNK
        if k == "cast":
            v = self.operand(fn, env, rv["op"])
            if rv["ck"].startswith("PointerCoercion") or rv["ck"].startswith("Transmute") or "FnPtr" in rv["ck"]:
                return v
            if rv["ck"].startswith("IntToInt") and v[0] == "int":
                return v
            return UNK
        if k == "bin":
            return self.binop(rv["op"], self.operand(fn, env, rv["a"]), self.operand(fn, env, rv["b"]))
        if k == "un":
            v = self.operand(fn, env, rv["a"])
            if rv["op"] == "Not" and v[0] == "bool":
                return BOOL(not v[1])
            if rv["op"] == "Neg" and v[0] == "int":
                return INT(-v[2], -v[1])
            return UNK
        if k == "repeat":
            return UNK
        return UNK

    @staticmethod
    def _hproj(projs):
        out = []
        for p in projs:
            if p == "*":
                out.append("*")
            elif isinstance(p, dict) and "dc" in p:
                continue
            elif isinstance(p, dict) and "f" in p:
                out.append(("f", p["f"]))
            else:
                out.append(("x",))
        return tuple(out)

    def _deref_val(self, env, v):
        if v[0] == "ref":
            return self._project(env, env.get(v[1], UNK), v[2])
        return v

    def discr(self, v):
        if v[0] == "none":
            return INT(0)
        if v[0] == "some":
            return INT(1)
        if v[0] == "ok":
            return INT(0)
        if v[0] == "err":
            return INT(1)
        if v[0] == "rule":
            return INT(self.rule_discr[v[1]])
        if v[0] == "adt":
            a = self.prog.adts.get(v[1])
            if a is not None:
                names = [x["name"] for x in a["variants"]]
                ds = a["discrs"] or list(range(len(names)))
                return INT(ds[names.index(v[2])])
            if v[1] == "core::ops::control_flow::ControlFlow":
                return INT(0 if v[2] == "Continue" else 1)
        if v[0] == "bool":
            return INT(1 if v[1] else 0)
        return UNK

    def binop(self, op, a, b):
        a, b = self.int_of(a), self.int_of(b)
        base = op.replace("WithOverflow", "").replace("Unchecked", "")
        if a[0] == "int" and b[0] == "int":
            if base in ("Eq", "Ne", "Lt", "Le", "Gt", "Ge"):
                lo1, hi1, lo2, hi2 = a[1], a[2], b[1], b[2]
                if lo1 == hi1 and lo2 == hi2:
                    r = {"Eq": lo1 == lo2, "Ne": lo1 != lo2, "Lt": lo1 < lo2, "Le": lo1 <= lo2, "Gt": lo1 > lo2, "Ge": lo1 >= lo2}[base]
                    return BOOL(r)
                if base == "Lt" and hi1 < lo2:
                    return BOOL(True)
                if base == "Lt" and lo1 >= hi2:
                    return BOOL(False)
                if base == "Le" and hi1 <= lo2:
                    return BOOL(True)
                if base == "Gt" and lo1 > hi2:
                    return BOOL(True)
                if base == "Ge" and lo1 >= hi2:
                    return BOOL(True)
                if base == "Eq" and (hi1 < lo2 or hi2 < lo1):
                    return BOOL(False)
                if base == "Ne" and (hi1 < lo2 or hi2 < lo1):
                    return BOOL(True)
                return UNK
            r = None
            if base == "Add":
                r = INT(a[1] + b[1], a[2] + b[2])
            elif base == "Sub":
                r = INT(a[1] - b[2], a[2] - b[1])
            elif base == "Mul" and a[1] >= 0 and b[1] >= 0:
                r = INT(a[1] * b[1], a[2] * b[2])
            if r is not None:
                return ("tup", (r, BOOL(False))) if op.endswith("WithOverflow") else r
        if a[0] == "bool" and b[0] == "bool" and base in ("Eq", "Ne", "BitAnd", "BitOr"):
            return BOOL({"Eq": a[1] == b[1], "Ne": a[1] != b[1], "BitAnd": a[1] and b[1], "BitOr": a[1] or b[1]}[base])
        if op.endswith("WithOverflow"):
            return ("tup", (UNK, BOOL(False)))
        return UNK

    # -- function execution ------------------------------------------------------------------------

    def call_fn(self, fid, args, caller=None, node=None):
        """Outcomes of calling a workspace function with abstract args: list of ('ret', value)."""
        key = (fid, args)
        if key in self.memo:
            return self.memo[key]
        if key in self.in_progress:
            return [("ret", UNK)]  # recursion: sound enough, grammar recursion is checked separately
        fn = self.prog.fns.get(fid)
        if fn is None:
            return [("ret", UNK)]
        self.in_progress.add(key)
        self.calls += 1
        try:
            outs = self.exec_body(fn, args)
        finally:
            self.in_progress.discard(key)
        self.memo[key] = outs
        return outs

    def exec_body(self, fn, args):
        env0 = {}
        for i, a in enumerate(args):
            env0[i + 1] = a
        rets = []
        seen = set()
        work = [(0, self._freeze(env0))]
        while work:
            bb, fenv = work.pop()
            if (bb, fenv) in seen:
                continue
            seen.add((bb, fenv))
            self.states += 1
            if self.states > self.max_states:
                raise lib.CheckerBroken("abstract interpretation exceeded %d states in %s" % (self.max_states, fn.id))
            env = dict(fenv)
            block = fn.blocks[bb]
            for s in block["stmts"]:
                if s["k"] == "assign":
                    v = self.rvalue(fn, env, s["rv"])
                    self.write_place(env, s["dst"], v)
            t = block["term"]
            k = t["k"]
            if k == "goto":
                work.append((t["t"], self._freeze(env)))
            elif k == "return":
                rets.append(("ret", self._deref_val(env, env.get(0, UNIT)), self._freeze(env)))
            elif k == "drop":
                work.append((t["t"], self._freeze(env)))
            elif k == "switch":
                v = self.operand(fn, env, t["op"])
                if v[0] == "bool":
                    v = INT(1 if v[1] else 0)
                if v[0] == "int" and v[1] == v[2]:
                    tg = dict(t["targets"])
                    work.append((tg.get(v[1], t["otherwise"]), self._freeze(env)))
                else:
                    for _, tgt in t["targets"]:
                        work.append((tgt, self._freeze(env)))
                    work.append((t["otherwise"], self._freeze(env)))
            elif k == "assert":
                c = self.operand(fn, env, t["cond"])
                if t["msg"] == "BoundsCheck":
                    if c[0] == "bool" and c[1] == t["expected"]:
                        self.ok_site(fn, t, "BoundsCheck")
                    elif c[0] == "bool":
                        self.site("panic", fn, t, "BoundsCheck", message="index out of bounds")
                        continue
                    else:
                        ops = [self.operand(fn, env, o) for o in t["ops"]]
                        self.site("undischarged", fn, t, "BoundsCheck", message="index %s not provably below length %s" % (ops[1:], ops[:1]))
                elif t["msg"] in ("DivisionByZero", "RemainderByZero"):
                    if not (c[0] == "bool" and c[1] == t["expected"]):
                        self.site("undischarged", fn, t, t["msg"], message="divisor not provably non-zero")
                work.append((t["t"], self._freeze(env)))
            elif k == "call":
                for val, env2 in self.do_call(fn, env, t):
                    if t["t"] is None:
                        continue
                    e3 = dict(env2)
                    self.write_place(e3, t["dst"], val)
                    work.append((t["t"], self._freeze(e3)))
            elif k in ("unreachable", "resume", "terminate"):
                pass
            else:
                pass
        # summarise
        outs = []
        seen_vals = set()
        for _, v, fenv in rets:
            if v not in seen_vals:
                seen_vals.add(v)
                outs.append(("ret", v))
            # unconsumed children at a value return: every pairs value still in the frame
            if v[0] != "err":
                for l, x in fenv:
                    if x[0] == "pairs":
                        self.unconsumed.append((fn, x))
        return outs

    @staticmethod
    def _freeze(env):
        return tuple(sorted(env.items(), key=lambda kv: kv[0]))

    # -- calls -------------------------------------------------------------------------------------

    def do_call(self, fn, env, t):
        """Yield (return value, env) per outcome of a call terminator. Panics are recorded."""
        c = t["callee"]
        args = [self.operand(fn, env, a) for a in t["args"]]
        if "indirect" in c:
            f = self.operand(fn, env, c["indirect"])
            return [(v, env) for v in self.apply(fn, t, f, [self._deref_val(env, a) for a in args])]
        names = [c["def"]]
        if c.get("resolved"):
            names.append(c["resolved"]["def"])
        name = names[-1]
        # diverging callees = panic
        if c.get("diverges") or t["t"] is None:
            if any(n.startswith("core::panicking::") or n.startswith("std::rt::") or n.startswith("core::option::") or n.startswith("core::result::") for n in names):
                msg = None
                for a in args:
                    if a[0] == "str":
                        msg = a[1]
                self.site("panic", fn, t, name.split("::")[-1], message=msg or "")
                return []
            # a workspace function that never returns (unexpected_token): execute it for its panic
            if name in self.prog.fns:
                self.call_fn(name, tuple(self._deref_val(env, a) for a in args))
                self.site("panic", fn, t, name.split("::")[-1], message="diverging helper reached")
                return []
            self.site("panic", fn, t, name.split("::")[-1], message="diverging call")
            return []
        m = self.builtin(fn, env, t, names, args)
        if m is not None:
            return m
        if name in self.prog.fns and self._descend(name):
            dargs = tuple(self._deref_val(env, a) for a in args)
            # a &mut to tracked children handed to another function: not modelled -> forget them
            for a, op in zip(args, t["args"]):
                if a[0] == "ref" and env.get(a[1], UNK)[0] == "pairs" and "&mut" in (c.get("inputs") or [""])[t["args"].index(op)]:
                    env = dict(env)
                    env[a[1]] = UNK
            outs = self.call_fn(name, dargs, fn, t)
            return [(o[1], env) for o in outs]
        # opaque callee: tracked children passed by &mut are forgotten
        env2 = env
        for a, ity in zip(args, c.get("inputs") or []):
            if a[0] == "ref" and "&mut" in ity and env.get(a[1], UNK)[0] in ("pairs",):
                env2 = dict(env2)
                env2[a[1]] = UNK
        return [(v, env2) for v in self.opaque_result(c)]

    def _descend(self, fid):
        """Only builder code is interpreted; everything else is an opaque (total) callee here and
        belongs to the panic inventory of C04.R1."""
        f = self.prog.fns[fid]
        root = f
        guard = 0
        while root.kind == "Closure" and root.parent in self.prog.fns and guard < 8:
            root = self.prog.fns[root.parent]
            guard += 1
        return (root.module or "") == self.builder_module

    def int_of(self, v):
        """Integer range of an abstract value: ints, or numbers parsed from a token language."""
        if v[0] == "int":
            return v
        if v[0] == "intof":
            key = v[1]
            if key not in self._ranges:
                lang = self.g.digit_language(key, 5)
                self._ranges[key] = (min(int(x) for x in lang), max(int(x) for x in lang)) if lang else None
            r = self._ranges[key]
            return INT(r[0], r[1]) if r else UNK
        return v

    def opaque_result(self, c):
        out = c.get("output", "")
        if out.startswith("core::result::Result<"):
            return [OK(UNK), ERR]
        if out.startswith("core::option::Option<"):
            return [SOME(UNK), NONE]
        if out == "bool":
            return [BOOL(True), BOOL(False)]
        if out == "()":
            return [UNIT]
        return [UNK]

    def apply(self, fn, t, f, args):
        """Call an abstract function value (fn item or closure) -> list of return values."""
        if f[0] == "fn":
            fid = f[1]
            if fid in self.prog.fns:
                return [o[1] for o in self.call_fn(fid, tuple(args), fn, t)]
            cal = self.callee_info.get(fid, {})
            if cal.get("ctor_adt"):
                return [UNK]
            return self.opaque_result(cal)
        if f[0] == "clo":
            return [o[1] for o in self.call_fn(f[1], (f,) + tuple(args), fn, t)]
        return [UNK]

    # -- models of library functions -----------------------------------------------------------------

    def builtin(self, fn, env, t, names, args):
        name = names[-1]
        decl = names[0]
        one = lambda v: [(v, env)]
        d = lambda a: self._deref_val(env, a)

        def set_ref(ref, val):
            e = dict(env)
            if ref[0] == "ref" and not ref[2]:
                e[ref[1]] = val
            elif ref[0] == "ref":
                e[ref[1]] = UNK
            return e

        # ---- pest
        if name.endswith("pest::iterators::pair::Pair::<'i, R>::into_inner"):
            p = d(args[0])
            if p[0] == "pair":
                start, acc, delta = self.g.kids_dfa(p[1])
                return one(("pairs", p[1], start, None))
            return one(UNK)
        if name.endswith("pest::iterators::pair::Pair::<'i, R>::as_rule"):
            p = d(args[0])
            if p[0] == "pair":
                return one(("rule", p[1]))
            if p[0] == "unk":
                return [(("rule", r), env) for r in self.rule_names] if False else one(UNK)
            return one(UNK)
        if name.endswith("pest::iterators::pair::Pair::<'i, R>::as_str"):
            p = d(args[0])
            return one(("strof", p[1]) if p[0] == "pair" else UNK)
        if re.search(r"pest::iterators::pairs::Pairs<'i, R> as core::iter::traits::iterator::Iterator>::next$", name) or name.endswith("pest::iterators::pairs::Pairs::<'i, R>::peek"):
            is_next = name.endswith("::next")
            ref = args[0]
            pv = d(ref)
            if pv[0] != "pairs":
                return [(SOME(UNK), env), (NONE, env)] if pv[0] == "unk" else one(UNK)
            _, rule, q, pk = pv
            start, acc, delta = self.g.kids_dfa(rule)
            outs = []
            if pk == END:
                return one(NONE)
            if pk is not None:
                nxt = ("pairs", rule, delta[q][pk], None) if is_next else pv
                return [(SOME(("pair", pk)), set_ref(ref, nxt))]
            for sym, q2 in sorted(delta.get(q, {}).items()):
                if is_next:
                    outs.append((SOME(("pair", sym)), set_ref(ref, ("pairs", rule, q2, None))))
                else:
                    outs.append((SOME(("pair", sym)), set_ref(ref, ("pairs", rule, q, sym))))
            if q in acc:
                outs.append((NONE, set_ref(ref, ("pairs", rule, q, END))))
            return outs
        if name.endswith("pest::parser::Parser::parse") or decl.endswith("pest::parser::Parser::parse"):
            r = d(args[0])
            if r[0] == "rule":
                # a silent entry rule yields its children as top-level pairs
                start, acc, delta = self.g.kids_dfa(r[1])
                top = ("pairs", r[1], start, None)
                if self.g.rules[r[1]]["ty"] != "Silent":
                    top = ("pairs1", r[1])
                return [(OK(top), env), (ERR, env)]
            return [(OK(UNK), env), (ERR, env)]
        # ---- iterator plumbing on tracked children
        if decl == "core::iter::traits::collect::IntoIterator::into_iter":
            v = d(args[0])
            if v[0] in ("pairs", "map", "flatmap"):
                return one(v)
            if v[0] in ("some", "none"):
                return one(("optiter", v))
            if v[0] == "adt" and v[1] == "core::ops::range::RangeInclusive":
                return one(v)
            return one(UNK)
        if decl == "core::option::Option::<T>::into_iter" or name == "core::option::Option::<T>::into_iter":
            return one(("optiter", d(args[0])))
        if decl == "core::iter::traits::iterator::Iterator::map":
            v = d(args[0])
            if v[0] in ("pairs", "map", "flatmap"):
                return one(("map", v, d(args[1])))
            return one(UNK)
        if decl == "core::iter::traits::iterator::Iterator::flat_map":
            v = d(args[0])
            if v[0] == "pairs":
                return one(("flatmap", v, d(args[1])))
            return one(UNK)
        if decl == "core::iter::traits::iterator::Iterator::collect":
            v = d(args[0])
            outs = self.drain(fn, t, v)
            if outs is None:
                return [(x, env) for x in self.opaque_result(t["callee"])]
            can_err, can_ok = outs
            res = []
            if t["callee"].get("output", "").startswith("core::result::Result<"):
                if can_ok:
                    res.append((OK(UNK), env))
                if can_err:
                    res.append((ERR, env))
                return res or [(OK(UNK), env)]
            return one(UNK)
        if decl == "core::iter::traits::iterator::Iterator::next":
            v = d(args[0])
            if v[0] == "adt" and v[1] == "core::ops::range::RangeInclusive" and len(v[3]) >= 2 and self.int_of(v[3][0])[0] == "int" and self.int_of(v[3][1])[0] == "int":
                lo, hi = self.int_of(v[3][0])[1], self.int_of(v[3][1])[2]
                return [(SOME(INT(lo, hi)), env), (NONE, env)] if lo <= hi else [(NONE, env)]
            if v[0] == "pairs":
                pass
        if name.endswith("core::ops::range::RangeInclusive::<Idx>::new"):
            return one(("adt", "core::ops::range::RangeInclusive", "RangeInclusive", (d(args[0]), d(args[1]))))
        # ---- Option
        if re.search(r"core::option::Option::<T>::(expect|unwrap)$", name):
            v = d(args[0])
            if v[0] == "some":
                self.ok_site(fn, t, name.split("::")[-1])
                return one(v[1])
            msg = d(args[1])[1] if len(args) > 1 and d(args[1])[0] == "str" else ""
            if v[0] == "none":
                self.site("panic", fn, t, "Option::" + name.split("::")[-1], message=msg, value="None")
                return []
            self.site("undischarged", fn, t, "Option::" + name.split("::")[-1], message=msg, value="untracked")
            return one(UNK)
        if name == "core::option::Option::<T>::map":
            v = d(args[0])
            if v[0] == "none":
                return one(NONE)
            if v[0] == "some":
                return [(SOME(r), env) for r in self.apply(fn, t, d(args[1]), [v[1]])]
            rs = self.apply(fn, t, d(args[1]), [UNK])
            return [(NONE, env)] + [(SOME(r), env) for r in rs]
        if name == "core::option::Option::<T>::unwrap_or":
            v = d(args[0])
            if v[0] == "some":
                return one(v[1])
            if v[0] == "none":
                return one(d(args[1]))
            return [(UNK, env), (d(args[1]), env)]
        if name == "core::option::Option::<T>::unwrap_or_else":
            v = d(args[0])
            if v[0] == "some":
                return one(v[1])
            rs = self.apply(fn, t, d(args[1]), [])
            if v[0] == "none":
                return [(r, env) for r in rs]
            return [(UNK, env)] + [(r, env) for r in rs]
        if name in ("core::option::Option::<T>::is_some", "core::option::Option::<T>::is_none"):
            v = d(args[0])
            if v[0] in ("some", "none"):
                return one(BOOL((v[0] == "some") == name.endswith("is_some")))
            return [(BOOL(True), env), (BOOL(False), env)]
        if name == "core::option::Option::<core::result::Result<T, E>>::transpose":
            v = d(args[0])
            if v[0] == "none":
                return one(OK(NONE))
            if v[0] == "some" and v[1][0] == "ok":
                return one(OK(SOME(v[1][1])))
            if v[0] == "some" and v[1][0] == "err":
                return one(ERR)
            return [(OK(NONE), env), (OK(SOME(UNK)), env), (ERR, env)]
        if name == "core::option::Option::<T>::ok_or" or name == "core::option::Option::<T>::ok_or_else":
            v = d(args[0])
            if v[0] == "some":
                return one(OK(v[1]))
            if v[0] == "none":
                return one(ERR)
            return [(OK(UNK), env), (ERR, env)]
        if name == "core::option::Option::<T>::as_mut" or name == "core::option::Option::<T>::as_ref":
            v = d(args[0])
            return one(v if v[0] in ("some", "none") else UNK) if v[0] != "unk" else [(SOME(UNK), env), (NONE, env)]
        # ---- Result
        if re.search(r"core::result::Result::<T, E>::(expect|unwrap)$", name):
            v = d(args[0])
            msg = d(args[1])[1] if len(args) > 1 and d(args[1])[0] == "str" else ""
            if v[0] == "ok":
                self.ok_site(fn, t, name.split("::")[-1])
                return one(v[1])
            if v[0] == "err":
                self.site("panic", fn, t, "Result::" + name.split("::")[-1], message=msg, value="Err")
                return []
            if v[0] == "parsed":
                self.parse_obligations.append((fn, t, v[1], v[2], msg))
                return one(("intof", v[1], v[2]))
            self.site("undischarged", fn, t, "Result::" + name.split("::")[-1], message=msg, value="untracked")
            return one(UNK)
        if name == "core::result::Result::<T, E>::map_err":
            v = d(args[0])
            if v[0] == "ok":
                return one(v)
            if v[0] == "err":
                self.apply(fn, t, d(args[1]), [UNK])
                return one(ERR)
            if v[0] == "parsed":
                return [(OK(("intof", v[1], v[2])), env), (ERR, env)]
            self.apply(fn, t, d(args[1]), [UNK])
            return [(OK(UNK), env), (ERR, env)]
        if name == "core::result::Result::<T, E>::ok":
            v = d(args[0])
            if v[0] == "ok":
                return one(SOME(v[1]))
            if v[0] == "err":
                return one(NONE)
            return [(SOME(UNK), env), (NONE, env)]
        if name.endswith("Try>::branch"):
            v = d(args[0])
            CF = "core::ops::control_flow::ControlFlow"
            if v[0] in ("ok", "some"):
                return one(("adt", CF, "Continue", (v[1],)))
            if v[0] in ("err", "none"):
                return one(("adt", CF, "Break", (UNK,)))
            if v[0] == "parsed":
                return [(("adt", CF, "Continue", (("intof", v[1], v[2]),)), env), (("adt", CF, "Break", (UNK,)), env)]
            return [(("adt", CF, "Continue", (UNK,)), env), (("adt", CF, "Break", (UNK,)), env)]
        if name.endswith("FromResidual<core::result::Result<core::convert::Infallible, E>>>::from_residual"):
            return one(ERR)
        if name.endswith("FromResidual<core::option::Option<core::convert::Infallible>>>::from_residual"):
            return one(NONE)
        # ---- comparisons
        if decl in ("core::cmp::PartialEq::eq", "core::cmp::PartialEq::ne"):
            a, b = d(args[0]), d(args[1])
            r = self.equal(a, b)
            if r is None:
                return [(BOOL(True), env), (BOOL(False), env)]
            return one(BOOL(r if decl.endswith("eq") else not r))
        # ---- strings / numbers
        if name == "core::str::<impl str>::parse":
            v = d(args[0])
            if v[0] == "strof":
                target = (t["callee"].get("gargs") or ["?"])[0]
                return one(("parsed", v[1], target))
            return [(OK(UNK), env), (ERR, env)]
        if re.search(r"core::convert::num::<impl core::convert::From<\w+> for \w+>::from$", name) or name in ("<T as core::convert::Into<U>>::into", "<T as core::convert::From<T>>::from"):
            return one(self.int_of(d(args[0])) if d(args[0])[0] in ("int", "intof") else d(args[0]))
        if name == "<T as core::convert::TryInto<U>>::try_into":
            v = self.int_of(d(args[0]))
            import intervals
            target = (t["callee"].get("gargs") or ["", ""])[1]
            tr = intervals.ty_range(target)
            if v[0] == "int" and tr is not None:
                if tr[0] <= v[1] and v[2] <= tr[1]:
                    return one(OK(v))
                if v[2] < tr[0] or v[1] > tr[1]:
                    return one(ERR)
            return [(OK(UNK), env), (ERR, env)]
        if name in self.summaries:
            return one(self.summaries[name])
        if name.endswith("::clone") and args:
            v = d(args[0])
            if v[0] in ("pair", "rule", "int", "bool", "adt", "some", "none", "tup"):
                return one(v)
        if name == "core::slice::<impl [T]>::contains":
            return [(BOOL(True), env), (BOOL(False), env)]
        return None

    def equal(self, a, b):
        if a[0] == "rule" and b[0] == "rule":
            return a[1] == b[1]
        if a[0] in ("some", "none") and b[0] in ("some", "none"):
            if a[0] != b[0]:
                return False
            if a[0] == "none":
                return True
            return self.equal(a[1], b[1])
        if a[0] == "adt" and b[0] == "adt" and not a[3] and not b[3]:
            return a[1:3] == b[1:3]
        if a[0] == "int" and b[0] == "int" and a[1] == a[2] and b[1] == b[2]:
            return a[1] == b[1]
        if a[0] == "bool" and b[0] == "bool":
            return a[1] == b[1]
        return None

    def drain(self, fn, t, it):
        """Consume a lazy adaptor chain over tracked children completely. Returns
        (some element may fail, some may succeed) or None when the iterator is not tracked."""
        if it[0] == "map":
            inner, f = it[1], it[2]
            elems = self.elements(fn, t, inner)
            if elems is None:
                return None
            can_err = False
            can_ok = True
            for e in elems:
                for r in self.apply(fn, t, f, [e]):
                    if r[0] == "err":
                        can_err = True
            return can_err, can_ok
        if it[0] == "flatmap":
            inner, f = it[1], it[2]
            elems = self.elements(fn, t, inner)
            if elems is None:
                return None
            can_err = False
            for e in elems:
                for r in self.apply(fn, t, f, [e]):
                    sub = self.drain(fn, t, r)
                    if sub is None:
                        self.site("undischarged", fn, t, "flat_map", message="closure result is not a tracked iterator")
                    else:
                        can_err |= sub[0]
            return can_err, True
        if it[0] == "pairs":
            return False, True
        return None

    def elements(self, fn, t, it):
        if it[0] == "pairs":
            _, rule, q, pk = it
            if pk == END:
                return []
            syms = self.g.symbols_from(rule, q)
            self.consumed_pairs[(fn.id, rule)] = True
            return [("pair", s) for s in sorted(syms)]
        if it[0] == "map":
            elems = self.elements(fn, t, it[1])
            if elems is None:
                return None
            out = []
            for e in elems:
                out.extend(self.apply(fn, t, it[2], [e]))
            return out
        return None
