"""C12 - Python bindings return what the Rust core returns.

Decided: error type -> Python exception (R1); validate and the constructor use the same
parser (R2); RuleKind -> State and its text (R3); each method delegates to its namesake on
self.inner with the instant passed in (R4); the upper bound becomes None on interval ends
(R5); an explicit country is never overridden by coordinates (R8); an aware result keeps its
zone (R9); __str__/__repr__ print the core's Display (R10). Not decided: value agreement for
all argument combinations (data flow over runtime Options), zone database behaviour.
"""

import re

import flow
import lib

PYO = "opening_hours_py::PyOpeningHours::"
DTM = "opening_hours_py::types::datetime::DateTimeMaybeAware"
KIND = "opening_hours_syntax::rules::RuleKind"


def run(ctx, prog, res):
    if lib.PY not in prog.crates:
        raise lib.AnchorMissing("crate opening_hours_py")
    new = prog.require_fn(PYO + "new")

    # R1 -------------------------------------------------------------------------------------
    r1 = res.rule("C12.R1", "each core failure is converted to the documented exception: syntax error -> ParserError, unknown country code -> UnknownCountryError, invalid coordinates -> InvalidCoordinatesError")
    want = [("opening_hours_syntax::error::Error", "ParserError"), ("UnknownCountryCode", "UnknownCountryError"), ("Coordinates", "InvalidCoordinatesError")]
    found = {}
    for fid in prog.with_closures(new.id):
        f = prog.fns[fid]
        for bb, t in f.calls():
            nm = flow.call_name(t)
            if nm.endswith("Result::<T, E>::map_err") or nm.endswith("Option::<T>::ok_or_else"):
                recv_ty = (t["callee"].get("inputs") or [""])[0]
                cl = prog.fns.get(flow.closure_of_operand(f, t["args"][1]) or "")
                exc = None
                if cl is not None:
                    for _, tt in cl.calls():
                        m = re.search(r"opening_hours_py::(\w+)::new_err", flow.call_name(tt)) or re.search(r"PyErr::new::<opening_hours_py::(\w+),", tt["callee"].get("path_args", ""))
                        if m:
                            exc = m.group(1)
                for ty, e in want:
                    if ty in recv_ty:
                        found.setdefault(e, []).append((exc, lib.where_of(f, t)))
    for ty, e in want:
        got = found.get(e, [])
        r1.check(len(got) >= 1 and all(x[0] == e for x in got), {"failure": ty, "exception": e, "sites": len(got)}, "C12.R1:%s" % e,
                 "%s is converted to %s (expected %s)" % (ty, [x[0] for x in got], e), got[0][1] if got else lib.where_of(new))

    # R1 (continued): the value that is validated is the argument itself
    val_sites = []
    for fid in prog.with_closures(new.id):
        f = prog.fns[fid]
        if f.kind != "Closure":
            continue
        if any(flow.call_name(t).endswith("Coordinates::new") for _, t in f.calls()):
            val_sites.append(f)
    recv = []
    for _, t in new.calls():
        if flow.call_name(t).endswith("Option::<T>::map") or flow.call_name(t).endswith("Option::<T>::and_then"):
            clo = flow.closure_of_operand(new, t["args"][1])
            if clo in {f.id for f in val_sites}:
                recv.append(flow.shape(new, t["args"][0], depth=6))
    r1.check(len(recv) == 1 and re.fullmatch(r"p\d+", recv[0]) is not None, {"coordinates_validated": "the unmodified argument" if recv else None, "receiver": recv}, "C12.R1:coords-unconditional",
             "the coordinates that reach validation are not the unmodified argument (%s): invalid coordinates can be dropped before they are checked" % recv, lib.where_of(new))

    # R2 -------------------------------------------------------------------------------------
    r2 = res.rule("C12.R2", "validate(s) is the success of the very parser call the constructor uses on its expression argument")
    v = prog.require_fn("opening_hours_py::validate")
    sh = flow.shape(v, 0)
    r2.check(flow.returns_is_ok_of(prog, v, "opening_hours::opening_hours::OpeningHours::parse"), {"fn": v.id, "returns": "true iff OpeningHours::parse(arg) is Ok"}, "C12.R2:validate", "validate is not `OpeningHours::parse(arg) is Ok`: %s" % sh, lib.where_of(v))
    parses = [t for _, t in new.calls() if flow.call_name(t) == "opening_hours::opening_hours::OpeningHours::parse"]
    ok = len(parses) == 1 and flow.root_params(new, parses[0]["args"][0]) == {1} and not flow.origin_calls(new, parses[0]["args"][0])
    r2.check(ok, {"fn": new.id, "parses": "OpeningHours::parse(oh)"}, "C12.R2:new", "the constructor does not parse its unmodified expression argument with OpeningHours::parse", lib.where_of(new))
    other_parsers = [flow.call_name(t) for fid in prog.with_closures(new.id) + prog.with_closures(v.id) for _, t in prog.fns[fid].calls() if flow.call_name(t) in ("opening_hours_syntax::parser::parse",)]
    r2.check(not other_parsers, {"other_parser_entry_points": 0}, "C12.R2:single-parser", "another parser entry point is used: %s" % other_parsers)

    # R3 -------------------------------------------------------------------------------------
    r3 = res.rule("C12.R3", "RuleKind maps to the State of the same name, and State prints the core's text for that kind")
    fr = prog.impl_method_one("core::convert::From", "from", self_adt="opening_hours_py::types::state::State")
    arms = flow.enum_arms(prog, fr, KIND)
    as_str = prog.require_fn(KIND + "::as_str")
    arms_s = flow.enum_arms(prog, as_str, KIND)
    disp = prog.impl_method_one("core::fmt::Display", "fmt", self_adt="opening_hours_py::types::state::State")
    arms_d = flow.enum_arms(prog, disp, "opening_hours_py::types::state::State")
    if len(arms) != 1 or len(arms_s) != 1 or len(arms_d) != 1:
        r3.fail("C12.R3:match", "State::from / RuleKind::as_str / Display for State do not each match once on the enum")
    else:
        for vname in ("Open", "Closed", "Unknown"):
            got = flow.shape_in(fr, 0, arms[0]["arms"][vname]["blocks"])
            r3.check(got == ["State::%s{}" % vname.upper()], {"RuleKind": vname, "State": got}, "C12.R3:from:%s" % vname, "RuleKind::%s becomes %s" % (vname, got), lib.where_of(fr))
            core_txt = flow.shape_in(as_str, 0, arms_s[0]["arms"][vname]["blocks"])
            py_txt = flow.shape_in(disp, 0, arms_d[0]["arms"][vname.upper()]["blocks"])
            m = re.fullmatch(r"Formatter::write_fmt\(p2, Arguments::from_str\(('[^']*')\)\)", py_txt[0]) if len(py_txt) == 1 else None
            r3.check(m is not None and core_txt == [m.group(1)], {"kind": vname, "core_text": core_txt, "python_text": py_txt}, "C12.R3:text:%s" % vname,
                     "State::%s prints %s but the core prints %s" % (vname.upper(), py_txt, core_txt), lib.where_of(disp))

    # R4 -------------------------------------------------------------------------------------
    r4 = res.rule("C12.R4", "each Python method delegates to the core method of the same name on self.inner with the instant passed in (current time only when none is given)")
    inst = r"DateTimeMaybeAware::unwrap_or_now\(p2\)"
    for m in ("state", "is_open", "is_closed", "is_unknown"):
        f = prog.require_fn(PYO + m)
        sh = flow.shape(f, 0)
        r4.check(re.fullmatch(r"OpeningHours::%s\(p1\.inner, %s\)" % (m, inst), sh) is not None, {"method": m, "returns": sh}, "C12.R4:%s" % m, "%s returns %s" % (m, sh), lib.where_of(f))
    f = prog.require_fn(PYO + "normalize")
    sh = flow.shape(f, 0)
    r4.check(sh == "PyOpeningHours{inner: OpeningHours::normalize(p1.inner)}", {"method": "normalize", "returns": sh}, "C12.R4:normalize", "normalize returns %s" % sh, lib.where_of(f))
    f = prog.require_fn(PYO + "next_change")
    sh = flow.shape(f, 0)
    ok = re.fullmatch(r"Option::map\(OpeningHours::next_change\(p1\.inner, %s\), closure\[%s\]\)" % (inst, inst), sh) is not None
    cl = [prog.fns[c] for c in prog.closures(f.id)]
    csh = flow.shape(cl[0], 0) if len(cl) == 1 else ""
    ok = ok and re.fullmatch(r"DateTimeMaybeAware::or_with_timezone_of\(p2, p1\.0\)", csh) is not None
    r4.check(ok, {"method": "next_change", "returns": sh, "closure": csh}, "C12.R4:next_change", "next_change returns %s with %s" % (sh, csh), lib.where_of(f))
    f = prog.require_fn(PYO + "intervals")
    sh = flow.shape(f, 0)
    r4.check(re.fullmatch(r"RangeIterator::new\(p1\.inner, %s, p3\)" % inst, sh) is not None, {"method": "intervals", "returns": sh}, "C12.R4:intervals", "intervals returns %s" % sh, lib.where_of(f))
    f = prog.require_fn("opening_hours_py::types::iterator::RangeIterator::new")
    sh = flow.shape(f, 0)
    r4.check(re.search(r"iter: alt\(Box::new\(OpeningHours::iter_from\(p1, p2\)\) \| Box::new\(OpeningHours::iter_range\(p1, p2, p3@Some\.0\)\)\)", sh) is not None, {"fn": f.id, "iter": sh[sh.find("iter:"):][:140]}, "C12.R4:iterator",
             "RangeIterator::new does not use iter_range(start, end) when an end is given and iter_from(start) otherwise: %s" % sh, lib.where_of(f))
    un = prog.require_fn(DTM + "::unwrap_or_now")
    sh = flow.shape(un, 0)
    r4.check(sh == "Option::unwrap_or_else(p1, closure[])", {"fn": un.id, "returns": sh}, "C12.R4:unwrap_or_now", "unwrap_or_now returns %s" % sh, lib.where_of(un))

    # R5 -------------------------------------------------------------------------------------
    r5 = res.rule("C12.R5", "10000-01-01 is reported as None: map_date_limit compares the naive local value with the core's DATE_END by equality and is applied to the end (not the start) of each yielded interval")
    ml = prog.require_fn(DTM + "::map_date_limit")
    cmps = [d for _, d in flow.comparisons(ml)]
    ok = len(cmps) == 1 and cmps[0]["op"] in ("Eq", "Ne")
    if ok:
        sides = [flow.shape(ml, cmps[0]["a"]), flow.shape(ml, cmps[0]["b"])]
        ok = sorted(sides) == sorted(["DateTimeMaybeAware::as_naive_local(p1)", "const:DATE_END"])
        d = None
        for sbb, _ in ml.live_blocks():
            d = flow.bool_switch_of(ml, sbb) or d
        none_b = [bb for bb, s in ml.stmts() if s["k"] == "assign" and s["dst"]["l"] == 0 and s["rv"]["k"] == "agg" and s["rv"].get("variant") == "None"]
        equal_edge = None if d is None else (d["true_bb"] if d["op"] == "Eq" else d["false_bb"])
        some_b = [bb for bb, s in ml.stmts() if s["k"] == "assign" and s["dst"]["l"] == 0 and s["rv"]["k"] == "agg" and s["rv"].get("variant") == "Some"]
        other_edge = None if d is None else (d["false_bb"] if d["op"] == "Eq" else d["true_bb"])
        ok = ok and d is not None and bool(none_b) and bool(some_b) and all(ml.dominates(equal_edge, b) for b in none_b) and all(ml.dominates(other_edge, b) for b in some_b)
    r5.check(ok, {"fn": ml.id, "test": "as_naive_local(self) == DATE_END -> None"}, "C12.R5:map_date_limit", "map_date_limit is not `if self.as_naive_local() == DATE_END { None } else { Some(self) }`", lib.where_of(ml))
    nx = prog.require_fn("opening_hours_py::types::iterator::RangeIterator::__next__")
    sh = flow.shape(nx, 0)
    ok = re.search(r"tuple\(RangeIterator::map_prefered_timezone\(p1, [^,]*\.range\.start\), DateTimeMaybeAware::map_date_limit\(RangeIterator::map_prefered_timezone\(p1, [^,]*\.range\.end\)\), [^,]*\.kind, ", sh) is not None
    r5.check(ok, {"fn": nx.id, "yields": "(tz(start), map_date_limit(tz(end)), kind, comments)"}, "C12.R5:next", "__next__ does not yield (start, map_date_limit(end), kind, comments): %s" % sh[:300], lib.where_of(nx))

    # R8 -------------------------------------------------------------------------------------
    r8 = res.rule("C12.R8", "an explicit country is never overridden: holiday inference from coordinates is only reachable when no country code was given")
    fcs = [(bb, t) for bb, t in new.calls() if flow.call_name(t).endswith("::from_coords") and "Context" in flow.call_name(t)]
    if not fcs:
        r8.anchor_missing("Context::from_coords call in PyOpeningHours::new")
    for bb, t in fcs:
        ok = False
        for sbb, b in new.live_blocks():
            sw = b["term"]
            if sw["k"] != "switch":
                continue
            pl = lib.operand_place(sw["op"])
            is_country = pl is not None and any(n["k"] == "assign" and n["rv"]["k"] == "discr" and (flow.root_params(new, {"k": "copy", "pl": n["rv"]["pl"]}) == {3} or n["rv"]["pl"]["l"] == 3) for _, n in new.defs_of(pl["l"]))
            if not is_country:
                continue
            tg = dict(sw["targets"])
            none_t = tg.get(0, sw["otherwise"]) if 1 in tg else sw["otherwise"]
            some_t = tg.get(1, sw["otherwise"])
            if new.dominates(none_t, bb) and not new.dominates(some_t, bb) and none_t != some_t:
                ok = True
        r8.check(ok, {"fn": new.id, "inference_only_when": "country is None"}, "C12.R8:explicit-country",
                 "holiday inference from coordinates is reachable although a country code was given", lib.where_of(new, t))

    # the country code handed to the core parser is the caller's string itself: the binding adds no leniency of its own
    # (an upper-cased or trimmed code would be accepted where the core raises UnknownCountryError)
    cps = [t for _, t in new.calls() if flow.call_name(t).endswith("<impl str>::parse") and "Country" in str(t["callee"].get("path_args", ""))]
    if not cps:
        r8.anchor_missing("the parse::<Country>() call in PyOpeningHours::new")
    for t in cps:
        shp = flow.shape(new, t["args"][0], depth=6)
        r8.check(re.fullmatch(r"\*?p3@Some\.0", shp) is not None, {"country_code_parsed": shp, "unmodified": True}, "C12.R8:code-unmodified",
                 "the country code is not handed to Country::from_str as the caller gave it (%s): the binding accepts codes the core rejects, or rejects codes the core accepts" % shp[:120], lib.where_of(new, t))

    # R9 -------------------------------------------------------------------------------------
    r9 = res.rule("C12.R9", "returned datetimes keep the zone of the context: or_with_timezone leaves an aware value unchanged and only localizes naive ones; or_with_timezone_of takes the zone of the input")
    ow = prog.require_fn(DTM + "::or_with_timezone")
    arms = [m for m in flow.enum_arms(prog, ow, DTM) if m["place"]["l"] == 1]
    if len(arms) != 1:
        r9.fail("C12.R9:match", "or_with_timezone does not match once on self", lib.where_of(ow))
    else:
        a = flow.shape_in(ow, 0, arms[0]["arms"]["Aware"]["blocks"])
        n = flow.shape_in(ow, 0, arms[0]["arms"]["Naive"]["blocks"])
        r9.check(a == ["p1"], {"variant": "Aware", "returns": a}, "C12.R9:aware", "or_with_timezone changes an aware datetime: %s" % a, lib.where_of(ow))
        r9.check(n == ["DateTimeMaybeAware::Aware{0: ::datetime(TzLocation::new(p2), p1@Naive.0)}"], {"variant": "Naive", "returns": n}, "C12.R9:naive", "or_with_timezone on a naive datetime returns %s" % n, lib.where_of(ow))
    of = prog.require_fn(DTM + "::or_with_timezone_of")
    sh = flow.shape(of, 0)
    r9.check(sh == "alt(DateTimeMaybeAware::or_with_timezone(p1, DateTime::timezone(p2@Aware.0)) | p1)", {"fn": of.id, "returns": sh}, "C12.R9:of", "or_with_timezone_of returns %s" % sh, lib.where_of(of))

    # R9 (continued): intervals() labels its results with the zone of an input - the start's, or else the end's
    ri = prog.require_fn("opening_hours_py::types::iterator::RangeIterator::new")
    sh = flow.shape(ri, 0, depth=7)
    m9 = re.search(r"prefer_timezone: (.*?), iter:", sh)
    pz = m9.group(1) if m9 else ""
    from_start = "DateTimeMaybeAware::timezone(p2)" in pz
    # the fallback reads the end (p3), directly or through the closures it hands p3 to
    closures = [prog.fns[x] for x in prog.with_closures(ri.id) if x != ri.id]
    from_end = "p3" in pz and ("DateTimeMaybeAware::timezone(p3" in pz or any("DateTimeMaybeAware::timezone(" in flow.shape(c, 0, depth=5) for c in closures))
    r9.check(from_start and from_end, {"fn": "RangeIterator::new", "prefer_timezone": pz[:160], "zone_of_start": from_start, "else_zone_of_end": from_end}, "C12.R9:intervals",
             "intervals() labels its results with %s: the zone of the %s input is never used, so with a zone-less expression and only that bound aware the datetimes come back naive" % (pz[:200] or "nothing", "end" if from_start else "start"), lib.where_of(ri))

    # R10 ------------------------------------------------------------------------------------
    r10 = res.rule("C12.R10", "__str__ is the core's Display of the expression and __repr__ wraps exactly that text")
    f = prog.require_fn(PYO + "__str__")
    sh = flow.shape(f, 0)
    r10.check(flow.displays_only(f, 0), {"fn": f.id, "returns": "Display text of self.inner"}, "C12.R10:str", "__str__ returns %s" % sh, lib.where_of(f))
    f = prog.require_fn(PYO + "__repr__")
    sh = flow.shape(f, 0)
    r10.check(re.search(r"array\(Argument::new_debug\(::to_string\(p1\.inner\)\)\)", sh) is not None, {"fn": f.id, "returns": sh}, "C12.R10:repr", "__repr__ returns %s" % sh, lib.where_of(f))

    # R11 ------------------------------------------------------------------------------------
    r11 = res.rule("C12.R11", "the constructor's choice of locale, as a decision table over (timezone given, coordinates given, auto_timezone): read off the branch conditions of every path to each place where a PyLocation is built, it is the table confirmed on the pinned tree - explicit zone -> that zone (with the coordinates only when auto_timezone is on), no zone + coordinates + auto_timezone -> inferred zone, otherwise naive")
    import pathterms
    new = prog.require_fn(PYO + "new")
    WANT = {("tz", "none", "auto"): "zone", ("tz", "none", "noauto"): "zone", ("tz", "coords", "noauto"): "zone", ("tz", "coords", "auto"): "zone+coords",
            ("notz", "coords", "auto"): "inferred", ("notz", "coords", "noauto"): "naive", ("notz", "none", "auto"): "naive", ("notz", "none", "noauto"): "naive"}
    table = {}
    n_paths = 0
    for bb, b in new.live_blocks():
        for s in b["stmts"]:
            if not (s["k"] == "assign" and s["rv"]["k"] == "agg" and str(s["rv"].get("adt", "")).endswith("PyLocation")):
                continue
            sh = " ".join(flow.shape(new, o, depth=5) for o in s["rv"]["ops"])
            if s["rv"]["variant"] == "Naive":
                kind = "naive"
            elif "from_coords" in sh:
                kind = "inferred"
            elif "with_coords" in sh and "TzLocation::new(p2@Some.0)" in sh:
                kind = "zone+coords"
            elif sh == "TzLocation::new(p2@Some.0)":
                kind = "zone"
            else:
                kind = "? " + sh[:80]
            for path in pathterms.acyclic_paths(new, bb):
                n_paths += 1
                conds = []
                for b2, op, taken, excl in pathterms.conditions(new, path):
                    t = flow.shape_on(new, op, path, depth=6)
                    if t == "discr(p2)":
                        conds.append(("tz", taken, excl, {1: "tz", 0: "notz"}))
                    elif re.fullmatch(r"discr\(Option::transpose\(Option::map\(p4, closure(?:\[\]|\(\"[^\"]*\"\))\)\)@Continue\.0\)", t):
                        conds.append(("coords", taken, excl, {1: "coords", 0: "none"}))
                    elif re.fullmatch(r"Option::unwrap_or\(p6, 1\)", t):
                        conds.append(("auto", taken, excl, {1: "auto", 0: "noauto"}))
                    elif "p2" in t or "p6" in t:
                        conds.append(("?", t, None, None))
                if any(c[0] == "?" for c in conds):
                    r11.fail("C12.R11:ANCHOR-cond", "ANCHOR: the locale choice branches on %s, which is not one of the three recognised tests" % [c[1] for c in conds if c[0] == "?"][0], lib.where_of(new, s))
                    continue
                for tz in ("tz", "notz"):
                    for co in ("coords", "none"):
                        for au in ("auto", "noauto"):
                            val = {"tz": tz, "coords": co, "auto": au}
                            ok = True
                            for var, taken, excl, names in conds:
                                num = [k for k, v in names.items() if v == val[var]][0]
                                if taken is not None and num not in taken:
                                    ok = False
                                if taken is None and num in (excl or []):
                                    ok = False
                            if ok:
                                table.setdefault((tz, co, au), set()).add(kind)
    for combo, want in sorted(WANT.items()):
        got = sorted(table.get(combo, []))
        r11.check(got == [want], {"timezone": combo[0] == "tz", "coords": combo[1] == "coords", "auto_timezone": combo[2] == "auto", "locale": got}, "C12.R11:%s" % "/".join(combo),
                  "OpeningHours(timezone %s, coords %s, auto_timezone=%s) builds the locale %s; the reference is `%s`: methods no longer return what the core returns for the equivalent context (sun events computed from other coordinates / another zone)" % (
                      "given" if combo[0] == "tz" else "missing", "given" if combo[1] == "coords" else "missing", combo[2] == "auto", got or "nothing", want), lib.where_of(new))
    r11.check(n_paths >= 8, {"paths_to_locale_construction": n_paths}, "C12.R11:FLOOR", "FLOOR: %d paths to the construction of a PyLocation (expected at least 8)" % n_paths)
