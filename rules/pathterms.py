"""Path-sensitive term extraction: the acyclic paths of a body that lead to a block, the branch
conditions taken along each, and the expression shapes of values as computed along that one
path (no merged alternatives). Used by rules that evaluate a small extracted computation over a
complete finite domain; nothing of /repo runs."""

import flow
import lib


def acyclic_paths(fn, target, start=0, limit=5000):
    """All cycle-free paths start -> target through non-cleanup blocks."""
    # blocks from which target is reachable
    preds = {}
    for i, b in fn.live_blocks():
        for s in fn.succs(i):
            preds.setdefault(s, set()).add(i)
    can = {target}
    work = [target]
    while work:
        x = work.pop()
        for p in preds.get(x, ()):
            if p not in can:
                can.add(p)
                work.append(p)
    out = []

    def dfs(b, path, on):
        if len(out) > limit:
            raise lib.CheckerError("more than %d paths to bb%d in %s" % (limit, target, fn.id))
        if b == target:
            out.append(path + [b])
            return
        for s in dict.fromkeys(fn.succs(b)):
            if s in can and s not in on and not fn.blocks[s]["cleanup"]:
                dfs(s, path + [b], on | {s})

    if start in can:
        dfs(start, [], {start})
    return out


def conditions(fn, path):
    """[(switch operand, taken values, excluded values)] along the path: for an explicit edge
    `taken` is [v]; for the otherwise edge `excluded` lists the explicit values not taken."""
    res = []
    for b, nxt in zip(path, path[1:]):
        t = fn.blocks[b]["term"]
        if t["k"] != "switch":
            continue
        vals = [v for v, tgt in t["targets"] if tgt == nxt]
        if vals and t["otherwise"] != nxt:
            res.append((b, t["op"], vals, None))
        elif vals:
            res.append((b, t["op"], None, [v for v, tgt in t["targets"] if tgt != nxt]))
        else:
            res.append((b, t["op"], None, [v for v, tgt in t["targets"]]))
    return res


def paths_with_loops(fn, target, start=0, max_visits=3, limit=20000):
    """Paths start -> target through non-cleanup blocks in which every block is entered at most
    `max_visits` times (loops unrolled up to that bound); the target is only the last element."""
    preds = {}
    for i, b in fn.live_blocks():
        for s in fn.succs(i):
            preds.setdefault(s, set()).add(i)
    can = {target}
    work = [target]
    while work:
        x = work.pop()
        for p in preds.get(x, ()):
            if p not in can:
                can.add(p)
                work.append(p)
    out = []

    def dfs(b, path, visits):
        if len(out) > limit:
            raise lib.CheckerBroken("more than %d unrolled paths to bb%d in %s" % (limit, target, fn.id))
        if b == target:
            out.append(path + [b])
            return
        for s in dict.fromkeys(fn.succs(b)):
            if s in can and not fn.blocks[s]["cleanup"] and visits.get(s, 0) < max_visits:
                v2 = dict(visits)
                v2[s] = v2.get(s, 0) + 1
                dfs(s, path + [b], v2)

    if start in can:
        dfs(start, [], {start: 1})
    return out


def conditions_at(fn, path):
    """conditions() for a path with repeated blocks: [(path index, block, switch operand, taken, excluded)]."""
    res = []
    for i in range(len(path) - 1):
        b, nxt = path[i], path[i + 1]
        t = fn.blocks[b]["term"]
        if t["k"] != "switch":
            continue
        vals = [v for v, tgt in t["targets"] if tgt == nxt]
        if vals and t["otherwise"] != nxt:
            res.append((i, b, t["op"], vals, None))
        elif vals:
            res.append((i, b, t["op"], None, [v for v, tgt in t["targets"] if tgt != nxt]))
        else:
            res.append((i, b, t["op"], None, [v for v, tgt in t["targets"]]))
    return res


def has_cycle(fn):
    """Does the body (non-cleanup blocks) contain a loop?"""
    color = {}

    def visit(b):
        color[b] = 1
        for s in fn.succs(b):
            if fn.blocks[s]["cleanup"]:
                continue
            if color.get(s) == 1:
                return True
            if s not in color and visit(s):
                return True
        color[b] = 2
        return False
    import sys
    sys.setrecursionlimit(max(sys.getrecursionlimit(), 10000))
    return visit(0)
