"""C10 - embedded holiday calendars equal the source data, per country.

Decided: the country enum, ALL, iso_code, FromStr and both data files name the same regions
bijectively (R1); the embedded artefacts - the constants the compiler baked into the lazy
database initialisers for the current tree - decode, with the wire format read off the code
(C15.R1) and the bit layout read off CompactMonth/CompactYear/CompactCalendar::insert, to
exactly the dates of the data files, region by region (R2, exhaustive); the reader keys each
decoded calendar by parsing the region code at the same position, decoder and encoder are the
same codec family, public/school are not crossed anywhere (R3).
Not decided: the inflate implementation (flate2) and that CompactCalendar::contains agrees
with the bit layout for every date (C15 structural rules + not decided arithmetic).
"""

import datetime
import os
import re
import struct
import zlib

import c15
import flow
import lib

COUNTRY = "opening_hours::localization::country::generated::Country"
HOL = "opening_hours::localization::country::<impl %s>::holidays" % COUNTRY


def read_data_file(path):
    regions = {}
    bad = []
    with open(path) as fh:
        for i, line in enumerate(fh, 1):
            line = line.rstrip("\n")
            m = re.fullmatch(r"([A-Z]{2}) (\d{4})-(\d{2})-(\d{2})", line)
            if not m:
                bad.append((i, line))
                continue
            try:
                d = datetime.date(int(m.group(2)), int(m.group(3)), int(m.group(4)))
            except ValueError:
                bad.append((i, line))
                continue
            regions.setdefault(m.group(1), set()).add(d)
    return regions, bad


def decode_stream(data, n_regions):
    """Decode n calendars: [i32 first_year][usize len][len x 12 x u32], native (little) endian."""
    cals = []
    off = 0
    for _ in range(n_regions):
        first_year, = struct.unpack_from("<i", data, off)
        off += 4
        length, = struct.unpack_from("<Q", data, off)
        off += 8
        dates = set()
        for y in range(length):
            for m in range(12):
                bits, = struct.unpack_from("<I", data, off)
                off += 4
                for day0 in range(32):
                    if bits & (1 << day0):
                        dates.add((first_year + y, m + 1, day0 + 1))
        cals.append(dates)
    return cals, off


def run(ctx, prog, res):
    adt = prog.adt(COUNTRY)
    variants = [v["name"] for v in adt["variants"]]

    # R1 -------------------------------------------------------------------------------------
    r1 = res.rule("C10.R1", "the set of countries, their ISO codes and the code parser are one bijection: enum variants = ALL (same order) = iso_code table = FromStr table (+ one rejecting default) = regions of the public data file; school regions are a subset; every data line is a valid `CC YYYY-MM-DD`")
    allc = prog.require_fn(COUNTRY + "::ALL")
    sh = flow.shape(allc, 0, depth=3)
    listed = re.findall(r"Country::(\w+)\{\}", sh)
    r1.check(listed == variants and len(variants) >= 100, {"variants": len(variants), "ALL": len(listed), "same_order": listed == variants}, "C10.R1:ALL", "Country::ALL (%d) differs from the enum's variants (%d)" % (len(listed), len(variants)), lib.where_of(allc))
    iso = prog.require_fn(COUNTRY + "::iso_code")
    arms = flow.enum_arms(prog, iso, COUNTRY)
    bad = []
    if len(arms) != 1:
        r1.fail("C10.R1:iso_code:match", "iso_code does not match once on self", lib.where_of(iso))
    else:
        for v in variants:
            a = arms[0]["arms"][v]
            got = flow.shape_in(iso, 0, a["blocks"])
            if got != ["'%s'" % v] or not a["explicit"]:
                bad.append((v, got))
        r1.check(not bad, {"iso_code_rows": len(variants), "each_variant_maps_to_its_name": True}, "C10.R1:iso_code", "iso_code maps %s" % bad[:4], lib.where_of(iso))
    fs = prog.impl_method_one("core::str::traits::FromStr", "from_str", self_adt=COUNTRY)
    rows, default = flow.str_match_table(fs)
    badrows = [(lit, got) for lit, got in rows if got != ["Result::Ok{0: Country::%s{}}" % lit]]
    lits = [lit for lit, _ in rows]
    r1.check(not badrows and sorted(lits) == sorted(variants) and len(set(lits)) == len(lits), {"from_str_rows": len(rows), "each_code_parses_to_its_variant": True}, "C10.R1:from_str",
             "FromStr table: wrong rows %s, missing %s, extra %s" % (badrows[:4], sorted(set(variants) - set(lits))[:4], sorted(set(lits) - set(variants))[:4]), lib.where_of(fs))
    r1.check(len(default) == 1 and default[0].startswith("Result::Err{"), {"anything_else": default}, "C10.R1:from_str-default", "unknown codes are not rejected: %s" % default, lib.where_of(fs))
    # ... and what is compared with the codes is the caller's string itself (a trimmed, split, re-cased or otherwise
    # rewritten string accepts identifiers that are not ISO codes)
    cmp_left = set()
    for _, t_ in fs.calls():
        if flow.call_name(t_).endswith("<impl core::cmp::PartialEq for str>::eq"):
            for a_ in t_["args"]:
                if not (a_.get("k") == "const" and a_.get("str") is not None):
                    cmp_left.add(flow.shape(fs, a_, depth=4))
    r1.check(cmp_left == {"p1"}, {"from_str_compares": sorted(cmp_left), "with": "the literal codes"}, "C10.R1:from_str-argument",
             "Country::from_str does not compare the codes with its unmodified argument but with %s: strings that are not ISO 3166-1 alpha-2 codes (a subdivision id, another case, padding) are accepted" % sorted(cmp_left)[:3], lib.where_of(fs))
    pub, bad_pub = read_data_file(os.path.join(lib.REPO, "opening-hours/data/holidays_public.txt"))
    sch, bad_sch = read_data_file(os.path.join(lib.REPO, "opening-hours/data/holidays_school.txt"))
    r1.check(not bad_pub and not bad_sch, {"public_lines": sum(len(v) for v in pub.values()), "school_lines": sum(len(v) for v in sch.values()), "malformed": 0}, "C10.R1:data-lines",
             "malformed data lines: %s" % (bad_pub + bad_sch)[:3])
    r1.check(sorted(pub) == sorted(variants), {"public_regions": len(pub)}, "C10.R1:public-regions", "public data regions differ from the enum: missing %s extra %s" % (sorted(set(variants) - set(pub))[:4], sorted(set(pub) - set(variants))[:4]))
    r1.check(set(sch) <= set(variants) and len(sch) >= 1, {"school_regions": sorted(sch)}, "C10.R1:school-regions", "school data regions not in the enum: %s" % sorted(set(sch) - set(variants)))
    nm = prog.require_fn(COUNTRY + "::name")
    arms = flow.enum_arms(prog, nm, COUNTRY)
    names = [tuple(flow.shape_in(nm, 0, arms[0]["arms"][v]["blocks"])) for v in variants] if len(arms) == 1 else []
    r1.check(len(set(names)) == len(variants), {"names_distinct": len(set(names))}, "C10.R1:name", "Country::name is not injective", lib.where_of(nm))

    # R2 -------------------------------------------------------------------------------------
    r2 = res.rule("C10.R2", "for each country and every date the embedded calendar contains the date iff the source data file lists it: the artefacts embedded in the compiled library decode (format from C15.R1, bit layout from the insert methods) to exactly the data files, region by region, with nothing left over")
    # bit layout read off the code
    mi = prog.require_fn("compact_calendar::CompactMonth::insert")
    st = [(a, b) for a, b, _ in flow.stores(mi)]
    r2.check(st == [("p1.0", "BitOr(p1.0, Shl(1, Sub(p2, 1).0))")], {"day_bit": "bit (day - 1) of the month word"}, "C10.R2:layout:day", "CompactMonth::insert does not set bit (day - 1): %s" % st, lib.where_of(mi))
    yi = prog.require_fn("compact_calendar::CompactYear::insert")
    idx_ok = False
    for bb, s in yi.stmts():
        if s["k"] == "assign" and s["rv"]["k"] == "ref":
            for p in s["rv"]["pl"]["p"]:
                if isinstance(p, dict) and "ix" in p:
                    idx_ok = flow.shape(yi, p["ix"]) == "(Sub(p2, 1).0 as usize)"
    r2.check(idx_ok and flow.shape(yi, 0) == "CompactMonth::insert(p1.0[i], p3)", {"month_slot": "index (month - 1)"}, "C10.R2:layout:month", "CompactYear::insert does not use slot (month - 1) with the day", lib.where_of(yi))
    yf = prog.require_fn("compact_calendar::CompactCalendar::year_for_mut")
    r2.check("VecDeque::get_mut(p1.calendar, Result::ok(ptr_try_from_impls::try_from(Sub(::year(p2), p1.first_year).0))@Continue.0)" in flow.shape(yf, 0), {"year_slot": "index (year - first_year)"}, "C10.R2:layout:year",
             "CompactCalendar::year_for_mut does not use slot (year - first_year): %s" % flow.shape(yf, 0), lib.where_of(yf))
    ci = prog.require_fn("compact_calendar::CompactCalendar::insert")
    r2.check(flow.shape(ci, 0).endswith("::month(p2), ::day(p2))") and flow.shape(ci, 0).startswith("CompactYear::insert("), {"insert": "year slot .insert(date.month(), date.day())"}, "C10.R2:layout:insert", "CompactCalendar::insert is not year.insert(date.month(), date.day())", lib.where_of(ci))
    # wire format read off the code
    want_fmt = {
        "compact_calendar::CompactCalendar": [("prim", "i32", "ne", False), ("prim", "usize", "ne", False), ("nested", "CompactYear", True)],
        "compact_calendar::CompactYear": [("nested", "CompactMonth", True)],
        "compact_calendar::CompactMonth": [("prim", "u32", "ne", False)],
    }
    fmt_ok = True
    for ty, want in want_fmt.items():
        got = [a[1] for a in c15.wire_atoms(prog, prog.require_fn(ty + "::serialize"), "w")]
        fmt_ok &= got == want
    r2.check(fmt_ok, {"wire_format": "i32 first_year, usize len, len x 12 x u32 (native endian)"}, "C10.R2:format", "the serialization format changed: the artefact decoder of this rule no longer matches (update c10.decode_stream)")
    # embedded constants
    for nm_, data in (("DB_PUBLIC", pub), ("DB_SCHOOL", sch)):
        cl = prog.fns.get("%s::%s::{closure#0}" % (HOL, nm_))
        if cl is None:
            r2.anchor_missing("lazy initialiser of " + nm_)
            continue
        calls = [t for _, t in cl.calls() if flow.call_name(t) == HOL + "::decode_holidays_db"]
        if len(calls) != 1:
            r2.fail("C10.R2:%s:init" % nm_, "%s is not initialised by one decode_holidays_db call" % nm_, lib.where_of(cl))
            continue
        regions = None
        blob = None
        for o in flow.operand_origins(cl, calls[0]["args"][0]):
            if o.kind == "const" and o.node.get("str") is not None:
                regions = o.node["str"]
        for o in flow.operand_origins(cl, calls[0]["args"][1]):
            if o.kind == "const" and o.node.get("bytes") is not None:
                blob = bytes(o.node["bytes"])
        if regions is None or blob is None:
            r2.fail("C10.R2:%s:consts" % nm_, "cannot read the embedded region list / data of %s from the compiled initialiser" % nm_, lib.where_of(cl))
            continue
        rl = regions.split(",")
        r2.check(rl == sorted(data), {"db": nm_, "embedded_regions": len(rl), "equal_sorted_regions_of_data_file": True}, "C10.R2:%s:regions" % nm_,
                 "%s: embedded region list %s... differs from the data file's regions %s..." % (nm_, rl[:5], sorted(data)[:5]), lib.where_of(cl))
        try:
            raw = zlib.decompress(blob, -15)
        except zlib.error as e:
            r2.fail("C10.R2:%s:inflate" % nm_, "%s: embedded data is not a raw deflate stream (%s)" % (nm_, e), lib.where_of(cl))
            continue
        try:
            cals, used = decode_stream(raw, len(rl))
        except struct.error as e:
            r2.fail("C10.R2:%s:decode" % nm_, "%s: embedded stream is too short for %d calendars (%s)" % (nm_, len(rl), e), lib.where_of(cl))
            continue
        r2.check(used == len(raw), {"db": nm_, "stream_bytes": len(raw), "consumed": used}, "C10.R2:%s:length" % nm_, "%s: %d bytes left after decoding %d calendars" % (nm_, len(raw) - used, len(rl)), lib.where_of(cl))
        n_dates = 0
        mism = []
        for region, got in zip(rl, cals):
            want = {(d.year, d.month, d.day) for d in data.get(region, set())}
            n_dates += len(want)
            if got != want:
                mism.append((region, sorted(got - want)[:2], sorted(want - got)[:2]))
        r2.check(not mism, {"db": nm_, "regions_compared": len(rl), "dates_compared": n_dates, "equal": True}, "C10.R2:%s:content" % nm_,
                 "%s: embedded calendars differ from the data file: %s" % (nm_, mism[:3]), lib.where_of(cl))
    r2.floor(9)

    # R3 -------------------------------------------------------------------------------------
    r3 = res.rule("C10.R3", "lookup pairing: each decoded calendar is keyed by parsing the region code at the same position of the embedded list; decoder and encoder are the same codec; holidays() returns (public db, school db) in this order and ContextHolidays::new stores them in the fields of the same names; the build script derives file names and variable names from one table")
    dec = prog.require_fn(HOL + "::decode_holidays_db")
    sh = flow.shape(dec, 0)
    r3.check(re.fullmatch(r"Iterator::collect\(Iterator::filter_map\(str::split\(p1, 44\), closure\[DeflateDecoder::new\(p2\)\]\)\)", sh) is not None, {"decode": sh}, "C10.R3:decode", "decode_holidays_db is not split(',').filter_map(..).collect() over the region list with one decoder: %s" % sh, lib.where_of(dec))
    cls = [flow.shape(prog.fns[c], 0) for c in prog.closures(dec.id)]
    ok = any(re.fullmatch(r"alt\(Option::None\{\} \| Option::Some\{0: tuple\(str::parse\(p2\)@Ok\.0, Arc::new\(Result::expect\(CompactCalendar::deserialize\(p1\.0\), '[^']*'\)\)\)\}\)", c) for c in cls)
    r3.check(ok, {"entry": "(region.parse(), Arc::new(CompactCalendar::deserialize(&mut reader)))"}, "C10.R3:entry", "a decoded calendar is not keyed by parsing its own region code: %s" % cls, lib.where_of(dec))
    # deserialize happens for every region, before the code is parsed (unknown codes still consume their calendar)
    for c in prog.closures(dec.id):
        cf = prog.fns[c]
        des = [bb for bb, t in cf.calls() if flow.call_name(t) == "compact_calendar::CompactCalendar::deserialize"]
        if des:
            r3.check(all(cf.dominates(b, r) for b in des for r in flow.return_blocks(cf)), {"deserialize": "on every path (unknown codes still consume their calendar)"}, "C10.R3:consume", "a region can be skipped without consuming its calendar from the stream", lib.where_of(cf))
    hol = prog.require_fn(HOL)
    sh = flow.shape(hol, 0)
    ok = re.fullmatch(r"ContextHolidays::new\(Option::unwrap_or_default\(Option::cloned\(HashMap::get\(static:DB_PUBLIC, p1\)\)\), Option::unwrap_or_default\(Option::cloned\(HashMap::get\(static:DB_SCHOOL, p1\)\)\)\)", sh) is not None
    r3.check(ok, {"holidays": sh}, "C10.R3:holidays", "Country::holidays is not ContextHolidays::new(DB_PUBLIC[self], DB_SCHOOL[self]): %s" % sh, lib.where_of(hol))
    chn = prog.require_fn("opening_hours::context::ContextHolidays::new")
    r3.check(flow.shape(chn, 0) == "ContextHolidays{public: p1, school: p2}", {"ContextHolidays::new": flow.shape(chn, 0)}, "C10.R3:new", "ContextHolidays::new stores %s" % flow.shape(chn, 0), lib.where_of(chn))
    for g, fld in (("get_public", "public"), ("get_school", "school")):
        f = prog.require_fn("opening_hours::context::ContextHolidays::" + g)
        r3.check(flow.shape(f, 0) == "p1." + fld, {g: flow.shape(f, 0)}, "C10.R3:%s" % g, "%s returns %s" % (g, flow.shape(f, 0)), lib.where_of(f))
    bs = prog.fns.get("build_script_build::generate_holiday_database")
    if bs is None:
        r3.anchor_missing("build script generate_holiday_database")
    else:
        table = prog.fns.get("build_script_build::generate_holiday_database::PATH_ENV_IN_OUT")
        tsh = flow.shape(table, 0, depth=4) if table else ""
        rows = re.findall(r"array\('([A-Z]+)', '([^']+)', '([^']+)'\)", tsh)
        ok = len(rows) == 2 and all(env.lower() in i and env.lower() in o for env, i, o in rows) and {r[0] for r in rows} == {"PUBLIC", "SCHOOL"}
        r3.check(ok, {"build_table": rows}, "C10.R3:build-table", "the build script's (ENV, input, output) rows are inconsistent: %s" % rows, lib.where_of(bs))
        names = [flow.call_name(t) for x in prog.with_closures(bs.id) for _, t in prog.fns[x].calls()]
        enc = [n for n in names if "flate2" in n and "Encoder" in n and n.endswith("::new")]
        r3.check(enc == ["flate2::deflate::write::DeflateEncoder::<W>::new"] and any(n == "compact_calendar::CompactCalendar::serialize" for n in names), {"encoder": enc, "decoder": "flate2::deflate::bufread::DeflateDecoder", "codec": "raw deflate both sides"}, "C10.R3:codec",
                 "writer codec %s does not match the reader's DeflateDecoder" % enc, lib.where_of(bs))
        # one BTreeMap provides both the iteration order of serialisation and the exported region list
        r3.check("alloc::slice::<impl [T]>::join" in names and any("BTreeMap" in n and n.endswith("into_iter") for n in names), {"region_order": "BTreeMap iteration order, exported with join(',')"}, "C10.R3:order",
                 "the exported region order is not the iteration order of the map the calendars are written from", lib.where_of(bs))
    r3.floor(9)

    # R4 -------------------------------------------------------------------------------------
    r4 = res.rule("C10.R4", "the lazy decoder reads exactly what the build script's encoder wrote (shared with C15.R1/R2): framing, buffer sizes and unmodified values of the three serialisable types; shifts guarded")
    sub = lib.Result("C10")
    c15.run(_NoWitnessCtx(ctx), prog, sub)
    for v in sub.violations:
        if v["rule"] in ("C15.R1", "C15.R2"):
            r4.fail(v["key"].replace("C15.", "C10.R4:"), v["message"], v["where"])
    for rid in ("C15.R1", "C15.R2"):
        rr = sub.rules.get(rid)
        if rr:
            for inst in rr["instances"][:40]:
                r4.ok(inst)
    r4.floor(12)


class _NoWitnessCtx:
    """Run C15's MIR rules without re-running its compile-time witnesses."""

    def __init__(self, ctx):
        self.tier = ctx.tier
        self.seed = ctx.seed
        self.skip_witness = True
