"""C13 - normalization is idempotent and deterministic.

Decided: the determinism sentence - nothing reachable from normalize reads time, randomness,
environment, addresses, reference counts, hash-iteration order or mutable globals (R1, R2), and
'equal expressions' is structural equality (R3). The structural conditions of C07 that a
second pass relies on (R5 every emitted rule marks its days, R6 is_val is a sound universal
check) are re-checked here because breaking them breaks idempotence (R4).
Not decided: normalize(normalize(e)) == normalize(e) as a whole (values of the paving).
"""

import re

import common
import flow
import lib

NORMALIZE = [
    "opening_hours_syntax::rules::OpeningHoursExpression::normalize",
    "opening_hours::opening_hours::OpeningHours::<L>::normalize",
]

# element-dropping, early-stopping or reordering operations on a stream or container
THINNING = re.compile(r"^(skip|skip_while|take|take_while|filter|filter_map|map_while|step_by|rev|nth|nth_back|last|next_back|advance_by|dedup\w*|retain\w*|truncate|drain|remove|swap_remove|pop|pop_front|pop_back|split_off|clear|sort\w*|reverse|rotate_\w+|swap|fuse|scan|flat_map|flatten|min\w*|max\w*|find\w*|position|rposition)$")

HASH_ITER = re.compile(r"std::collections::hash::(map::HashMap|set::HashSet)::<.*>::(iter|iter_mut|keys|values|values_mut|into_keys|into_values|drain|retain|extract_if)$|"
                       r"<(&'a )?(mut )?std::collections::hash::(map::HashMap|set::HashSet)<.*> as core::iter::traits::collect::IntoIterator>::into_iter$")


def run(ctx, prog, res):
    # R1 -------------------------------------------------------------------------------------
    r1 = res.rule("C13.R1", "no ambient input: nothing reachable from normalize is in the effect classes TIME/RANDOM/ENV/FS/NET/IO/THREAD/ADDRESS/REFCOUNT/INTERIOR, and no static is read except the one-shot log guard")
    roots = common.require_all(prog, NORMALIZE, r1)
    reach, parent = prog.reachable(roots)
    reach = {f for f in reach if prog.fns[f].crate in lib.WS_LIBS}
    n_calls = 0
    for fid in sorted(reach):
        fn = prog.fns[fid]
        for bb, t in fn.calls():
            n_calls += 1
            for p in common.callee_paths(t):
                eff = common.classify_effect(p)
                if eff:
                    r1.fail("C13.R1:%s:%s:%s" % (eff, fn.module, p), "%s effect: %s is reachable from normalize (%s)" % (eff, p, " <- ".join(reversed(prog.path_to(parent, fid)[-3:]))), lib.where_of(fn, t))
                    break
        for sid, node in common.static_refs(fn):
            if sid != "opening_hours_syntax::parser::WARN_EASTER":
                r1.fail("C13.R1:static:%s" % sid, "normalize reaches static %s" % sid, lib.where_of(fn, node))
        for _, s in fn.stmts():
            if s["k"] == "assign" and s["rv"]["k"] == "cast" and ("Expose" in s["rv"]["ck"] or "Transmute" in s["rv"]["ck"]) and not [e for e in s["sp"]["exp"] if not e.startswith("desugar:")]:
                r1.fail("C13.R1:ADDRESS:cast:%s" % fn.module, "pointer/int cast %s in %s" % (s["rv"]["ck"], fid), lib.where_of(fn, s))
    r1.ok({"entry_points": len(roots), "reachable_library_functions": len(reach), "call_sites_classified": n_calls})
    if len(reach) < 40:
        r1.fail("C13.R1:FLOOR-reach", "FLOOR: only %d functions reachable from normalize (expected >= 40)" % len(reach))

    # R2 -------------------------------------------------------------------------------------
    r2 = res.rule("C13.R2", "no hash-order dependence: no library function iterates a HashMap/HashSet (they are only looked up)")
    n = 0
    for f in prog.fns.values():
        if f.crate not in lib.WS_LIBS:
            continue
        for bb, t in f.calls():
            for p in common.callee_paths(t):
                if "std::collections::hash::" in p:
                    n += 1
                    r2.check(not HASH_ITER.search(p), {"fn": f.id, "hash_op": p.split("::")[-1]}, "C13.R2:%s:%s" % (f.module, p), "%s iterates a hash container (%s): iteration order is not deterministic" % (f.id, p), lib.where_of(f, t))
                    break
    r2.floor(2)

    # R3 -------------------------------------------------------------------------------------
    r3 = res.rule("C13.R3", "equality of expressions is structural: PartialEq/Eq/Hash of every type reachable from OpeningHoursExpression are derived")
    root = "opening_hours_syntax::rules::OpeningHoursExpression"
    seen = set()
    work = [root]
    while work:
        a = work.pop()
        if a in seen or a not in prog.adts or prog.adts[a].get("foreign"):
            continue
        seen.add(a)
        for v in prog.adts[a]["variants"]:
            for fld in v["fields"]:
                for other in prog.adts:
                    if other in fld["ty"] and other not in seen and not prog.adts[other].get("foreign"):
                        work.append(other)
    for a in sorted(seen):
        for tr in ("core::cmp::PartialEq", "core::cmp::Eq", "core::hash::Hash"):
            ims = [im for im in prog.impls if im.get("self_adt") == a and im.get("trait") == tr]
            if a.endswith("ExtendedTime") or True:
                pass
            r3.check(len(ims) == 1 and ims[0]["derived"], {"type": a.split("::")[-1], "trait": tr.split("::")[-1], "derived": True}, "C13.R3:%s:%s" % (a, tr.split("::")[-1]),
                     "%s for %s is %s" % (tr, a, "hand-written" if ims else "missing"))
    r3.floor(45)

    # R4 -------------------------------------------------------------------------------------
    r4 = res.rule("C13.R4", "structural conditions a second normalization pass relies on (shared with C07): every emitted rule marks its days as covered; is_val is a sound universal check; succ/pred of every frame are inverse over the whole domain (reading and emitting an inclusive range agree)")
    import c07
    sub = lib.Result("C13")
    c07.run(ctx, prog, sub)  # MIR rules only (C07 has no witnesses)
    for v in sub.violations:
        if v["rule"] in ("C07.R5", "C07.R6", "C07.R8", "C07.R9"):
            r4.fail(v["key"].replace("C07.", "C13.R4:"), v["message"], v["where"])
    for rid in ("C07.R5", "C07.R6", "C07.R8", "C07.R9"):
        rr = sub.rules.get(rid)
        if rr:
            for inst in rr["instances"]:
                r4.ok(inst)
    r4.floor(2)

    # R5 -------------------------------------------------------------------------------------
    r5 = res.rule("C13.R5", "the rule stream is never thinned or reordered: in the functions reachable from normalize no iterator adapter or container operation that can drop, stop at, or reorder elements is applied to a stream/container of RuleSequence, and each rule taken from the queue is handed to the paving")
    n_stream = 0
    stream_fns = sorted(f for f in prog.fns if f.startswith("opening_hours_syntax::normalize::") or any(f == r or f.startswith(r + "::{closure") for r in NORMALIZE))
    for fid in stream_fns:
        fn = prog.fns[fid]
        for bb, t in fn.calls():
            cal = t.get("callee") or {}
            st = " ".join([cal.get("self_ty") or ""] + (cal.get("inputs") or []) + [cal.get("output") or ""])
            if "RuleSequence" not in st:
                continue
            if not re.search(r"(Iterator|IntoIterator|Vec<|VecDeque<|\[opening_hours_syntax::rules::RuleSequence\]|adapters::|IntoIter<)", (cal.get("trait") or "") + " " + st):
                continue
            name = cal.get("name") or ""
            n_stream += 1
            r5.check(not THINNING.match(name), {"fn": fid.split("::")[-1], "op": name}, "C13.R5:thin:%s:%s" % (fn.module, name),
                     "%s applies `%s` to a stream of rules: a rule can be dropped or moved after the paving pass decided what is kept, so a second pass sees a different expression" % (fid, name), lib.where_of(fn, t))
    # each `next()` on the queue feeds Paving::set
    nfn = prog.fns.get(NORMALIZE[0])
    if nfn:
        sets = [t for bb, t in nfn.calls() if (flow.call_name(t) or "").endswith("Paving>::set")]
        taken = [t for bb, t in nfn.calls() if (t.get("callee") or {}).get("name") == "next" and "RuleSequence" in ((t.get("callee") or {}).get("self_ty") or "")]
        for t in taken:
            fed = any(re.search(r"::next\(.*p1\.rules", flow.shape(nfn, a, depth=8)) for s in sets for a in s["args"])
            r5.check(fed, {"taken_rule_is_paved": True}, "C13.R5:taken-not-paved", "a rule is taken from the queue in normalize and never reaches Paving::set: it disappears from the output", lib.where_of(nfn, t))
        r5.check(len(taken) >= 1 and len(sets) >= 1, {"queue_next_calls": len(taken), "paving_set_calls": len(sets)}, "C13.R5:ANCHOR", "ANCHOR: normalize no longer takes rules from a queue into Paving::set")
    # (c) a rule that passes through is emitted as it is: no field of a RuleSequence is assigned and no
    #     mutable access to an element of a container of rules is taken
    MUT = re.compile(r"^(first_mut|last_mut|iter_mut|get_mut|index_mut|as_mut_slice|as_mut|split_first_mut|split_last_mut|peek_mut|next_if|for_each|swap|make_mut|get_many_mut)$")
    n_store = 0
    for fid in stream_fns:
        fn = prog.fns[fid]
        for bb, b in fn.live_blocks():
            for st in b["stmts"]:
                if st["k"] != "assign":
                    continue
                fields = [q for q in st["dst"]["p"] if isinstance(q, dict) and "f" in q and str(q.get("adt", "")).endswith("rules::RuleSequence")]
                n_store += 1
                r5.check(not fields, {"fn": fid.split("::")[-1], "stores_into_rule_fields": 0} if not fields else {}, "C13.R5:store:%s:%s" % (fn.module, fields[0]["n"] if fields else ""),
                         "%s assigns the field `%s` of a rule: a rule that normalization could not express is no longer passed through unchanged, and a second pass reads a different expression" % (fid, fields[0]["n"] if fields else ""), lib.where_of(fn, st)) if fields else None
        for bb, t in fn.calls():
            cal = t.get("callee") or {}
            st = " ".join([cal.get("self_ty") or ""] + (cal.get("inputs") or []) + [cal.get("output") or ""])
            if "RuleSequence" in st and MUT.match(cal.get("name") or "") and "&mut" in (cal.get("output") or "") + " ".join(cal.get("inputs") or []):
                if (cal.get("name") or "") == "next_if" or "Peekable" in st:
                    continue
                r5.fail("C13.R5:mut:%s:%s" % (fn.module, cal.get("name")), "%s takes mutable access to a rule of the stream (`%s`): rules are built by canonical_to_seq or passed through unchanged" % (fid, cal.get("name")), lib.where_of(fn, t))
    r5.ok({"assignments_scanned": n_store, "stores_into_rule_fields": 0})
    # (d) where the paving loop stops depends only on the rule at hand (the queue is empty, the rule is a fallback, the
    #     rule cannot be expressed as plain ranges): a stop that depends on anything else - a count, a size - moves between
    #     two passes, and the second pass merges what the first left
    if nfn:
        ALLOWED_EXIT = re.compile(r"^(discr\((Peekable::peek|Peekable::next_if|Peekable::next_if_eq|Iterator::next|::next)\(.*\)\)|(PartialEq::eq|PartialEq::ne|::eq|::ne)\(.*\.operator, .*Fallback.*\)|discr\(normalize::ruleseq_to_selector\(.*\)\))$")
        # loop blocks: blocks on a cycle through the peek call
        peeks = [bb for bb, t in nfn.calls() if (t.get("callee") or {}).get("name") == "peek"]
        loop = set()
        if peeks:
            hdr = peeks[0]
            fwd = flow.reachable_blocks(nfn, hdr)
            loop = {b for b in fwd if hdr in flow.reachable_blocks(nfn, b)}
        n_exit = 0
        for b in sorted(loop):
            tt = nfn.blocks[b]["term"]
            if tt["k"] != "switch":
                continue
            outs = [x for x in nfn.succs(b) if x not in loop and not nfn.blocks[x]["cleanup"]]
            # an exit edge: leaves the loop, or leads to blocks from which the loop header is not reachable any more
            if not outs:
                continue
            n_exit += 1
            shx = flow.shape(nfn, tt["op"], depth=5)
            r5.check(ALLOWED_EXIT.match(shx) is not None, {"paving_loop_stops_on": shx[:100]}, "C13.R5:exit:%s" % re.sub(r"[^A-Za-z_:]+", "_", shx)[:60],
                     "the paving loop of normalize stops on `%s`, which is not a property of the rule at hand (queue empty / fallback rule / rule not expressible as ranges): the stopping point moves between two passes and normalize(normalize(e)) merges more than normalize(e)" % shx[:160], lib.where_of(nfn, tt))
        r5.check(n_exit >= 3, {"loop_exits": n_exit}, "C13.R5:exit:ANCHOR", "ANCHOR: the paving loop of normalize has %d exits (expected the three stops)" % n_exit, lib.where_of(nfn))
    r5.ok({"stream_operations_classified": n_stream})
    r5.floor(4)
