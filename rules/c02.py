"""C02 - interval stream equals pointwise evaluation (no change is skipped).

Decided: day-skip hints combine as lower bounds over all rules and selectors (R1); the
'constant expression' shortcut depends on every state-relevant rule attribute (R2: fires today,
known finding D8) and treats only the hole state as vacuously constant (R4); the hint's
calendar lookups are made on the same shifted date as the filter's (R5); the iterator only
advances by a hint that was checked to be in the future (R3).
Not decided: that each selector's hint value is a lower bound, merging across days, gap-freeness.
"""

import re

import flow
import lib
from c01 import check_reads

DAY = "opening_hours_syntax::rules::day::"
RS = "opening_hours_syntax::rules::RuleSequence"
KIND = "opening_hours_syntax::rules::RuleKind"
DF = "opening_hours::filter::date_filter::DateFilter"
OHT = "opening_hours::opening_hours::OpeningHours::<L>::"

ADAPTORS = re.compile(r"Iterator::(skip|skip_while|take|take_while|filter|filter_map|step_by|rev|flatten|flat_map|chain|zip|peekable|scan|fuse|last|nth|max|max_by|max_by_key)\(")


def run(ctx, prog, res):
    # R1 -------------------------------------------------------------------------------------
    r1 = res.rule("C02.R1", "hints combine as lower bounds over all contributors: every aggregation of child hints is a minimum over Option<NaiveDate> taken before any flatten/unwrap (unknown = None wins), over the unfiltered list, and every selector group / field contributes")
    hint_impls = prog.impl_method("DateFilter", name="next_change_hint")
    r1.check(len(hint_impls) >= 6, {"next_change_hint_impls": len(hint_impls)}, "C02.R1:FLOOR-impls", "FLOOR: expected 6 implementations of next_change_hint, found %d" % len(hint_impls))
    oh_hint = prog.require_fn(OHT + "next_change_hint")
    # (a)+(b) aggregations
    sl = prog.impl_method_one("DateFilter", "next_change_hint", self_ty="[T]")
    sh = flow.shape(sl, 0)
    ok = re.fullmatch(r"Option::unwrap_or_else\(Iterator::min\(Iterator::map\(slice::iter\(p1\), closure\[p2, p3\]\)\), closure\[\]\)", sh) is not None
    # the same aggregation written as a loop: acc = None; for x in list { acc = Some(match acc { None => h(x), Some(a) => min(a, h(x)) }) }
    H = r"(?:DateFilter)?::next_change_hint\(::next\(::into_iter\(slice::iter\(p1\)\)\)@Some\.0, p2, p3\)"
    loop_form = re.fullmatch(r"Option::unwrap_or_else\(alt\(Option::None\{\} \| Option::Some\{0: alt\(%s \| cmp::min\(_\d+@Some\.0, %s\)\)\}\), closure\[\]\)" % (H, H), flow.shape(sl, 0, depth=9)) is not None
    r1.check(ok or loop_form, {"aggregation": "[T]", "shape": sh if ok else "fold with cmp::min over every element"}, "C02.R1:agg:slice", "the hint of a selector list is not the minimum of its elements' hints over the whole list: %s" % sh, lib.where_of(sl))
    if loop_form and not ok:
        inner = [flow.shape(prog.fns[c], 0) for c in prog.closures(sl.id)]
        r1.check(any(x == "Option::Some{0: NaiveDateTime::date(const:DATE_END)}" for x in inner), {"empty_list": "never (DATE_END)"}, "C02.R1:agg:slice-elements", "the empty list is not 'never': %s" % inner, lib.where_of(sl))
    if ok:
        cl = [prog.fns[c] for c in prog.closures(sl.id)]
        inner = [flow.shape(c, 0) for c in cl]
        r1.check(any(re.fullmatch(r"(DateFilter)?::next_change_hint\(p2, p1\.0, p1\.1\)", s) for s in inner) and any(s == "Option::Some{0: NaiveDateTime::date(const:DATE_END)}" for s in inner),
                 {"element_hint": inner}, "C02.R1:agg:slice-elements", "elements of a selector list do not contribute their own hint / the empty list is not 'never': %s" % inner, lib.where_of(sl))
    ds = prog.impl_method_one("DateFilter", "next_change_hint", self_adt=DAY + "DaySelector")
    sh = flow.shape(ds, 0)
    m = re.search(r"Option::unwrap\(Iterator::min\(slice::iter\(array\((.*)\)\)\)\)", sh)
    groups = set()
    for bb, t in ds.calls():
        c = t["callee"]
        if "indirect" not in c and c.get("trait") == DF and c["name"] == "next_change_hint":
            for g in ("YearRange", "MonthdayRange", "WeekRange", "WeekDayRange"):
                if ("::" + g) in (c.get("self_ty") or ""):
                    groups.add(g)
    # any tree of minima (array + Iterator::min, Ord::min, cmp::min) whose leaves are exactly the four group hints
    min_tree = False
    try:
        import terms
        alts = [a_ for a_ in re.fullmatch(r"alt\((.*)\)", sh).group(1).split(" | ")] if sh.startswith("alt(") else [sh]
        trees = [a_ for a_ in alts if "next_change_hint" in a_]
        if len(trees) == 1 and all(a_ == "Option::Some{0: NaiveDateTime::date(const:DATE_END)}" for a_ in alts if a_ not in trees):
            t_ = terms.parse(trees[0])
            leaves_ = []
            def walk(n):
                if n[0] == "app" and n[1].split("::")[-1] == "min" and len(n[2]) == 2:
                    walk(n[2][0]); walk(n[2][1])
                elif n[0] == "app" and n[1].endswith("next_change_hint") and len(n[2]) == 3 and n[2][1:] == (("var", "p2"), ("var", "p3")) and n[2][0][0] == "var":
                    leaves_.append(n[2][0][1])
                else:
                    raise terms.TermError("not a minimum of hints")
            walk(t_)
            min_tree = sorted(leaves_) == ["p1.monthday", "p1.week", "p1.weekday", "p1.year"]
    except Exception:
        min_tree = False
    array_min = m is not None and m.group(1).count("::next_change_hint(") == 4
    r1.check((array_min or min_tree) and len(groups) == 4 and not ADAPTORS.search(sh), {"aggregation": "DaySelector", "groups": sorted(groups), "form": "min over an array" if array_min else "tree of min()"}, "C02.R1:agg:day-selector",
             "the day selector's hint is not the minimum over the hints of all four selector groups: %s (groups %s)" % (sh[:200], sorted(groups)), lib.where_of(ds))
    check_reads(prog, r1, ds, DAY + "DaySelector", "next_change_hint")
    sh = flow.shape(oh_hint, 0)
    m = re.search(r"Option::flatten\(Iterator::min\(Iterator::map\(slice::iter\(p1\.expr\.rules\), closure\[p2, p1\]\)\)\)", sh)
    r1.check(m is not None, {"aggregation": "expression", "shape": sh[-140:]}, "C02.R1:agg:expression", "the expression's hint is not min-then-flatten over all rules: %s" % sh, lib.where_of(oh_hint))
    for f in hint_impls + [oh_hint]:
        for x in prog.with_closures(f.id):
            for _, t in prog.fns[x].calls():
                nm = flow.call_names(t)[0]
                if re.search(r"(core::cmp::max$|Ord::max$|Iterator::max(_by|_by_key)?$)", nm) and "NaiveDate" in t["callee"].get("path_args", ""):
                    r1.fail("C02.R1:max:%s" % f.id, "a hint is combined with a maximum in %s" % f.id, lib.where_of(prog.fns[x], t))
    cl = [prog.fns[c] for c in prog.closures(oh_hint.id) if prog.fns[c].parent == oh_hint.id]
    ok = len(cl) == 1
    if ok:
        got = lib.reads(prog, cl[0].id, RS)
        ok = ("RuleSequence", "day_selector") in got and ("RuleSequence", "time_selector") in got
        csh = flow.shape(cl[0], 0)
        ok = ok and re.fullmatch(r"alt\(::next_change_hint\(p2\.day_selector, p1\.0, p1\.1\.ctx\) \| NaiveDate::succ_opt\(p1\.0\)\)", csh) is not None
    r1.check(ok, {"per_rule_hint": "day selector's hint, or tomorrow when today's time spans may differ"}, "C02.R1:per-rule", "the per-rule hint is not (day selector hint | tomorrow) depending on day_selector and time_selector", lib.where_of(oh_hint))
    # (c) leaves: all fields of every variant, or the variant answers 'unknown' (None)
    for leaf in ("YearRange", "MonthdayRange", "WeekRange", "WeekDayRange"):
        f = prog.impl_method_one("DateFilter", "next_change_hint", self_adt=DAY + leaf)
        got = lib.reads(prog, f.id, DAY + leaf)
        for variant, names in prog.adt_fields(DAY + leaf).items():
            read_here = [n for n in names if (variant, n) in got]
            if not read_here and names:
                arms = flow.enum_arms(prog, f, DAY + leaf)
                vals = flow.shape_in(f, 0, arms[0]["arms"][variant]["blocks"]) if arms else []
                r1.check(vals == ["Option::None{}"], {"selector": leaf, "variant": variant, "hint": "unknown (None)"}, "C02.R1:leaf:%s::%s" % (leaf, variant),
                         "%s::%s ignores its fields but does not answer 'unknown': %s" % (leaf, variant, vals), lib.where_of(f))
                continue
            for n in names:
                r1.check((variant, n) in got, {"selector": leaf, "field": "%s.%s" % (variant, n)}, "C02.R1:leaf:%s::%s.%s" % (leaf, variant, n),
                         "the hint of %s never looks at %s.%s" % (leaf, variant, n), lib.where_of(f))
    r1.floor(18)

    # R2 -------------------------------------------------------------------------------------
    r2 = res.rule("C02.R2", "the 'trivially constant' shortcut summarises schedule_at for all days, so it must look at every rule attribute schedule_at branches on: day_selector, time_selector, kind, operator")
    ic = prog.require_fn("opening_hours_syntax::rules::OpeningHoursExpression::is_constant")
    got = lib.reads(prog, ic.id, RS)
    sa = prog.require_fn(OHT + "schedule_at")
    used = lib.reads(prog, sa.id, RS)
    for fld in ("day_selector", "time_selector", "kind", "operator"):
        if ("RuleSequence", fld) not in used:
            r2.anchor_missing("schedule_at reads RuleSequence.%s" % fld)
            continue
        r2.check(("RuleSequence", fld) in got, {"shortcut_reads": fld}, "C02.R2:is_constant:%s" % fld,
                 "OpeningHoursExpression::is_constant never reads RuleSequence.%s although schedule_at branches on it" % fld, lib.where_of(ic))

    # the scan that skips trailing rules may only skip a rule after looking at everything that makes it differ from the
    # last one: its days, its time span and its kind (the closure handed to the backward search reads all three)
    scans = []
    for fid in prog.with_closures(ic.id):
        f = prog.fns[fid]
        for _, t in f.calls():
            nm = (t.get("callee") or {}).get("name") or ""
            if nm in ("rposition", "rfind", "position", "take_while", "skip_while", "rev") and "RuleSequence" in str((t.get("callee") or {}).get("path_args")):
                for a in t["args"]:
                    c = flow.closure_of_operand(f, a)
                    if c:
                        scans.append((nm, prog.fns[c]))
    for nm, clo in scans:
        rd = {fl for (ad, fl) in lib.reads(prog, clo.id, RS) if ad == "RuleSequence"}
        missing = [x for x in ("day_selector", "time_selector", "kind") if x not in rd]
        r2.check(not missing, {"tail_scan": nm, "predicate_reads": sorted(rd)}, "C02.R2:is_constant:tail-scan",
                 "the predicate of is_constant's scan over the trailing rules (`%s`) never reads %s: rules that differ in it are skipped as if they repeated the last rule - e.g. `24/7; Dec 25 off; Jan 1 open` is declared constant" % (nm, missing), lib.where_of(clo))
    # ... and where a trailing fallback rule is taken for the whole answer, the rules it leaves in place are looked at
    # for their kind *and* their time span: a closed span that passes midnight is kept on top of the fallback the next day
    keeps = []
    for fid in prog.with_closures(ic.id):
        f = prog.fns[fid]
        for _, t in f.calls():
            nm = (t.get("callee") or {}).get("name") or ""
            if nm in ("any", "all") and "RuleSequence" in str((t.get("callee") or {}).get("path_args")):
                for a in t["args"]:
                    c = flow.closure_of_operand(f, a)
                    if c:
                        keeps.append((nm, prog.fns[c]))
    for nm, clo in keeps:
        rd = {fl for (ad, fl) in lib.reads(prog, clo.id, RS) if ad == "RuleSequence"}
        if "kind" not in rd:
            continue
        r2.check("time_selector" in rd, {"fallback_check": nm, "predicate_reads": sorted(rd)}, "C02.R2:is_constant:fallback-keeps",
                 "is_constant decides that the rules before a trailing fallback rule leave every day to it by their kind alone (`%s` over %s): a closed rule whose span passes midnight spills onto the next day, where schedule_at keeps it on top of the fallback - `Mo 22:00-26:00 closed || 24/7 open` is declared constant but is closed on Tuesday until 02:00" % (nm, sorted(rd)), lib.where_of(clo))
    r2.check(any("kind" in {fl for (ad, fl) in lib.reads(prog, c.id, RS)} for _, c in keeps), {"fallback_checks": len(keeps)}, "C02.R2:is_constant:fallback-keeps:ANCHOR", "ANCHOR: is_constant no longer checks the rules a trailing fallback leaves in place", lib.where_of(ic))
    r2.check(bool(scans), {"tail_scans": len(scans)}, "C02.R2:is_constant:tail-scan:ANCHOR", "ANCHOR: is_constant no longer scans the trailing rules with a predicate", lib.where_of(ic))

    # R3 -------------------------------------------------------------------------------------
    r3 = res.rule("C02.R3", "the iterator only jumps to a hint that was asserted to be strictly after the current date, and falls back to the next day when the hint is unknown")
    cu = prog.require_fn("opening_hours::opening_hours::TimeDomainIterator::<L>::consume_until_next_kind")
    TDI = "opening_hours::opening_hours::TimeDomainIterator"
    assigns = [(bb, s) for bb, s in cu.stmts() if s["k"] == "assign" and (TDI, "TimeDomainIterator", "curr_date") in lib.place_fields(s["dst"])]
    ok = len(assigns) == 1
    detail = {}
    if ok:
        bb, s = assigns[0]
        sh = flow.shape(cu, s["rv"]["op"])
        detail["next_date"] = sh
        ok = re.fullmatch(r"Option::unwrap_or_else\(OpeningHours::next_change_hint\(p1\.opening_hours, p1\.curr_date\), closure\[p1(\.curr_date)?\]\)", sh) is not None
        guard = None
        for sbb, _ in cu.live_blocks():
            d = flow.bool_switch_of(cu, sbb)
            if d and d["op"] == "Gt" and cu.dominates(d["true_bb"], bb) and not cu.dominates(d["false_bb"], bb):
                a, b = flow.shape(cu, d["a"]), flow.shape(cu, d["b"])
                if a == sh and b == "p1.curr_date":
                    guard = d
        ok = ok and guard is not None
        cls = [flow.shape(prog.fns[c], 0) for c in prog.closures(cu.id)]
        detail["fallback"] = cls
        ok = ok and any(re.fullmatch(r"Option::expect\(NaiveDate::succ_opt\(p1\.0(\.curr_date)?\), '[^']*'\)", c) for c in cls)
    r3.check(ok, {"fn": cu.id, **detail}, "C02.R3:progress", "the iterator's date jump is not `hint.unwrap_or(tomorrow)` guarded by `> curr_date`: %s" % detail, lib.where_of(cu))

    # R4 -------------------------------------------------------------------------------------
    r4 = res.rule("C02.R4", "the state that holds where nothing applies is one constant (closed): RuleKind::default(), the day iterator's hole state, state()'s default, is_always_closed, and the only constant kind the constant shortcut compares with is Closed")
    consts = []
    for fid in prog.with_closures(ic.id):
        f = prog.fns[fid]
        for _, d in flow.comparisons(f):
            for side, other in (("a", "b"), ("b", "a")):
                vs = flow.const_variants(f, d[side])
                if vs and vs[0].startswith(KIND):
                    consts.append((d["op"], vs[0].split("::")[-1], lib.where_of(f, d["node"])))
    r4.check(consts and all(op in ("Eq", "Ne") and v == "Closed" for op, v, _ in consts), {"is_constant_constant_comparisons": [(o, v) for o, v, _ in consts]}, "C02.R4:is_constant",
             "the constant shortcut compares a kind with a constant other than Closed (the state of days no rule covers): %s" % [(o, v) for o, v, _ in consts], consts[0][2] if consts else lib.where_of(ic))
    dflt = prog.impl_method_one("core::default::Default", "default", self_adt=KIND)
    r4.check(flow.shape(dflt, 0) == "RuleKind::Closed{}", {"RuleKind::default": flow.shape(dflt, 0)}, "C02.R4:default", "RuleKind::default() is %s" % flow.shape(dflt, 0), lib.where_of(dflt))
    hs = prog.require_fn("opening_hours::schedule::IntoIter::HOLES_STATE")
    r4.check(flow.shape(hs, 0) == "RuleKind::Closed{}", {"HOLES_STATE": flow.shape(hs, 0)}, "C02.R4:holes", "IntoIter::HOLES_STATE is %s" % flow.shape(hs, 0), lib.where_of(hs))
    ac = prog.require_fn("opening_hours::schedule::Schedule::is_always_closed")
    cs = []
    for fid in prog.with_closures(ac.id):
        f = prog.fns[fid]
        for _, d in flow.comparisons(f):
            for side in ("a", "b"):
                vs = flow.const_variants(f, d[side])
                if vs:
                    cs.append((d["op"], vs[0].split("::")[-1]))
    r4.check(cs == [("Eq", "Closed")], {"is_always_closed": cs}, "C02.R4:is_always_closed", "Schedule::is_always_closed tests %s" % cs, lib.where_of(ac))

    # R5 -------------------------------------------------------------------------------------
    r5 = res.rule("C02.R5", "a holiday selector's hint looks the calendar up on the same shifted date its filter uses (sibling agreement of filter / hint), and shifts the found date back by the same offset")
    WD = DAY + "WeekDayRange"
    flt = prog.impl_method_one("DateFilter", "filter", self_adt=WD)
    hnt = prog.impl_method_one("DateFilter", "next_change_hint", self_adt=WD)
    def lookups(f):
        return {flow.call_name(t).split("::")[-1]: flow.shape(f, t["args"][1]) for _, t in f.calls() if re.search(r"CompactCalendar::(contains|first_after)$", flow.call_name(t))}
    lf, lh = lookups(flt), lookups(hnt)
    ok = "contains" in lf and set(lh) == {"contains", "first_after"} and len({lf["contains"], lh["contains"], lh["first_after"]}) == 1
    r5.check(ok, {"filter": lf, "hint": lh}, "C02.R5:same-date", "filter and hint of a holiday selector query the calendar on different dates: filter %s, hint %s" % (lf, lh), lib.where_of(hnt))
    back = [flow.shape(prog.fns[c], 0) for c in prog.closures(hnt.id)]
    r5.check(any(re.fullmatch(r"::add\(p2, TimeDelta::days\(p1\.0\)\)", b) for b in back), {"found_date_shifted_back_by": "+offset days"}, "C02.R5:shift-back",
             "the date found in the calendar is not shifted back by +offset days: %s" % back, lib.where_of(hnt))

    # R6 -------------------------------------------------------------------------------------
    r6 = res.rule("C02.R6", "a dated selector's hint is computed from the same intervals its filter tests (sibling agreement): the interval helpers of filter and hint pick the current interval with the same predicate; wherever a filter tests `is_open_from_*` on a generated sequence of bounds or intervals, the hint of the same selector calls `next_change_from_*` on a sequence generated by the same pipeline (same date constructors, same offsets, same lower year) that looks at least as far ahead; leap-day sequences look at least 8 years ahead (the longest gap between two 29 February)")
    DFM = "opening_hours::filter::date_filter::"

    def helper(prefix):
        fs = [x for x in prog.fns.values() if x.id.startswith(DFM + prefix) and x.kind == "Fn"]
        return fs

    def find_pred(f):
        out = []
        for _, t in f.calls():
            if flow.call_name(t).endswith("Iterator::find"):
                clo = flow.closure_of_operand(f, t["args"][1])
                if clo in prog.fns:
                    out.append(flow.shape(prog.fns[clo], 0, depth=8))
        return out
    io, nc = helper("is_open_from_intervals"), helper("next_change_from_intervals")
    if len(io) != 1 or len(nc) != 1:
        r6.anchor_missing("the interval helpers is_open_from_intervals / next_change_from_intervals")
    else:
        pi, pn = find_pred(io[0]), find_pred(nc[0])
        r6.check(len(pi) == 1 and pi == pn, {"current_interval_selected_by": pi, "in": "both helpers"}, "C02.R6:predicate",
                 "filter and hint select the current interval differently: is_open_from_intervals uses %s, next_change_from_intervals uses %s" % (pi, pn), lib.where_of(nc[0]))

    def pipeline(f, op):
        stages = []
        cur = op
        for _ in range(8):
            calls = flow.origin_calls(f, cur)
            if len(calls) != 1:
                break
            c = calls[0]
            nm = flow.call_names(c)[0]
            if nm.startswith("core::iter::traits::iterator::Iterator::") and len(c["args"]) == 2:
                clo = flow.closure_of_operand(f, c["args"][1])
                body = flow.shape(prog.fns[clo], 0, depth=10) if clo in prog.fns else "?"
                caps = [flow.shape(f, x, depth=6) for x in flow.closure_captures(f, c["args"][1])]
                stages.append((nm.split("::")[-1], body, tuple(caps)))
                cur = c["args"][0]
            else:
                break
        return flow.shape(f, cur, depth=10), tuple(reversed(stages))

    def horizon(src):
        """(lower shape, upper kind, k) of RangeInclusive::new(lo, hi) over years."""
        m = re.fullmatch(r"RangeInclusive::new\((.*), (::year\(const:DATE_END\)|Add\(::year\(p2\), (\d+)\)\.0|::year\(p2\))\)", src)
        if not m:
            return None
        if m.group(2).startswith("::year(const"):
            return m.group(1), 10 ** 6
        return m.group(1), int(m.group(3) or 0)

    n_pairs = 0
    for im in prog.impls:
        pass
    for flt in [f for f in prog.fns.values() if f.crate == lib.OH and f.impl and (f.impl.get("trait") or "").endswith("DateFilter") and f.name == "filter"]:
        hnt = [f for f in prog.fns.values() if f.impl and f.impl.get("id") == flt.impl.get("id") and f.name == "next_change_hint"]
        tests = [t for _, t in flt.calls() if re.match(re.escape(DFM) + r"is_open_from_(bounds|intervals)", flow.call_name(t))]
        if not tests:
            continue
        if len(hnt) != 1:
            r6.anchor_missing("next_change_hint next to %s" % flt.id)
            continue
        hnt = hnt[0]
        hints = [t for _, t in hnt.calls() if re.match(re.escape(DFM) + r"next_change_from_(bounds|intervals)", flow.call_name(t))]
        for t in tests:
            kind = flow.call_name(t).split("_from_")[-1]
            fp = [pipeline(flt, a) for a in t["args"][1:]]
            if not all(x[1] for x in fp):
                continue  # explicit bounds: compared below, sub-case by sub-case
            match = None
            why = "no next_change_from_%s call" % kind
            for h in hints:
                if flow.call_name(h).split("_from_")[-1] != kind or len(h["args"]) != len(t["args"]):
                    continue
                hp = [pipeline(hnt, a) for a in h["args"][1:]]
                if not all(x[1] and y[1] for x, y in zip(fp, hp)):
                    continue  # a specialised arm built from explicit dates, not from a generated sequence
                why = None
                for (fs, fst), (hs, hst) in zip(fp, hp):
                    if fst != hst:
                        why = "different pipelines: filter %s, hint %s" % (fst, hst)
                        break
                    a, b = horizon(fs), horizon(hs)
                    if a is None or b is None:
                        if fs != hs:
                            why = "different sources: filter %s, hint %s" % (fs, hs)
                            break
                        continue
                    if a[0] != b[0]:
                        why = "different first year: filter %s, hint %s" % (a[0], b[0])
                        break
                    if b[1] < a[1]:
                        why = "the hint looks %d year(s) ahead, the filter %d" % (b[1], a[1])
                        break
                    leap = any("from_ymd_opt(p2, 2, 29)" in st[1] for st in hst)
                    if leap and min(a[1], b[1]) < 8:
                        why = "a leap-day sequence must look at least 8 years ahead (found %d)" % min(a[1], b[1])
                        break
                if why is None:
                    match = h
                    break
            n_pairs += 1
            r6.check(match is not None, {"selector": flt.impl.get("self", "").split("::")[-1], "filter_tests": "is_open_from_" + kind, "hint_computes": "next_change_from_%s on the same pipeline" % kind, "stages": [s[0] for s in fp[0][1]]},
                     "C02.R6:%s:%s" % (flt.impl.get("self", "").split("::")[-1], kind),
                     "%s: the filter tests is_open_from_%s on a generated sequence, but the hint does not compute next_change_from_%s from the same sequence (%s)" % (flt.impl.get("self", "").split("::")[-1], kind, kind, why), lib.where_of(hnt))
    # explicit sub-cases: where the hint singles out a sub-case of a variant and computes its bounds from
    # explicit dates, a filter that decides this variant with the interval helpers must test the same
    # explicit bounds under the same sub-case (otherwise the two disagree on that sub-case)
    for flt in [f for f in prog.fns.values() if f.crate == lib.OH and f.impl and (f.impl.get("trait") or "").endswith("DateFilter") and f.name == "filter"]:
        hnts = [f for f in prog.fns.values() if f.impl and f.impl.get("id") == flt.impl.get("id") and f.name == "next_change_hint"]
        if len(hnts) != 1:
            continue
        hnt = hnts[0]
        def helper_calls(f, prefix):
            out = []
            for _, t in f.calls():
                if re.match(re.escape(DFM) + prefix + r"_from_(bounds|intervals)", flow.call_name(t)):
                    args = [flow.shape(f, a, depth=12) for a in t["args"][1:]]
                    explicit = all(not pipeline(f, a)[1] for a in t["args"][1:])
                    variants = set(re.findall(r"p1@(\w+)", " ".join(args)))
                    out.append((t, args, explicit, variants))
            return out
        fc, hc = helper_calls(flt, "is_open"), helper_calls(hnt, "next_change")
        for t, args, explicit, variants in hc:
            if not explicit:
                continue
            same_variant = [c for c in fc if c[3] & variants]
            tname = flt.impl.get("self", "").split("::")[-1]
            if not same_variant:
                r6.ok({"selector": tname, "variant": sorted(variants), "hint": "explicit bounds", "filter": "decided without the interval helpers (not compared)"})
                continue
            norm = lambda xs: [x.replace("@Continue.0", "@Some.0") for x in xs]  # `?` and `if let Some` unwrap the same value
            twin = [c for c in same_variant if c[2] and norm(c[1]) == norm(args)]
            n_pairs += 1
            r6.check(bool(twin), {"selector": tname, "variant": sorted(variants), "explicit_sub_case": "same bounds in filter and hint"}, "C02.R6:%s:explicit:%s" % (tname, "+".join(sorted(variants))),
                     "%s: the hint singles out a sub-case of %s and computes its bounds from explicit dates (%s), but the filter tests that variant only through generated yearly sequences: the two disagree on the sub-case (e.g. a start with a fixed year and a year-less end)" % (tname, sorted(variants), args[0][:120]), lib.where_of(hnt, t))
    # inclusive bounds: the interval helpers build `start..=end` and answer `end + 1 day`; a date built
    # with the literal day 1 of a following month is an exclusive bound and is only a valid end after pred_opt
    import terms as _terms
    n_ends = 0
    for f in prog.fns.values():
        if f.crate != lib.OH or f.from_expansion:
            continue
        for _, t in f.calls():
            if not re.match(re.escape(DFM) + r"(is_open|next_change)_from_bounds$", flow.call_name(t)) or len(t["args"]) < 3:
                continue
            if pipeline(f, t["args"][2])[1]:
                continue  # generated sequence: its constructors are compared above
            n_ends += 1
            sh = flow.shape(f, t["args"][2], depth=12)
            try:
                tree = _terms.parse(sh)
            except _terms.TermError:
                continue
            bad = []

            def walk(n, under_pred):
                if n[0] == "app":
                    nm_ = n[1].split("::")[-1]
                    if nm_ == "from_ymd_opt" and len(n[2]) == 3 and n[2][2] == ("int", 1) and not under_pred:
                        # literal day 1: fine as an end only when month and year are the selector's own, unshifted
                        shifted = any(x[0] == "app" and x[1].split("::")[-1] in ("Add", "AddWithOverflow", "Rem") for x in _terms.leaves(n[2][1], lambda y: y[0] == "app") + _terms.leaves(n[2][0], lambda y: y[0] == "app"))
                        if shifted:
                            bad.append(n)
                    for a in n[2]:
                        walk(a, under_pred or nm_ == "pred_opt")
                elif n[0] in ("proj", "cast"):
                    walk(n[1], under_pred)
                elif n[0] == "agg":
                    for _, a in n[2]:
                        walk(a, under_pred)
            walk(tree, False)
            r6.check(not bad, {"fn": f.id.split("::")[-1], "explicit_end_bound": "inclusive"}, "C02.R6:inclusive-end:%s" % f.id,
                     "%s passes the first day of a following month as an (inclusive) end bound: the interval helpers report the change one day late (%s)" % (f.id, sh[:160]), lib.where_of(f, t))
    r6.floor(3)

    # R11 ------------------------------------------------------------------------------------
    r11 = res.rule("C02.R11", "a hint computed from bounds that were only generated for a finite window of years (`year-1 ..= year+k`, not through DATE_END) says nothing about what follows the window - a bound with a year further away, an interval whose end was not generated: the value of `next_change_from_*` on such a sequence is returned only as the minimum with a date built from `year(date) + k'`, k' <= k (the hint never promises more than the window it looked at)")
    MINC = re.compile(r"(^core::cmp::min$|core::cmp::Ord::min$)")
    n_fin = 0
    for hnt in [f for f in prog.fns.values() if f.crate == lib.OH and f.impl and (f.impl.get("trait") or "").endswith("DateFilter") and f.name == "next_change_hint"]:
        for hbb, h in hnt.calls():
            if not re.match(re.escape(DFM) + r"next_change_from_(bounds|intervals)", flow.call_name(h)):
                continue
            ks = []
            for a in h["args"][1:]:
                src, stages = pipeline(hnt, a)
                if not stages:
                    continue
                hz = horizon(src)
                if hz is None:
                    ks.append(None)
                elif hz[1] < 10 ** 6:
                    ks.append(hz[1])
            if not ks:
                continue  # explicit bounds, or a sequence generated through DATE_END
            n_fin += 1
            tname = hnt.impl.get("self", "").split("::")[-1]
            if None in ks:
                r11.fail("C02.R11:%s:unmodelled" % tname, "%s: the window of a generated sequence of bounds is not of the form lo..=year(date)+k / ..=year(DATE_END): not decided, failing closed" % tname, lib.where_of(hnt, h))
                continue
            k = min(ks)
            dst = h.get("dst")
            capped = None
            for mbb, m in hnt.calls():
                if not any(MINC.search(n) for n in flow.call_names(m)) or len(m["args"]) != 2:
                    continue
                sides = [flow.origin_calls(hnt, x) for x in m["args"]]
                for i in (0, 1):
                    if any(c is h for c in sides[i]) and len(sides[i]) == 1:
                        other = flow.shape(hnt, m["args"][1 - i], depth=12)
                        mm = re.search(r"from_ymd_opt\((?:Add\(::year\(p2\), (\d+)\)\.0|::year\(p2\))", other)
                        if mm and int(mm.group(1) or 0) <= k and hnt.dominates(hbb, mbb):
                            capped = (m, int(mm.group(1) or 0), mbb)
            ok = False
            if capped is not None:
                # the un-capped value must not reach the return by another way
                rets = flow.origin_calls(hnt, 0)
                ok = not any(c is h for c in rets)
            r11.check(ok, {"selector": tname, "window": "year-1 ..= year+%d" % k, "hint_capped_at": ("Jan 1 of year+%d" % capped[1]) if capped else None}, "C02.R11:%s" % tname,
                      "%s: the hint is computed from bounds generated up to year+%d only and is returned without a cap at the end of that window: a bound with a year further away (or an interval whose end lies beyond the window) is skipped - next_change reports none / a later change although the filter changes its answer" % (tname, k), lib.where_of(hnt, h))
    r11.floor(1)

    # R7 -------------------------------------------------------------------------------------
    r7 = res.rule("C02.R7", "the skip hint looks at every day the day's schedule depends on: the schedule of a day consults each rule's day selector for that day and for the day before (yesterday's spill past midnight); the hint may only skip ahead for a rule after consulting the day selector for the same set of days")
    DFT = "opening_hours::filter::date_filter::DateFilter"

    RECV = {}

    def day_offsets(root):
        """Offsets (0 = the date itself, -1 = the day before) on which DaySelector::filter is consulted
        in a function and its closures."""
        offs = set()
        ids = prog.with_closures(root.id)
        for fid in ids:
            f = prog.fns[fid]
            for _, t in f.calls():
                c = t["callee"]
                if "indirect" in c or c.get("trait") != DFT or c.get("name") != "filter" or "DaySelector" not in (c.get("self_ty") or ""):
                    continue
                sh = flow.shape(f, t["args"][1], depth=6)
                if "pred_opt" in sh:
                    offs.add(-1)
                    continue
                # the date is the closure's own parameter: it is the payload of the Option / iterator the closure is applied to
                if f.kind == "Closure" and re.fullmatch(r"\*?p2", sh.replace("(", "").replace(")", "")):
                    par = prog.fns.get(f.parent)
                    found = False
                    while par is not None and not found:
                        for _, pt in par.calls():
                            for i, a in enumerate(pt["args"]):
                                if flow.closure_of_operand(par, a) == f.id and pt["args"]:
                                    recv = flow.shape(par, pt["args"][0], depth=6)
                                    offs.add(-1 if "pred_opt" in recv else 0)
                                    if "pred_opt" in recv:
                                        RECV.setdefault(root.id, []).append((recv, f))
                                    found = True
                        par = prog.fns.get(par.parent) if par.kind == "Closure" else None
                    if not found:
                        offs.add(0)
                else:
                    offs.add(0)
        return offs
    ev = prog.require_fn("opening_hours::opening_hours::rule_sequence_schedule_at")
    want, have = day_offsets(ev), day_offsets(oh_hint)
    r7.check(bool(want) and want <= have, {"day_evaluation_consults_offsets": sorted(want), "hint_consults_offsets": sorted(have)}, "C02.R7:days",
             "the day's schedule consults the day selector at day offsets %s, the skip hint only at %s: a rule that matched yesterday and spills over the whole of today lets the hint jump over tomorrow's change" % (sorted(want), sorted(have)), lib.where_of(oh_hint))

    # ... and under no further condition on that day: the hint hands yesterday's date straight to the day selector
    for recv, clo in RECV.get(oh_hint.id, []):
        bare = re.fullmatch(r"NaiveDate::pred_opt\((?:\*?p\d+(?:\.\d+)*|[\w:]*\(?p\d+(?:\.\d+)*\)?)\)", recv) is not None
        cmps = [c["op"] for _, c in flow.comparisons(clo)]
        r7.check(bare and not cmps, {"yesterday_reaches_the_day_selector_through": recv, "other_tests_on_it": cmps}, "C02.R7:yesterday-unconditional",
                 "the skip hint consults the day selector for yesterday only under a further condition (%s%s), the day evaluation applies yesterday's spill without it: on the days where the condition fails the hint skips a change the schedule contains" % (recv, (", comparisons %s" % cmps) if cmps else ""), lib.where_of(oh_hint))
    r7.check(bool(RECV.get(oh_hint.id)) or -1 not in have, {"yesterday_consulted_through_a_closure": bool(RECV.get(oh_hint.id))}, "C02.R7:yesterday-form", "the form in which the hint consults yesterday is not recognised", lib.where_of(oh_hint)) if False else None

    # R2 (continued): the 'immutable full day' predicate the hint trusts
    TS = "opening_hours_syntax::rules::time::TimeSpan"
    ifd = prog.impl_method_one("TimeFilter", "is_immutable_full_day", self_adt=TS)
    got = lib.reads(prog, ifd.id, TS)
    missing = [n for n in ("range", "open_end", "repeats") if ("TimeSpan", n) not in got]
    r2.check(not missing, {"fn": ifd.id, "reads": sorted(n for _, n in got)}, "C02.R2:immutable-full-day:reads",
             "TimeSpan::is_immutable_full_day never reads %s: a span that is not the plain 00:00-24:00 can be taken for one, and the hint then skips its spill or its changes" % missing, lib.where_of(ifd))
    ords = [flow.call_name(t).split("::")[-1] for x in prog.with_closures(ifd.id) for _, t in prog.fns[x].calls() if re.search(r"PartialOrd.*::(lt|le|gt|ge)$|Ord.*::cmp$", flow.call_name(t))]
    r2.check(not ords, {"fn": ifd.id, "bounds_compared_by": "equality"}, "C02.R2:immutable-full-day:equality",
             "TimeSpan::is_immutable_full_day compares a bound with an ordering (%s): only the exact span 00:00-24:00 has no spill into the next day" % ords, lib.where_of(ifd))

    # R8 -------------------------------------------------------------------------------------
    import c02_arms
    c02_arms.run(ctx, prog, res, thorough=(ctx.tier == "thorough"))
    c02_arms.run_years(ctx, prog, res, thorough=(ctx.tier == "thorough"))
    c02_arms.run_weeks(ctx, prog, res, thorough=(ctx.tier == "thorough"))
