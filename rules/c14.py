"""C14 - schedule algebra: overlay semantics and gap-free day iteration.

Decided: who may touch the representation (R1), a merge-by-start loop keeps the farther end
(R2, sibling rule over from_ranges and ranges_union), empty/inverted inputs are dropped first
(R3), an in-place merge re-examines the merged element (R4), hole filling extends closed
periods and closes the day at 24:00 (R5), day iteration cannot yield an empty range (R6), ranges
enter a schedule only through from_ranges / insert (R7).
Not decided: 'most recently added wins', coalescing in insert, exact tiling - values.
"""

import re

import flow
import lib
import merge
import witness

SCHED = "opening_hours::schedule::Schedule"
TR = "opening_hours::schedule::TimeRange"
RANGE = "core::ops::range::Range"
MOD = "opening_hours::schedule"


def run(ctx, prog, res):
    prog.adt(SCHED)

    # R1 -------------------------------------------------------------------------------------
    r1 = res.rule("C14.R1", "representation ownership: only module `schedule` builds a Schedule or gets mutable/owning access to its range vector; the field is not public")
    fld = prog.adt(SCHED)["variants"][0]["fields"][0]
    r1.check(fld["vis"].startswith("restricted:"), {"field": "inner", "vis": fld["vis"]}, "C14.R1:vis", "Schedule.inner is public")
    for f in prog.fns.values():
        if f.crate not in lib.WS_ALL:
            continue
        for bb, s in f.stmts():
            if s["k"] != "assign":
                continue
            rv = s["rv"]
            touched = None
            if rv["k"] == "agg" and rv.get("adt") == SCHED:
                touched = "constructs Schedule"
            if rv["k"] == "ref" and rv["mut"] and (SCHED, "Schedule", "inner") in lib.place_fields(rv["pl"]):
                touched = "mutably borrows .inner"
            if (SCHED, "Schedule", "inner") in lib.place_fields(s["dst"]):
                touched = "writes .inner"
            if rv["k"] == "use" and rv["op"].get("k") == "move" and (SCHED, "Schedule", "inner") in lib.place_fields(rv["op"]["pl"]):
                touched = "moves .inner out"
            if touched:
                ok = f.module == MOD or (f.impl and f.impl.get("derived"))
                r1.check(ok, {"fn": f.id, "access": touched}, "C14.R1:%s" % f.id, "%s outside module schedule: %s" % (touched, f.id), lib.where_of(f, s))
    r1.floor(5)

    # R2 -------------------------------------------------------------------------------------
    r2 = res.rule("C14.R2", "a merge-by-start loop keeps the farther end: wherever ranges sorted by start only are merged, the merged end is the maximum of both ends")
    merge.check(prog, r2, [lib.OH], "C14.R2")
    r2.floor(2)

    # R3 -------------------------------------------------------------------------------------
    r3 = res.rule("C14.R3", "from_ranges drops empty and inverted inputs before anything else: the collected vector comes through a filter whose predicate is `start < end` (strict) on the same range")
    fr = prog.require_fn(SCHED + "::from_ranges")
    aggs = [s for _, s in fr.stmts() if s["k"] == "assign" and s["rv"]["k"] == "agg" and s["rv"].get("adt") == SCHED]
    ok = False
    detail = {}
    if len(aggs) == 1:
        chain = [n for n in flow.deep_origin_calls(fr, aggs[0]["rv"]["ops"][0], depth=6) if n["k"] == "call"]
        names = [flow.call_name(n) for n in chain]
        filters = [n for n in chain if flow.call_names(n)[0].endswith("Iterator::filter")]
        detail["chain"] = names
        if len(filters) == 1 and any(flow.root_params(fr, a) == {1} for n in chain for a in n["args"]):
            cl = None
            for a in filters[0]["args"]:
                pl = lib.operand_place(a)
                if a.get("closure"):
                    cl = a["closure"]
                if pl is not None:
                    for _, d in fr.defs_of(pl["l"]):
                        if d["k"] == "assign" and d["rv"]["k"] == "agg" and d["rv"].get("ak") == "closure":
                            cl = d["rv"]["closure"]
            cf = prog.fns.get(cl)
            if cf is not None:
                cmps = flow.comparisons(cf)
                detail["predicate"] = [(d["op"], [x[2] for x in flow.origin_fields(cf, d["a"])], [x[2] for x in flow.origin_fields(cf, d["b"])]) for _, d in cmps]
                if len(cmps) == 1:
                    d = cmps[0][1]
                    fa, fb = flow.nearest_field(cf, d["a"]), flow.nearest_field(cf, d["b"])
                    ok = (d["op"] == "Lt" and fa and fb and fa[0] == RANGE and fa[2] == "start" and fb[2] == "end") or \
                         (d["op"] == "Gt" and fa and fb and fa[2] == "end" and fb[2] == "start")
                    # the comparison result is what the closure returns
                    ok = ok and bool([1 for o in flow.origins(cf, 0) if o.kind == "call" and o.node is d["node"]])
    r3.check(ok, {"fn": fr.id, **detail}, "C14.R3:filter", "from_ranges does not filter its input by `start < end` before building the schedule", lib.where_of(fr), detail)

    # R4 -------------------------------------------------------------------------------------
    r4 = res.rule("C14.R4", "an in-place merge re-examines the merged element: after removing the absorbed neighbour the index is not advanced before the loop condition is evaluated again")
    n = 0
    for f in prog.fns.values():
        if f.crate != lib.OH or f.module != MOD:
            continue
        for bb, t in f.calls():
            if not re.search(r"alloc::vec::Vec::<T(, A)?>::(remove|swap_remove)$", flow.call_name(t)):
                continue
            if not merge._is_end([]) and not any(True for _ in [0]):
                pass
            # index local
            idx_locals = set()
            for nnode in [x for x in flow.deep_origin_calls(f, t["args"][1], depth=3)] + [None]:
                pass
            for o in flow.operand_origins(f, t["args"][1]):
                if o.kind == "bin":
                    for side in ("a", "b"):
                        for o2 in flow.operand_origins(f, o.node["rv"][side]):
                            if o2.kind == "other" and o2.local is not None:
                                idx_locals.add(o2.local)
                            if o2.kind == "field" and o2.local is not None:
                                for o3 in flow.origins(f, o2.local):
                                    if o3.kind == "bin":
                                        for side2 in ("a", "b"):
                                            pl = lib.operand_place(o3.node["rv"][side2])
                                            if pl is not None:
                                                idx_locals.add(pl["l"])
                if o.kind == "other" and o.local is not None:
                    idx_locals.add(o.local)
            # user-named index variables only
            idx_locals = {l for l in idx_locals if f.locals[l]["name"]}
            if not idx_locals:
                r4.fail("C14.R4:index:%s" % f.id, "cannot identify the index variable of the in-place removal in %s" % f.id, lib.where_of(f, t))
                continue
            # loop header: a block in a cycle dominating the removal with a back edge
            headers = [h for h, _ in f.live_blocks() if f.dominates(h, bb) and h != bb and any(f.dominates(h, p) and h in f.succs(p) for p, _ in f.live_blocks())]
            if not headers:
                continue  # not in a loop: nothing to re-examine
            header = max(headers, key=lambda h: sum(1 for x in headers if f.dominates(x, h)))
            incs = [dbb for l in idx_locals for dbb, d in f.defs_of(l) if f.dominates(header, dbb) and dbb != header]
            n += 1
            bad = flow.reach_avoiding(f, t["t"], incs, [header]) if incs else False
            r4.check(not bad, {"fn": f.id, "removal_block": bb, "loop_header": header, "index": [f.locals[l]["name"] for l in idx_locals], "index_updates": incs},
                     "C14.R4:%s" % f.id, "after merging and removing a neighbour, %s advances the index without re-examining the merged element (a third overlapping range is missed)" % f.id, lib.where_of(f, t))
    r4.floor(1)

    # R5 -------------------------------------------------------------------------------------
    r5 = res.rule("C14.R5", "hole filling: while iterating a day, a period of the hole state is extended over a following hole (end <- next start) and over the last hole up to 24:00, both under the test `kind == HOLES_STATE`; holes are created with HOLES_STATE")
    nx = prog.impl_method_one("core::iter::traits::iterator::Iterator", "next", self_adt="opening_hours::schedule::IntoIter")

    def holes_guard(bb):
        for sbb, _ in nx.live_blocks():
            d = flow.bool_switch_of(nx, sbb)
            if not d or d["op"] not in ("Eq",):
                continue
            items = [c for side in ("a", "b") for c in flow.const_items(nx, d[side])]
            if any(i and i.endswith("IntoIter::HOLES_STATE") for i in items) and nx.dominates(d["true_bb"], bb) and not nx.dominates(d["false_bb"], bb):
                return True
        return False

    ext_start = ext_24 = 0
    for bb, s in nx.stmts():
        if s["k"] == "assign" and merge._is_end(lib.place_fields(s["dst"])) and s["rv"]["k"] == "use":
            nf = flow.nearest_field(nx, s["rv"]["op"])
            consts = flow.const_items(nx, s["rv"]["op"])
            if nf and nf[0] == RANGE and nf[2] == "start" and holes_guard(bb):
                ext_start += 1
            if any(c and c.endswith("ExtendedTime::MIDNIGHT_24") for c in consts) and holes_guard(bb):
                ext_24 += 1
    r5.check(ext_start >= 1, {"fn": nx.id, "extension": "end <- next.start under kind == HOLES_STATE", "sites": ext_start}, "C14.R5:extend-over-hole",
             "IntoIter::next no longer extends a closed period over the hole that follows it (two adjacent closed ranges would be yielded)", lib.where_of(nx))
    r5.check(ext_24 >= 1, {"fn": nx.id, "extension": "end <- 24:00 under kind == HOLES_STATE", "sites": ext_24}, "C14.R5:extend-to-24",
             "IntoIter::next no longer extends the last closed period to 24:00", lib.where_of(nx))
    news = [t for _, t in nx.calls() if flow.call_name(t) == TR + "::new"]
    ok = len(news) >= 1 and all(any(c.endswith("IntoIter::HOLES_STATE") for c in flow.const_items(nx, t["args"][1])) for t in news)
    r5.check(ok, {"fn": nx.id, "hole_kind": "HOLES_STATE", "sites": len(news)}, "C14.R5:hole-kind", "a hole is created with a kind other than HOLES_STATE", lib.where_of(nx))
    hs = prog.fns.get("opening_hours::schedule::IntoIter::HOLES_STATE")
    ok = hs is not None and any(s["k"] == "assign" and ((s["rv"]["k"] == "use" and s["rv"]["op"].get("variant") == "Closed") or (s["rv"]["k"] == "agg" and s["rv"].get("adt") == "opening_hours_syntax::rules::RuleKind" and s["rv"].get("variant") == "Closed")) for _, s in hs.stmts())
    r5.check(ok, {"const": "IntoIter::HOLES_STATE", "value": "RuleKind::Closed"}, "C14.R5:holes-state", "HOLES_STATE is not RuleKind::Closed")

    # R6 -------------------------------------------------------------------------------------
    r6 = res.rule("C14.R6", "every value yielded by day iteration goes through pre_yield (non-empty check, progress of last_end); iteration stops from 24:00 on")
    yields = []
    for o in flow.origins(nx, 0):
        if o.kind == "call":
            yields.append(flow.call_name(o.node))
        elif o.kind == "agg":
            yields.append("%s::%s" % (o.node["rv"].get("adt"), o.node["rv"].get("variant")))
        else:
            yields.append(o.kind)
    ok = yields and all(y in ("opening_hours::schedule::IntoIter::pre_yield", "core::option::Option::None") for y in yields) and "opening_hours::schedule::IntoIter::pre_yield" in yields
    r6.check(ok, {"fn": nx.id, "return_values": sorted(set(yields))}, "C14.R6:pre_yield", "IntoIter::next returns a value that did not pass pre_yield: %s" % sorted(set(yields)), lib.where_of(nx))
    py = prog.require_fn("opening_hours::schedule::IntoIter::pre_yield")
    cmps = flow.comparisons(py)
    ok = any(d["op"] == "Lt" and (flow.nearest_field(py, d["a"]) or [0, 0, 0])[2] == "start" and (flow.nearest_field(py, d["b"]) or [0, 0, 0])[2] == "end" for _, d in cmps)
    sets_last = any(s["k"] == "assign" and lib.place_fields(s["dst"])[-1:] == [("opening_hours::schedule::IntoIter", "IntoIter", "last_end")] and (flow.nearest_field(py, s["rv"]["op"]) or [0, 0, 0])[2] == "end" for _, s in py.stmts() if s["k"] == "assign" and s["rv"]["k"] == "use")
    r6.check(ok and sets_last, {"fn": py.id, "assert": "start < end", "progress": "last_end <- value.range.end"}, "C14.R6:pre_yield-body", "pre_yield no longer asserts start < end or no longer records the end", lib.where_of(py))

    # R7 -------------------------------------------------------------------------------------
    r7 = res.rule("C14.R7", "ranges enter a schedule only through the two builders that re-establish its invariant: vectors of periods are mutated only inside from_ranges (sort, merge) and insert (on the vectors it builds); addition only pops periods off the schedule being added and hands each one to insert")
    MUT = re.compile(r"alloc::vec::Vec::<T(, A)?>::(push|append|extend\w*|insert|remove|retain\w*|truncate|drain|swap_remove|pop|clear|dedup\w*|split_off|resize\w*)$|Extend<.*>>::extend|<impl \[T\]>::(sort\w*|reverse|swap|rotate\w*)$")
    SCH = "opening_hours::schedule::Schedule::"
    n_mut = 0
    for f in prog.fns.values():
        if f.crate != lib.OH or f.from_expansion:
            continue
        root = f
        while root.kind == "Closure" and root.parent in prog.fns:
            root = prog.fns[root.parent]
        for bb, t in f.calls():
            nm = flow.call_name(t)
            if not MUT.search(nm) or "opening_hours::schedule::TimeRange" not in (t["callee"].get("path_args") or ""):
                continue
            n_mut += 1
            op = nm.split("::")[-1]
            recv = flow.shape(f, t["args"][0], depth=5)
            ok = root.id in (SCH + "from_ranges", SCH + "insert") or (root.id == SCH + "addition" and op == "pop" and recv == "p2.inner")
            r7.check(ok, {"fn": root.id.split("::")[-1], "mutation": op}, "C14.R7:%s:%s" % (root.id, op),
                     "%s applies `%s` to a vector of periods (%s): ranges must be overlaid through Schedule::insert, which cuts and merges what they overlap" % (root.id, op, recv[:80]), lib.where_of(f, t))
    add = prog.require_fn(SCH + "addition")
    ins = [t for _, t in add.calls() if flow.call_name(t) == SCH + "insert"]
    ok = len(ins) == 1 and re.fullmatch(r"Vec::pop\(p2\.inner\)@Some\.0", flow.shape(add, ins[0]["args"][1], depth=5)) is not None and flow.shape(add, ins[0]["args"][0], depth=4) == "p1"
    r7.check(ok, {"fn": add.id, "overlays": "self.insert(popped period)"}, "C14.R7:addition", "addition does not overlay each popped period with self.insert", lib.where_of(add))
    # "most recently added wins" is order-sensitive: the receiver and the added schedule are never exchanged or replaced
    swaps = [flow.call_name(t).split("::")[-1] for x in prog.with_closures(add.id) for _, t in prog.fns[x].calls() if re.search(r"core::mem::(swap|replace|take)$", flow.call_name(t))]
    reassigned = [l for l in (1, 2) if len([n for _, n in add.defs_of(l)]) > 0]
    r7.check(not swaps and not reassigned, {"fn": add.id, "operands": "never exchanged"}, "C14.R7:addition:operands",
             "addition exchanges or replaces its operands (%s): the schedule added last no longer wins where both cover a minute" % (swaps or ["assignment to an operand"]), lib.where_of(add))
    # the merge loop of from_ranges relies on the order it sorted: only order-preserving removals
    fr = prog.require_fn(SCH + "from_ranges")
    disorder = [flow.call_name(t).split("::")[-1] for x in prog.with_closures(fr.id) for _, t in prog.fns[x].calls()
                if re.search(r"Vec::<T(, A)?>::(swap_remove|push|insert|append|extend\w*)$|<impl \[T\]>::(swap|reverse|rotate\w*)$", flow.call_name(t)) and "opening_hours::schedule::TimeRange" in (t["callee"].get("path_args") or "")]
    r7.check(not disorder, {"fn": fr.id, "after_sorting": "only order-preserving removals"}, "C14.R7:from_ranges:order",
             "from_ranges applies %s to the sorted ranges: the merge loop relies on the order by start" % disorder, lib.where_of(fr))
    # ... and that order is established on every path: the sort (by start) is not skipped under a condition of the
    # data, other than an `is_sorted*` test of the same vector (a condition on anything else - ends, lengths, kinds -
    # lets some unsorted input through to a loop that only ever extends the current range)
    sorts = [bb for bb, t in fr.calls() if re.search(r"<impl \[T\]>::sort\w*$", flow.call_name(t))]
    removes = [bb for bb, t in fr.calls() if re.search(r"Vec::<T(, A)?>::remove$", flow.call_name(t))]
    rets_fr = flow.return_blocks(fr)
    if not sorts:
        r7.anchor_missing("the sort of from_ranges")
    else:
        skipping = flow.reach_avoiding(fr, 0, removes or rets_fr, sorts)
        excused = False
        if skipping:
            tests = [flow.call_name(t) for x in prog.with_closures(fr.id) for _, t in prog.fns[x].calls() if re.search(r"::is_sorted\w*$", flow.call_name(t))]
            excused = bool(tests)
        r7.check(not skipping or excused, {"fn": fr.id, "sort_by_start": "on every path to the merge loop"}, "C14.R7:from_ranges:sort-skipped",
                 "from_ranges can reach its merge loop without having sorted the ranges by start (the sort is conditional): ranges given in decreasing start order that pass the condition lose what lies before the first-listed start", lib.where_of(fr))
    r7.floor(7)

    # W --------------------------------------------------------------------------------------
    # R8 -------------------------------------------------------------------------------------
    r8 = res.rule("C14.R8", "the most recently added range wins wherever it applies: `insert` has no way out that leaves the inserted range behind - every path to a return passes through the place where the inserted range itself is put into the resulting vector")
    ins = prog.require_fn("opening_hours::schedule::Schedule::insert")
    # the inserted range is not Copy: the call it is moved into as a whole (push, iter::once, an array, ...) is where it is put
    puts = []
    for bb, t in ins.calls():
        nm = flow.call_name(t) or ""
        if re.search(r"(mem::drop|mem::forget|ManuallyDrop)", nm):
            continue
        for a in t["args"]:
            pl = lib.operand_place(a)
            if a.get("k") == "move" and pl is not None and not pl["p"] and flow.shape(ins, a, depth=2) == "p2":
                puts.append(bb)
    for bb, b in ins.live_blocks():
        for st in b["stmts"]:
            if st["k"] == "assign" and st["rv"]["k"] == "agg" and any(o.get("k") == "move" and lib.operand_place(o) is not None and not lib.operand_place(o)["p"] and flow.shape(ins, o, depth=2) == "p2" for o in st["rv"]["ops"]):
                puts.append(bb)
    puts = sorted(set(puts))
    rets = [bb for bb, b in ins.live_blocks() if b["term"]["k"] == "return"]
    r8.check(bool(puts), {"fn": "insert", "inserted_range_put_at_blocks": puts}, "C14.R8:ANCHOR", "ANCHOR: insert no longer pushes its argument into a vector of periods", lib.where_of(ins))
    if puts:
        escapes = flow.reach_avoiding(ins, 0, rets, puts)
        r8.check(not escapes, {"fn": "insert", "returns": len(rets), "every_return_after_the_put": True}, "C14.R8:must-put",
                 "Schedule::insert can return without having put the inserted range into the result (an early way out): a range added later is then dropped instead of overriding what it covers", lib.where_of(ins))
    # ... and what was there before reaches the result only cut against the inserted range: no way out returns the
    # receiver itself (its vector edited in place keeps neighbours that overlap the inserted range)
    sh_ret = flow.shape(ins, 0, depth=3)
    alts_ret = [a.strip() for a in (sh_ret[4:-1].split(" | ") if sh_ret.startswith("alt(") else [sh_ret])]
    in_place = [a for a in alts_ret if re.fullmatch(r"p1|\*p1|Schedule\{inner: p1\.inner\}", a)]
    r8.check(not in_place, {"fn": "insert", "returns": [a[:60] for a in alts_ret], "receiver_returned_as_is": False}, "C14.R8:in-place",
             "Schedule::insert has a way out that returns the receiver itself (%s): its periods were not cut against the inserted range, so a neighbour that overlaps it stays - overlapping periods, and the earlier kind wins on the overlap" % in_place, lib.where_of(ins))
    r8.floor(3)

    # R10 ------------------------------------------------------------------------------------
    r10 = res.rule("C14.R10", "the inserted range wins against *every* earlier period it meets: each vector `insert` collects from the receiver's periods comes through an element-wise stage (map / filter_map) whose closure cuts the period against the inserted range - `end <- min(end, inserted.start)` for the periods kept before it, `start <- max(start, inserted.end)` for those kept after it - so no period reaches the result uncut; both cuts exist")
    cuts_seen = set()
    nonempty = {}
    n_coll = 0
    for bb, t in ins.calls():
        if not (flow.call_name(t) or "").endswith("Iterator::collect"):
            continue
        # walk the adaptor chain back to its source
        stages = []
        cur = t["args"][0]
        src = None
        for _ in range(12):
            calls = flow.origin_calls(ins, cur)
            if len(calls) != 1:
                src = flow.shape(ins, cur, depth=4)
                break
            c = calls[0]
            nm = flow.call_names(c)[0]
            if nm.startswith("core::iter::traits::iterator::Iterator::"):
                stages.append((nm.split("::")[-1], c))
                cur = c["args"][0]
            elif re.search(r"(::into_iter|::iter|::iter_mut|::drain)$", nm):
                cur = c["args"][0]
            else:
                src = flow.shape(ins, cur, depth=4)
                break
        while src is not None:
            mm = re.fullmatch(r"[\w:<>]*::(?:iter|into_iter|iter_mut|drain|cloned|copied)\((.*)\)", src)
            if not mm:
                break
            src = mm.group(1)
        if src is None or not re.fullmatch(r"\*?p1(\.inner)?", src):
            continue  # not collected from the receiver's periods
        n_coll += 1
        cut = None
        for kind, c in stages:
            if kind not in ("map", "filter_map") or len(c["args"]) != 2:
                continue
            clo = flow.closure_of_operand(ins, c["args"][1])
            if clo not in prog.fns:
                continue
            caps = [flow.shape(ins, x, depth=6) for x in flow.closure_captures(ins, c["args"][1])]
            for dst, val, _ in flow.stores(prog.fns[clo]):
                m = re.fullmatch(r"(?:\w+::)*(min|max)\((.*), (.*)\)", val)
                if not m:
                    continue
                args = {m.group(2), m.group(3)}
                capref = [a for a in args if re.fullmatch(r"\*?p1\.(\d+)", a)]
                if len(capref) != 1 or dst not in args:
                    continue
                k = int(re.search(r"(\d+)$", capref[0]).group(1))
                cap = caps[k] if k < len(caps) else "?"
                if m.group(1) == "min" and dst == "p2.range.end" and cap == "p2.range.start":
                    cut = "before"
                elif m.group(1) == "max" and dst == "p2.range.start" and cap == "p2.range.end":
                    cut = "after"
                else:
                    continue
                # what is left of the period after the cut is kept only when it is not empty: the closure
                # hands the period on (Some) only on the true edge of `start < end` (strict) on the cut period
                cf = prog.fns[clo]
                guarded = False
                somes = [b_ for b_, st_ in cf.stmts() if st_["k"] == "assign" and st_["rv"]["k"] == "agg" and st_["rv"].get("variant") == "Some"]
                for sbb, _b in cf.live_blocks():
                    d = flow.bool_switch_of(cf, sbb)
                    if not d or d["op"] != "Lt" or d["negated"]:
                        continue
                    if flow.shape(cf, d["a"], depth=4).endswith("p2.range.start") and flow.shape(cf, d["b"], depth=4).endswith("p2.range.end"):
                        if somes and all(cf.dominates(d["true_bb"], b_) and not cf.dominates(d["false_bb"], b_) for b_ in somes):
                            guarded = True
                nonempty[cut] = guarded and kind == "filter_map"
        if cut:
            cuts_seen.add(cut)
        r10.check(cut is not None, {"collect_in_block": bb, "source": src, "stages": [k for k, _ in reversed(stages)], "every_element_cut": cut}, "C14.R10:uncut:%s" % ",".join(k for k, _ in reversed(stages)),
                  "Schedule::insert collects periods of the receiver (%s) without cutting each of them against the inserted range: a period that overlaps the inserted range and is not the one treated afterwards stays whole - overlapping periods, the earlier kind shows through" % " -> ".join(k for k, _ in reversed(stages)), lib.where_of(ins, t))
    r10.check(cuts_seen == {"before", "after"}, {"cuts": sorted(cuts_seen)}, "C14.R10:both-cuts",
              "Schedule::insert does not cut the receiver's periods on both sides of the inserted range (found: %s)" % sorted(cuts_seen), lib.where_of(ins))
    for side in sorted(cuts_seen):
        r10.check(nonempty.get(side, False), {"cut": side, "kept_only_if": "start < end after the cut"}, "C14.R10:nonempty:%s" % side,
                  "Schedule::insert keeps what is left of a period %s the inserted range without testing that it is not empty (`start < end`, strict, on the cut period): a period ending exactly where the inserted range ends leaves a zero-length period of its old kind behind" % side, lib.where_of(ins))
    r10.floor(5)

    witness.run_doctests(ctx, prog, res, "C14.W", "outside the crate a Schedule cannot be built from raw ranges nor its vector reached; twins compile", "c14", floor=4)
