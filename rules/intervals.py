"""A small forward interval analysis over MIR integer locals (single function, with optional
callee summaries). Used where a property needs 'this arithmetic cannot wrap' or 'this index is
in bounds'. Sound over-approximation: joins at merges, widening to the type range in loops."""

import re

import lib

INT_RANGES = {
    "u8": (0, 2**8 - 1), "u16": (0, 2**16 - 1), "u32": (0, 2**32 - 1), "u64": (0, 2**64 - 1), "u128": (0, 2**128 - 1),
    "usize": (0, 2**64 - 1),
    "i8": (-2**7, 2**7 - 1), "i16": (-2**15, 2**15 - 1), "i32": (-2**31, 2**31 - 1), "i64": (-2**63, 2**63 - 1),
    "i128": (-2**127, 2**127 - 1), "isize": (-2**63, 2**63 - 1),
    "bool": (0, 1),
}


def ty_range(ty):
    return INT_RANGES.get(ty)


def join(a, b):
    if a is None:
        return b
    if b is None:
        return a
    return (min(a[0], b[0]), max(a[1], b[1]))


def clamp(r, ty):
    tr = ty_range(ty)
    if tr is None or r is None:
        return r
    if r[0] < tr[0] or r[1] > tr[1]:
        return tr  # wrapped: anything
    return r


def bin_range(op, a, b):
    """Mathematical range of `a op b` (before any wrap); None if unknown."""
    if a is None or b is None:
        return None
    if op in ("Add", "AddWithOverflow", "AddUnchecked"):
        return (a[0] + b[0], a[1] + b[1])
    if op in ("Sub", "SubWithOverflow", "SubUnchecked"):
        return (a[0] - b[1], a[1] - b[0])
    if op in ("Mul", "MulWithOverflow", "MulUnchecked"):
        c = [a[0] * b[0], a[0] * b[1], a[1] * b[0], a[1] * b[1]]
        return (min(c), max(c))
    if op == "Div":
        if b[0] <= 0 <= b[1]:
            return None
        c = [int(a[0] / b[0]), int(a[0] / b[1]), int(a[1] / b[0]), int(a[1] / b[1])]
        return (min(c), max(c))
    if op == "Rem":
        if b[0] <= 0:
            return None
        m = b[1] - 1
        if a[0] >= 0:
            return (0, min(a[1], m))
        return (-m, m)
    if op in ("BitAnd",):
        if a[0] >= 0 and b[0] >= 0:
            return (0, min(a[1], b[1]))
        return None
    return None


class Analysis:
    def __init__(self, fn, seeds=None, field_ranges=None, call_ranges=None):
        """seeds: {local: (lo,hi)}; field_ranges: {(adt, field): (lo,hi)}; call_ranges: callable(term)->range|None"""
        self.fn = fn
        self.field_ranges = field_ranges or {}
        self.call_ranges = call_ranges
        self.env = {}
        for i, l in enumerate(fn.locals):
            if 1 <= i <= fn.j["arg_count"]:
                self.env[i] = ty_range(l["ty"])
        if seeds:
            self.env.update(seeds)
        self.overflow_checks = []  # (bb, term, mathematical range, type, ok)
        self.casts = []  # (bb, stmt, src range, src ty, dst ty, ok)
        self._run()

    def local_ty(self, l):
        return self.fn.locals[l]["ty"]

    def place_range(self, pl):
        fields = lib.place_fields(pl)
        if fields:
            adt, v, n = fields[-1]
            if (adt, n) in self.field_ranges:
                return self.field_ranges[(adt, n)]
            # tuple field of a *WithOverflow result: element 0 is the value
            if adt == "(tuple)" and n == "0" and ("ovf", pl["l"]) in self.env:
                return self.env[("ovf", pl["l"])]
            last = [p for p in pl["p"] if isinstance(p, dict) and "f" in p][-1]
            return ty_range(last["ty"])
        if pl["p"]:
            return None
        return self.env.get(pl["l"], ty_range(self.local_ty(pl["l"])))

    def op_range(self, op):
        if op.get("k") == "const":
            if "int" in op:
                return (op["int"], op["int"])
            return ty_range(op.get("ty", ""))
        return self.place_range(op["pl"])

    def op_ty(self, op):
        if op.get("k") == "const":
            return op.get("ty")
        pl = op["pl"]
        fs = [p for p in pl["p"] if isinstance(p, dict) and "f" in p]
        if fs:
            return fs[-1]["ty"]
        return self.local_ty(pl["l"])

    def _assign(self, l, r, first):
        old = self.env.get(l) if not first.get(l, True) else None
        new = join(old, r) if old is not None else r
        first[l] = False
        if new != self.env.get(l):
            self.env[l] = new
            return True
        return False

    def _run(self):
        fn = self.fn
        for it in range(6):
            changed = False
            first = {}
            self.overflow_checks = []
            self.casts = []
            for bb, b in fn.live_blocks():
                for s in b["stmts"]:
                    if s["k"] != "assign" or s["dst"]["p"]:
                        continue
                    l = s["dst"]["l"]
                    rv = s["rv"]
                    k = rv["k"]
                    ty = self.local_ty(l)
                    r = None
                    if k == "use":
                        r = self.op_range(rv["op"])
                    elif k == "bin":
                        m = bin_range(rv["op"], self.op_range(rv["a"]), self.op_range(rv["b"]))
                        if rv["op"].endswith("WithOverflow"):
                            ety = self.op_ty(rv["a"])
                            self.env[("ovf", l)] = clamp(m, ety) if m is not None else ty_range(ety)
                            self.env[("ovf-math", l)] = (m, ety)
                            continue
                        r = clamp(m, ty) if m is not None else ty_range(ty)
                    elif k == "cast" and rv["ck"].startswith("IntToInt"):
                        src = self.op_range(rv["op"])
                        sty = self.op_ty(rv["op"])
                        tr = ty_range(rv["ty"])
                        ok = src is not None and tr is not None and tr[0] <= src[0] and src[1] <= tr[1]
                        self.casts.append((bb, s, src, sty, rv["ty"], ok))
                        r = src if ok else tr
                    else:
                        r = ty_range(ty)
                    if r is None:
                        r = ty_range(ty)
                    if r is not None:
                        changed |= self._assign(l, r, first)
                t = b["term"]
                if t["k"] == "assert" and t["msg"] in ("Overflow(Shl)", "Overflow(Shr)") and len(t["ops"]) == 2:
                    bits = {"u8": 8, "i8": 8, "u16": 16, "i16": 16, "u32": 32, "i32": 32, "u64": 64, "i64": 64, "usize": 64, "isize": 64, "u128": 128, "i128": 128}.get(self.op_ty(t["ops"][0]))
                    amt = self.op_range(t["ops"][1])
                    ok = bits is not None and amt is not None and 0 <= amt[0] and amt[1] < bits
                    self.overflow_checks.append((bb, t, amt, self.op_ty(t["ops"][0]), ok))
                elif t["k"] == "assert" and t["msg"].startswith("Overflow"):
                    pl = lib.operand_place(t["cond"])
                    if pl is not None and ("ovf-math", pl["l"]) in self.env:
                        m, ety = self.env[("ovf-math", pl["l"])]
                        tr = ty_range(ety)
                        ok = m is not None and tr is not None and tr[0] <= m[0] and m[1] <= tr[1]
                        self.overflow_checks.append((bb, t, m, ety, ok))
                    else:
                        self.overflow_checks.append((bb, t, None, None, False))
                if t["k"] == "call" and not t["dst"]["p"]:
                    l = t["dst"]["l"]
                    r = None
                    if self.call_ranges is not None:
                        r = self.call_ranges(self, t)
                    if r is None:
                        name = lib.callee_id(t["callee"]) or ""
                        if re.search(r"core::convert::num::<impl core::convert::From<\w+> for \w+>::from$", name) and t["args"]:
                            r = self.op_range(t["args"][0])
                    if r is None:
                        r = ty_range(self.local_ty(l))
                    if r is not None:
                        changed |= self._assign(l, r, first)
            if not changed:
                break
        else:
            # no fixpoint: widen everything assigned in the body to its type range
            for bb, s in fn.stmts():
                if s["k"] == "assign" and not s["dst"]["p"]:
                    self.env[s["dst"]["l"]] = ty_range(self.local_ty(s["dst"]["l"]))


# ---- path boxes: exact acceptance region of a function whose branches compare params with constants


def _with(box, p, r):
    b = dict(box)
    b[p] = r
    return b


def path_boxes(fn, target_bb, max_paths=4096):
    """All acyclic paths from entry to target_bb as boxes {param: (lo, hi)} when every branch
    on the way compares an (unmodified) integer parameter with a constant. Returns None when
    some branch is of another form (not analysable by this rule)."""
    params = {i: ty_range(fn.locals[i]["ty"]) for i in range(1, fn.j["arg_count"] + 1)}
    if any(v is None for v in params.values()):
        return None

    def param_of(op):
        pl = lib.operand_place(op)
        if pl is None or pl["p"]:
            return None
        l = pl["l"]
        seen = set()
        while l not in params:
            if l in seen:
                return None
            seen.add(l)
            ds = fn.defs_of(l)
            if len(ds) != 1 or ds[0][1]["k"] != "assign" or ds[0][1]["rv"]["k"] != "use":
                return None
            p2 = lib.operand_place(ds[0][1]["rv"]["op"])
            if p2 is None or p2["p"]:
                return None
            l = p2["l"]
        return l

    boxes = []
    bad = []

    def restrict(box, p, op, c, truth):
        lo, hi = box[p]
        ops = {"Gt": (c + 1, None), "Ge": (c, None), "Lt": (None, c - 1), "Le": (None, c), "Eq": (c, c)}
        neg = {"Gt": "Le", "Ge": "Lt", "Lt": "Ge", "Le": "Gt", "Eq": "Ne", "Ne": "Eq"}
        if not truth:
            op = neg[op]
        if op == "Ne":
            # only representable at the borders; otherwise split
            res = []
            if lo <= c - 1:
                res.append((lo, min(hi, c - 1)))
            if c + 1 <= hi:
                res.append((max(lo, c + 1), hi))
            return [_with(box, p, r) for r in res if r[0] <= r[1]]
        nlo, nhi = ops[op]
        lo2 = lo if nlo is None else max(lo, nlo)
        hi2 = hi if nhi is None else min(hi, nhi)
        if lo2 > hi2:
            return []
        return [_with(box, p, (lo2, hi2))]

    count = [0]

    def walk(bb, box, visited):
        count[0] += 1
        if count[0] > max_paths:
            bad.append("too many paths")
            return
        if bb == target_bb:
            boxes.append(box)
            return
        if bb in visited:
            return
        visited = visited | {bb}
        t = fn.blocks[bb]["term"]
        if t["k"] == "switch":
            import flow
            d = flow.bool_switch_of(fn, bb)
            if d is None or "node" not in d or d["node"]["k"] != "assign":
                bad.append("branch in bb%d is not a comparison" % bb)
                return
            pa, pb = param_of(d["a"]), param_of(d["b"])
            ca, cb = d["a"].get("int") if d["a"].get("k") == "const" else None, d["b"].get("int") if d["b"].get("k") == "const" else None
            op = d["op"]
            if pa is not None and cb is not None:
                p, c = pa, cb
            elif pb is not None and ca is not None:
                p, c = pb, ca
                op = {"Gt": "Lt", "Lt": "Gt", "Ge": "Le", "Le": "Ge", "Eq": "Eq", "Ne": "Ne"}[op]
            else:
                bad.append("branch in bb%d does not compare a parameter with a constant" % bb)
                return
            for truth, nxt in ((True, d["true_bb"]), (False, d["false_bb"])):
                for nb in restrict(box, p, op, c, truth):
                    walk(nxt, nb, visited)
        else:
            for s in fn.succs(bb):
                if not fn.blocks[s]["cleanup"]:
                    walk(s, box, visited)

    walk(0, dict(params), frozenset())
    if bad:
        return None
    return boxes
