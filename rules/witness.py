"""Engine E3: compile-time witnesses. Positive witnesses: the witness crate type-checks with the
group's feature. Negative witnesses: `compile_fail,E0xxx` doctests paired with compiling twins.
Nothing is executed (doctests are `compile_fail` or `no_run`)."""

import fcntl
import hashlib
import os
import re
import shutil
import subprocess

import lib

SRC_WDIR = os.path.join(lib.VERIF, "engines", "witness")
# the witness crate path-depends on /repo; when another tree is analysed (self-test on a scratch
# copy) a copy of the crate with rewritten paths is used instead
WDIR = SRC_WDIR if lib.REPO == "/repo" else os.path.join(lib.CACHE, "witness-src")
TARGET = os.path.join(lib.CACHE, "target-witness")


def _prepare():
    os.makedirs(lib.CACHE, exist_ok=True)
    if WDIR != SRC_WDIR:
        os.makedirs(os.path.join(WDIR, "src"), exist_ok=True)
        for f in os.listdir(os.path.join(SRC_WDIR, "src")):
            shutil.copyfile(os.path.join(SRC_WDIR, "src", f), os.path.join(WDIR, "src", f))
        toml = open(os.path.join(SRC_WDIR, "Cargo.toml")).read().replace('path = "/repo', 'path = "%s' % lib.REPO)
        with open(os.path.join(WDIR, "Cargo.toml"), "w") as fh:
            fh.write(toml)
        for f in ("rust-toolchain.toml", os.path.join(".cargo", "config.toml")):
            if os.path.exists(os.path.join(SRC_WDIR, f)):
                os.makedirs(os.path.dirname(os.path.join(WDIR, f)), exist_ok=True)
                shutil.copyfile(os.path.join(SRC_WDIR, f), os.path.join(WDIR, f))
    src = os.path.join(lib.REPO, "Cargo.lock")
    dst = os.path.join(WDIR, "Cargo.lock")
    stamp = os.path.join(lib.CACHE, "witness-lock.sha")
    if not os.path.exists(src):
        raise lib.CheckerBroken("no Cargo.lock in %s" % lib.REPO)
    h = hashlib.sha256(open(src, "rb").read()).hexdigest()
    old = open(stamp).read() if os.path.exists(stamp) else ""
    if h != old or not os.path.exists(dst):
        shutil.copyfile(src, dst)
        with open(stamp, "w") as fh:
            fh.write(h)


def _env():
    env = dict(os.environ)
    env.update({"CARGO_TARGET_DIR": TARGET, "CARGO_NET_OFFLINE": "true", "RUSTFLAGS": "-Awarnings"})
    for k in ("RUSTC_WRAPPER", "RUSTC_WORKSPACE_WRAPPER"):
        env.pop(k, None)
    return env


def _errors(stderr):
    out = []
    for m in re.finditer(r"^(error(\[E\d+\])?: .*)\n\s+--> (.*)$", stderr, re.M):
        out.append("%s @ %s" % (m.group(1), m.group(3)))
    return out


def run_positive(ctx, prog, res, rid, clause, group):
    if getattr(ctx, "skip_witness", False):
        return True
    r = res.rule(rid, clause)
    with open(os.path.join(lib.CACHE, "lock-witness"), "w") as lk:
        fcntl.flock(lk, fcntl.LOCK_EX)
        _prepare()
        p = subprocess.run(["cargo", "+nightly", "check", "--offline", "--features", group],
                           cwd=WDIR, env=_env(), capture_output=True, text=True)
    src = open(os.path.join(WDIR, "src", group + ".rs")).read()
    n = len(re.findall(r"assert_(send_sync_clone|send_sync|val_send_sync)\s*(::<|\()", src)) + len(re.findall(r"^\s*(pub )?(const )?fn witness_", src, re.M))
    if p.returncode == 0:
        for _ in range(max(n, 1)):
            r.r["obligations"] += 1
            r.r["discharged"] += 1
        r.r["instances"].append({"witness_group": group, "assertions_type_checked": n, "cmd": "cargo +nightly check --features " + group})
        return True
    errs = _errors(p.stderr)
    if not errs:
        raise lib.CheckerBroken("witness crate failed to build without a compiler error:\n" + "\n".join(p.stderr.splitlines()[-30:]))
    # a compile error inside a repository crate means the tree does not build: not our verdict
    ours = [e for e in errs if "src/%s.rs" % group in e or "src/lib.rs" in e]
    if not ours:
        raise lib.CheckerBroken("the repository does not compile for the witness crate:\n" + "\n".join(errs[:10]))
    for e in ours[:10]:
        key = re.sub(r":\d+:\d+$", "", e.split(" @ ")[-1]) + ":" + e.split(":")[0]
        r.fail("%s:%s:%s" % (rid, group, re.sub(r"[^A-Za-z0-9_\[\]]+", "_", e.split(" @ ")[0])[:80]),
               "compile-time witness no longer holds: %s" % e, "engines/witness/src/%s.rs" % group)
    return False


def run_doctests(ctx, prog, res, rid, clause, group, floor):
    """compile_fail witnesses + twins of one group: every doctest must 'pass' (i.e. the
    compile_fail ones fail to compile with the stated error code, the twins compile)."""
    if getattr(ctx, "skip_witness", False):
        return
    r = res.rule(rid, clause)
    with open(os.path.join(lib.CACHE, "lock-witness"), "w") as lk:
        fcntl.flock(lk, fcntl.LOCK_EX)
        _prepare()
        p = subprocess.run(["cargo", "+nightly", "test", "--doc", "--offline", "--features", group, "--", "--test-threads", "8"],
                           cwd=WDIR, env=_env(), capture_output=True, text=True)
    out = p.stdout
    tests = re.findall(r"^test (.+?) \.\.\. (ok|FAILED|ignored)", out, re.M)
    if not tests:
        # the witness library itself no longer compiles against this tree: when the error is in a witness of this
        # group (a const assertion, a bound assertion), that witness no longer holds - a verdict, not a breakdown
        errs = _errors(p.stderr)
        ours = [e for e in errs if "src/%s.rs" % group in e]
        if ours:
            for e in ours[:10]:
                r.fail("%s:%s:%s" % (rid, group, re.sub(r"[^A-Za-z0-9_\[\]]+", "_", e.split(" @ ")[0])[:80]),
                       "compile-time witness no longer holds: %s" % e, "engines/witness/src/%s.rs" % group)
            return
        raise lib.CheckerBroken("witness doctests did not run:\n" + "\n".join((p.stderr or out).splitlines()[-30:]))
    for name, verdict in tests:
        if group + ".rs" not in name and "::" + group + "::" not in name and group not in name:
            continue
        short = re.sub(r" \(line \d+\)", "", name)
        short = re.sub(r"^src/", "", short)
        if verdict == "ok":
            r.ok({"witness": short, "kind": "compile_fail" if "compile fail" in name else "twin compiles"})
        elif verdict == "FAILED":
            kind = "a program that must be rejected now compiles (or fails for another reason)" if "compile fail" in name else "the compiling twin no longer compiles (witness path is stale)"
            r.fail("%s:%s" % (rid, short), "%s: %s" % (short, kind), "engines/witness/src/%s.rs" % group)
    r.floor(floor)
