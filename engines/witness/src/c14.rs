//! witnesses for c14 (filled in below)
