//! C14: the range vector of a `Schedule` is owned by its module.

/// A schedule cannot be forged from an arbitrary (overlapping, unsorted) vector.
/// ```compile_fail,E0451
/// use opening_hours::schedule::Schedule;
/// let _s = Schedule { inner: Vec::new() };
/// ```
/// Twin:
/// ```no_run
/// use opening_hours::schedule::Schedule;
/// let _s = Schedule::new();
/// ```
pub struct LiteralIsPrivate;

/// The vector is not reachable from outside the crate.
/// ```compile_fail,E0616
/// use opening_hours::schedule::Schedule;
/// let mut s = Schedule::new();
/// s.inner.clear();
/// ```
/// Twin:
/// ```no_run
/// use opening_hours::schedule::Schedule;
/// let mut s = Schedule::new();
/// s.is_empty();
/// ```
pub struct VectorIsPrivate;
