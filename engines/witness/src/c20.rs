//! witnesses for c20 (filled in below)
