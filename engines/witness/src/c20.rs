//! C20: `UniqueSortedVec` cannot be built unsorted nor mutated in place from outside its crate.

/// The tuple constructor is private: an unsorted vector cannot be wrapped.
/// ```compile_fail,E0423
/// use opening_hours_syntax::sorted_vec::UniqueSortedVec;
/// let _v: UniqueSortedVec<i32> = UniqueSortedVec(vec![2, 1]);
/// ```
/// Twin (differs only in the offending line):
/// ```no_run
/// use opening_hours_syntax::sorted_vec::UniqueSortedVec;
/// let _v: UniqueSortedVec<i32> = UniqueSortedVec::from(vec![2, 1]);
/// ```
pub struct ConstructorIsPrivate;

/// No `DerefMut`: `Vec` mutators are not reachable through the wrapper.
/// ```compile_fail,E0596
/// use opening_hours_syntax::sorted_vec::UniqueSortedVec;
/// let mut v: UniqueSortedVec<i32> = vec![1, 2].into();
/// v.push(0);
/// ```
/// Twin:
/// ```no_run
/// use opening_hours_syntax::sorted_vec::UniqueSortedVec;
/// let mut v: UniqueSortedVec<i32> = vec![1, 2].into();
/// v.len();
/// ```
pub struct NoMutableDeref;

/// The inner field is private.
/// ```compile_fail,E0616
/// use opening_hours_syntax::sorted_vec::UniqueSortedVec;
/// let mut v: UniqueSortedVec<i32> = vec![1, 2].into();
/// v.0.push(0);
/// ```
/// Twin:
/// ```no_run
/// use opening_hours_syntax::sorted_vec::UniqueSortedVec;
/// let mut v: UniqueSortedVec<i32> = vec![1, 2].into();
/// v.as_slice();
/// ```
pub struct FieldIsPrivate;
