//! C09.R3: the evaluator is parametric in the locale. This locale has an opaque `DateTime`
//! type offering nothing but `Clone` and `+ Duration`; it type-checks against the whole
//! evaluation API, so the library cannot build or inspect localized instants on its own.

use std::ops::Add;

use chrono::{Duration, NaiveDateTime};
use opening_hours::localization::Localize;
use opening_hours::{Context, OpeningHours};

#[derive(Clone)]
pub struct Opaque(NaiveDateTime);

impl Add<Duration> for Opaque {
    type Output = Opaque;

    fn add(self, rhs: Duration) -> Opaque {
        Opaque(self.0 + rhs)
    }
}

#[derive(Clone)]
pub struct OpaqueLocale;

impl Localize for OpaqueLocale {
    type DateTime = Opaque;

    fn naive(&self, dt: Opaque) -> NaiveDateTime {
        dt.0
    }

    fn datetime(&self, naive: NaiveDateTime) -> Opaque {
        Opaque(naive)
    }
}

fn witness_generic_evaluation(oh: OpeningHours, t: Opaque) {
    let oh = oh.with_context(Context::default().with_locale(OpaqueLocale));
    let _: Option<Opaque> = oh.next_change(t.clone());
    let _ = oh.state(t.clone());
    let _ = oh.is_open(t.clone());
    for interval in oh.iter_range(t.clone(), t.clone()) {
        let _: Opaque = interval.range.start;
    }
    for interval in oh.iter_from(t) {
        let _: Opaque = interval.range.end;
    }
}
