//! witnesses for c09 (filled in below)
