//! C15: the representation of compact calendars is not reachable from outside the crate.

/// The bitmap cannot be forged.
/// ```compile_fail,E0603
/// let _m = compact_calendar::CompactMonth(7);
/// ```
/// Twin:
/// ```no_run
/// let _m = compact_calendar::CompactMonth::default();
/// ```
pub struct MonthBitmapIsPrivate;

/// The year window cannot be read or replaced.
/// ```compile_fail,E0616
/// let mut c = compact_calendar::CompactCalendar::default();
/// c.calendar.clear();
/// ```
/// Twin:
/// ```no_run
/// let mut c = compact_calendar::CompactCalendar::default();
/// c.count();
/// ```
pub struct WindowIsPrivate;

/// `first_year` cannot be shifted.
/// ```compile_fail,E0616
/// let mut c = compact_calendar::CompactCalendar::default();
/// c.first_year = 12;
/// ```
/// Twin:
/// ```no_run
/// let mut c = compact_calendar::CompactCalendar::default();
/// c = compact_calendar::CompactCalendar::default();
/// ```
pub struct FirstYearIsPrivate;
