//! witnesses for c15 (filled in below)
