//! Compile-time witnesses (engine E3). Nothing here is executed: positive witnesses hold iff
//! this crate type-checks with the group's feature enabled; negative witnesses are
//! `compile_fail` doctests with an expected error code, each paired with a compiling twin that
//! differs only in the offending line.
#![allow(dead_code, unused_imports, clippy::all)]

fn assert_send_sync_clone<T: Send + Sync + Clone>() {}
fn assert_send_sync<T: Send + Sync>() {}
fn assert_val_send_sync<T: Send + Sync>(_: &T) {}

#[cfg(feature = "c18")]
pub mod c18;
#[cfg(feature = "c09")]
pub mod c09;
#[cfg(feature = "c14")]
pub mod c14;
#[cfg(feature = "c15")]
pub mod c15;
#[cfg(feature = "c17")]
pub mod c17;
#[cfg(feature = "c19")]
pub mod c19;
#[cfg(feature = "c20")]
pub mod c20;
