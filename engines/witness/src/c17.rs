//! witnesses for c17 (filled in below)
