//! C17: comments are a `UniqueSortedVec<Arc<str>>` end to end.

/// A plain vector cannot be stored as comments of a schedule period.
/// ```compile_fail,E0308
/// use std::sync::Arc;
/// use opening_hours::schedule::TimeRange;
/// use opening_hours_syntax::{ExtendedTime, RuleKind};
/// let v: Vec<Arc<str>> = vec![Arc::from("b"), Arc::from("a")];
/// let _t = TimeRange::new(ExtendedTime::MIDNIGHT_00..ExtendedTime::MIDNIGHT_24, RuleKind::Open, v);
/// ```
/// Twin:
/// ```no_run
/// use std::sync::Arc;
/// use opening_hours::schedule::TimeRange;
/// use opening_hours_syntax::{ExtendedTime, RuleKind};
/// let v: Vec<Arc<str>> = vec![Arc::from("b"), Arc::from("a")];
/// let _t = TimeRange::new(ExtendedTime::MIDNIGHT_00..ExtendedTime::MIDNIGHT_24, RuleKind::Open, v.into());
/// ```
pub struct CommentsAreSortedVec;

/// `DateTimeRange` is `non_exhaustive`: it cannot be built with arbitrary comments outside the crate.
/// ```compile_fail,E0639
/// use opening_hours::DateTimeRange;
/// use opening_hours_syntax::RuleKind;
/// let _r = DateTimeRange { range: 0..1, kind: RuleKind::Open, comments: Default::default() };
/// ```
/// Twin:
/// ```no_run
/// use opening_hours::DateTimeRange;
/// use opening_hours_syntax::RuleKind;
/// fn kind(r: &DateTimeRange) -> RuleKind { r.kind }
/// ```
pub struct IntervalsCannotBeForged;
