//! witnesses for c19 (filled in below)
