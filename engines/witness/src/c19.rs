//! C19: `ExtendedTime` values only exist behind the range check.

use opening_hours_syntax::ExtendedTime;

/// W1 (labelled: this one is *evaluated* by rustc's const interpreter while type-checking the
/// crate): `new` accepts exactly the pairs with `minute < 60` and `60 * hour + minute <= 2880`.
const _: () = {
    let mut h: u16 = 0;
    while h < 256 {
        let mut m: u16 = 0;
        while m < 256 {
            let expected = m < 60 && 60 * h + m <= 2880;
            let got = ExtendedTime::new(h as u8, m as u8).is_some();
            assert!(got == expected, "ExtendedTime::new accepts or rejects a wrong (hour, minute) pair");
            m += 1;
        }
        h += 1;
    }
};

fn witness_constants() {
    let _ = (ExtendedTime::MIDNIGHT_00, ExtendedTime::MIDNIGHT_24, ExtendedTime::MIDNIGHT_48);
}

/// The struct literal is not available outside the crate (private fields).
/// ```compile_fail,E0451
/// use opening_hours_syntax::ExtendedTime;
/// let _t = ExtendedTime { hour: 99, minute: 99 };
/// ```
/// Twin:
/// ```no_run
/// use opening_hours_syntax::ExtendedTime;
/// let _t = ExtendedTime::new(99, 99);
/// ```
pub struct LiteralIsPrivate;

/// Fields cannot be written from outside.
/// ```compile_fail,E0616
/// use opening_hours_syntax::ExtendedTime;
/// let mut t = ExtendedTime::new(10, 0).unwrap();
/// t.hour = 99;
/// ```
/// Twin:
/// ```no_run
/// use opening_hours_syntax::ExtendedTime;
/// let mut t = ExtendedTime::new(10, 0).unwrap();
/// t = t.add_hours(1).unwrap();
/// ```
pub struct FieldsArePrivate;
