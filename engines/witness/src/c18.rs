//! C18.R6: the evaluation types are `Send + Sync + Clone`, the iterator returned by
//! `iter_range` is `Send + Sync`.

use chrono::NaiveDateTime;
use compact_calendar::CompactCalendar;
use opening_hours::localization::{Coordinates, Country, NoLocation, TzLocation};
use opening_hours::schedule::Schedule;
use opening_hours::{Context, ContextHolidays, DateTimeRange, OpeningHours};

use crate::{assert_send_sync, assert_send_sync_clone, assert_val_send_sync};

const _: fn() = || {
    assert_send_sync_clone::<OpeningHours<NoLocation>>();
    assert_send_sync_clone::<OpeningHours<TzLocation<chrono_tz::Tz>>>();
    assert_send_sync_clone::<OpeningHours<TzLocation<chrono::Utc>>>();
    assert_send_sync_clone::<Context<NoLocation>>();
    assert_send_sync_clone::<Context<TzLocation<chrono_tz::Tz>>>();
    assert_send_sync_clone::<ContextHolidays>();
    assert_send_sync_clone::<Schedule>();
    assert_send_sync_clone::<CompactCalendar>();
    assert_send_sync_clone::<DateTimeRange>();
    assert_send_sync_clone::<DateTimeRange<chrono::DateTime<chrono_tz::Tz>>>();
    assert_send_sync_clone::<opening_hours_syntax::rules::OpeningHoursExpression>();
    assert_send_sync_clone::<Coordinates>();
    assert_send_sync_clone::<Country>();
    assert_send_sync_clone::<NoLocation>();
    assert_send_sync_clone::<TzLocation<chrono_tz::Tz>>();
};

fn iterators_are_send_sync(
    oh: &OpeningHours<NoLocation>,
    oh_tz: &OpeningHours<TzLocation<chrono_tz::Tz>>,
    a: NaiveDateTime,
    b: chrono::DateTime<chrono_tz::Tz>,
) {
    assert_val_send_sync(&oh.iter_range(a, a));
    assert_val_send_sync(&oh.iter_from(a));
    assert_val_send_sync(&oh_tz.iter_range(b.clone(), b.clone()));
    assert_val_send_sync(&oh_tz.iter_from(b));
}
