use pest_meta::ast::Expr;
use pest_meta::parser::{self, Rule};

fn esc(s: &str) -> String {
    let mut out = String::from("\"");
    for c in s.chars() {
        match c {
            '"' => out.push_str("\\\""),
            '\\' => out.push_str("\\\\"),
            '\n' => out.push_str("\\n"),
            '\r' => out.push_str("\\r"),
            '\t' => out.push_str("\\t"),
            c if (c as u32) < 0x20 => out.push_str(&format!("\\u{:04x}", c as u32)),
            c => out.push(c),
        }
    }
    out.push('"');
    out
}

fn node(n: &Expr) -> String {
    let un = |k: &str, a: &Expr| format!("{{\"k\":\"{k}\",\"a\":{}}}", node(a));
    match n {
        Expr::Str(s) => format!("{{\"k\":\"str\",\"s\":{}}}", esc(s)),
        Expr::Insens(s) => format!("{{\"k\":\"insens\",\"s\":{}}}", esc(s)),
        Expr::Range(a, b) => format!("{{\"k\":\"range\",\"lo\":{},\"hi\":{}}}", esc(a), esc(b)),
        Expr::Ident(s) => format!("{{\"k\":\"ident\",\"s\":{}}}", esc(s)),
        Expr::PeekSlice(a, b) => format!("{{\"k\":\"peek\",\"a\":{a},\"b\":{}}}", b.map(|x| x.to_string()).unwrap_or("null".into())),
        Expr::PosPred(a) => un("pos", a),
        Expr::NegPred(a) => un("neg", a),
        Expr::Seq(a, b) => format!("{{\"k\":\"seq\",\"a\":{},\"b\":{}}}", node(a), node(b)),
        Expr::Choice(a, b) => format!("{{\"k\":\"choice\",\"a\":{},\"b\":{}}}", node(a), node(b)),
        Expr::Opt(a) => un("opt", a),
        Expr::Rep(a) => un("rep", a),
        Expr::RepOnce(a) => un("rep1", a),
        Expr::RepExact(a, n) => format!("{{\"k\":\"repn\",\"a\":{},\"min\":{n},\"max\":{n}}}", node(a)),
        Expr::RepMin(a, n) => format!("{{\"k\":\"repn\",\"a\":{},\"min\":{n},\"max\":null}}", node(a)),
        Expr::RepMax(a, n) => format!("{{\"k\":\"repn\",\"a\":{},\"min\":0,\"max\":{n}}}", node(a)),
        Expr::RepMinMax(a, lo, hi) => format!("{{\"k\":\"repn\",\"a\":{},\"min\":{lo},\"max\":{hi}}}", node(a)),
        Expr::Push(a) => un("push", a),
        #[allow(unreachable_patterns)]
        other => format!("{{\"k\":\"unsupported\",\"dbg\":{}}}", esc(&format!("{other:?}"))),
    }
}

fn main() {
    let path = std::env::args().nth(1).expect("usage: grammardump <grammar.pest>");
    let src = std::fs::read_to_string(&path).expect("cannot read grammar");
    let pairs = match parser::parse(Rule::grammar_rules, &src) {
        Ok(p) => p,
        Err(e) => {
            eprintln!("grammar does not parse: {e}");
            std::process::exit(3);
        }
    };
    let rules = match parser::consume_rules(pairs) {
        Ok(r) => r,
        Err(es) => {
            for e in es {
                eprintln!("grammar error: {e}");
            }
            std::process::exit(3);
        }
    };
    let mut out = String::from("{\"rules\":[");
    for (i, r) in rules.iter().enumerate() {
        if i > 0 {
            out.push(',');
        }
        let needle = format!("\n{} =", r.name);
        let line = match format!("\n{src}").find(&needle) {
            Some(pos) => src[..pos.min(src.len())].matches('\n').count() + 1,
            None => 0,
        };
        out.push_str(&format!(
            "{{\"name\":{},\"ty\":\"{:?}\",\"line\":{},\"expr\":{}}}",
            esc(&r.name),
            r.ty,
            line,
            node(&r.expr)
        ));
    }
    out.push_str("]}");
    println!("{out}");
}
