//! Minimal JSON value + serializer (the driver has no cargo dependencies).

use std::fmt::Write;

#[derive(Clone, Debug)]
pub enum J {
    Null,
    Bool(bool),
    Int(i128),
    Str(String),
    Arr(Vec<J>),
    Obj(Vec<(&'static str, J)>),
}

impl J {
    pub fn s(x: impl Into<String>) -> J {
        J::Str(x.into())
    }

    pub fn opt_s(x: Option<String>) -> J {
        match x {
            Some(x) => J::Str(x),
            None => J::Null,
        }
    }

    pub fn write(&self, out: &mut String) {
        match self {
            J::Null => out.push_str("null"),
            J::Bool(b) => out.push_str(if *b { "true" } else { "false" }),
            J::Int(i) => {
                // Python reads arbitrary precision integers
                let _ = write!(out, "{i}");
            }
            J::Str(s) => write_str(s, out),
            J::Arr(v) => {
                out.push('[');
                for (i, x) in v.iter().enumerate() {
                    if i > 0 {
                        out.push(',');
                    }
                    x.write(out);
                }
                out.push(']');
            }
            J::Obj(v) => {
                out.push('{');
                for (i, (k, x)) in v.iter().enumerate() {
                    if i > 0 {
                        out.push(',');
                    }
                    write_str(k, out);
                    out.push(':');
                    x.write(out);
                }
                out.push('}');
            }
        }
    }
}

fn write_str(s: &str, out: &mut String) {
    out.push('"');
    for c in s.chars() {
        match c {
            '"' => out.push_str("\\\""),
            '\\' => out.push_str("\\\\"),
            '\n' => out.push_str("\\n"),
            '\r' => out.push_str("\\r"),
            '\t' => out.push_str("\\t"),
            c if (c as u32) < 0x20 => {
                let _ = write!(out, "\\u{:04x}", c as u32);
            }
            c => out.push(c),
        }
    }
    out.push('"');
}

#[macro_export]
macro_rules! obj {
    ( $( $k:literal : $v:expr ),* $(,)? ) => {
        $crate::json::J::Obj(vec![ $( ($k, $v) ),* ])
    };
}
