//! E1 `mirfacts`: a rustc driver that dumps, for the crate being compiled, a JSON fact base
//! (MIR bodies with resolved callees and field names, ADTs, statics, impls, unsafe sites).
//!
//! Used through `RUSTC_WORKSPACE_WRAPPER` under `cargo +nightly check`. One file per rustc
//! process is written to `$MIRFACTS_OUT`.

#![feature(rustc_private)]
#![allow(clippy::too_many_lines)]

extern crate rustc_abi;
extern crate rustc_data_structures;
extern crate rustc_driver;
extern crate rustc_hir;
extern crate rustc_interface;
extern crate rustc_middle;
extern crate rustc_span;

mod json;

use std::collections::{BTreeMap, HashSet};
use std::hash::{Hash, Hasher};

use json::J;
use rustc_driver::{Callbacks, Compilation};
use rustc_hir::def::DefKind;
use rustc_hir::def_id::{DefId, LocalDefId, LOCAL_CRATE};
use rustc_interface::interface::Compiler;
use rustc_middle::mir::{
    self, AggregateKind, BasicBlock, Body, Const, Operand, Place, ProjectionElem, Rvalue,
    StatementKind, TerminatorKind,
};
use rustc_middle::ty::print::with_no_trimmed_paths;
use rustc_middle::ty::{self, GenericArgsRef, Instance, Ty, TyCtxt, TypingEnv};
use rustc_span::{ExpnKind, Span};

struct Cb;

impl Callbacks for Cb {
    fn after_analysis<'tcx>(&mut self, _c: &Compiler, tcx: TyCtxt<'tcx>) -> Compilation {
        if let Ok(out_dir) = std::env::var("MIRFACTS_OUT") {
            dump(tcx, &out_dir);
        }
        Compilation::Continue
    }
}

fn main() {
    let mut args: Vec<String> = std::env::args().collect();
    // RUSTC_WORKSPACE_WRAPPER / RUSTC_WRAPPER convention: argv[1] is the real rustc.
    if args.len() > 1 && (args[1].ends_with("rustc") || args[1].contains("/rustc")) {
        args.remove(1);
    }
    rustc_driver::run_compiler(&args, &mut Cb);
}

// ---------------------------------------------------------------------------------------------

thread_local! {
    static LOCAL_PREFIX: std::cell::RefCell<String> = const { std::cell::RefCell::new(String::new()) };
}

/// Replace the `crate::` prefix printed for local items by the name chosen for this crate, so
/// that paths are globally unique and identical from whichever crate they are printed.
fn fix_crate(s: String) -> String {
    if !s.contains("crate::") {
        return s;
    }
    let prefix = LOCAL_PREFIX.with(|p| p.borrow().clone());
    let bytes = s.as_bytes();
    let mut out = String::with_capacity(s.len() + 16);
    let mut i = 0;
    while i < bytes.len() {
        if s[i..].starts_with("crate::")
            && (i == 0 || !(bytes[i - 1].is_ascii_alphanumeric() || bytes[i - 1] == b'_'))
        {
            out.push_str(&prefix);
            out.push_str("::");
            i += "crate::".len();
        } else {
            let ch = s[i..].chars().next().unwrap();
            out.push(ch);
            i += ch.len_utf8();
        }
    }
    out
}

macro_rules! pp {
    ($e:expr) => {
        fix_crate(rustc_middle::ty::print::with_crate_prefix!(rustc_middle::ty::print::with_no_visible_paths!(with_no_trimmed_paths!($e))))
    };
}

fn crate_s(tcx: TyCtxt<'_>, did: DefId) -> String {
    if did.is_local() {
        LOCAL_PREFIX.with(|p| p.borrow().clone())
    } else {
        tcx.crate_name(did.krate).to_string()
    }
}

fn ty_s<'tcx>(ty: Ty<'tcx>) -> String {
    pp!(ty.to_string())
}

fn path_s(tcx: TyCtxt<'_>, did: DefId) -> String {
    pp!(tcx.def_path_str(did))
}

fn path_args_s<'tcx>(tcx: TyCtxt<'tcx>, did: DefId, args: GenericArgsRef<'tcx>) -> String {
    pp!(tcx.def_path_str_with_args(did, args))
}

fn span_j(tcx: TyCtxt<'_>, span: Span) -> J {
    let sm = tcx.sess.source_map();
    let cs = span.source_callsite();
    let lo = sm.lookup_char_pos(cs.lo());
    let hi = sm.lookup_char_pos(cs.hi());
    let file = match &lo.file.name {
        rustc_span::FileName::Real(r) => format!("{}", r.path(rustc_span::RemapPathScopeComponents::DIAGNOSTICS).display()),
        other => format!("{other:?}"),
    };
    obj! {
        "file": J::s(file),
        "line": J::Int(lo.line as i128),
        "col": J::Int(lo.col.0 as i128 + 1),
        "end_line": J::Int(hi.line as i128),
        "exp": expn_chain(span),
    }
}

/// Chain of expansions a span comes from, innermost first: `["macro:assert_eq"]`,
/// `["desugar:QuestionMark"]`, `["derive:PartialEq"]`; `[]` for hand-written code.
fn expn_chain(mut span: Span) -> J {
    let mut res = Vec::new();
    let mut guard = 0;
    while span.from_expansion() && guard < 32 {
        let data = span.ctxt().outer_expn_data();
        let s = match data.kind {
            ExpnKind::Root => "root".to_string(),
            ExpnKind::Macro(kind, name) => format!("{}:{}", format!("{kind:?}").to_lowercase(), name),
            ExpnKind::AstPass(p) => format!("astpass:{p:?}"),
            ExpnKind::Desugaring(d) => format!("desugar:{d:?}"),
        };
        res.push(J::Str(s));
        span = data.call_site;
        guard += 1;
    }
    J::Arr(res)
}

struct Cx<'tcx> {
    tcx: TyCtxt<'tcx>,
    seen_enums: std::cell::RefCell<std::collections::HashSet<DefId>>,
}

impl<'tcx> Cx<'tcx> {
    fn place_j(&self, body: &Body<'tcx>, place: &Place<'tcx>) -> J {
        let tcx = self.tcx;
        let mut projs = Vec::new();
        let mut pty = mir::PlaceTy::from_ty(body.local_decls[place.local].ty);
        for elem in place.projection.iter() {
            let j = match elem {
                ProjectionElem::Deref => J::s("*"),
                ProjectionElem::Field(f, fty) => {
                    let base = pty.ty;
                    match base.kind() {
                        ty::Adt(def, _) => {
                            let vidx = pty.variant_index.unwrap_or(rustc_abi::FIRST_VARIANT);
                            let variant = def.variant(vidx);
                            let fname = variant.fields[f].name.to_string();
                            obj! {
                                "f": J::Int(f.index() as i128),
                                "n": J::s(fname),
                                "adt": J::s(path_s(tcx, def.did())),
                                "v": J::s(variant.name.to_string()),
                                "ty": J::s(ty_s(fty)),
                            }
                        }
                        ty::Tuple(_) => obj! {
                            "f": J::Int(f.index() as i128),
                            "n": J::s(f.index().to_string()),
                            "adt": J::s("(tuple)"),
                            "v": J::s(""),
                            "ty": J::s(ty_s(fty)),
                        },
                        ty::Closure(cdid, _) => obj! {
                            "f": J::Int(f.index() as i128),
                            "n": J::s(f.index().to_string()),
                            "adt": J::s(format!("(closure {})", path_s(tcx, *cdid))),
                            "v": J::s(""),
                            "ty": J::s(ty_s(fty)),
                        },
                        _ => obj! {
                            "f": J::Int(f.index() as i128),
                            "n": J::s(f.index().to_string()),
                            "adt": J::s(format!("(other {})", ty_s(base))),
                            "v": J::s(""),
                            "ty": J::s(ty_s(fty)),
                        },
                    }
                }
                ProjectionElem::Downcast(name, vidx) => {
                    let vname = match name {
                        Some(n) => n.to_string(),
                        None => match pty.ty.kind() {
                            ty::Adt(def, _) => def.variant(vidx).name.to_string(),
                            _ => format!("{}", vidx.index()),
                        },
                    };
                    obj! { "dc": J::s(vname) }
                }
                ProjectionElem::Index(l) => obj! { "ix": J::Int(l.index() as i128) },
                ProjectionElem::ConstantIndex { offset, min_length, from_end } => obj! {
                    "ci": J::Int(offset as i128),
                    "min_len": J::Int(min_length as i128),
                    "from_end": J::Bool(from_end),
                },
                ProjectionElem::Subslice { from, to, from_end } => obj! {
                    "sub": J::Arr(vec![J::Int(from as i128), J::Int(to as i128)]),
                    "from_end": J::Bool(from_end),
                },
                other => obj! { "other": J::s(format!("{other:?}")) },
            };
            projs.push(j);
            pty = pty.projection_ty(tcx, elem);
        }
        obj! { "l": J::Int(place.local.index() as i128), "p": J::Arr(projs) }
    }

    fn const_j(&self, body: &Body<'tcx>, owner: DefId, c: &mir::ConstOperand<'tcx>) -> J {
        let tcx = self.tcx;
        let ty = c.const_.ty();
        let mut fields: Vec<(&'static str, J)> = vec![("k", J::s("const")), ("ty", J::s(ty_s(ty)))];
        let _ = body;

        // Function items used as values
        if let ty::FnDef(did, args) = ty.kind() {
            fields.push(("fn", self.callee_j(owner, *did, args)));
        }
        if let ty::Closure(did, _) = ty.kind() {
            fields.push(("closure", J::s(path_s(tcx, *did))));
        }

        // Named constant / static / promoted
        match c.const_ {
            Const::Unevaluated(uv, _) => {
                fields.push(("item", J::s(path_s(tcx, uv.def))));
                if let Some(p) = uv.promoted {
                    fields.push(("promoted", J::Int(p.index() as i128)));
                }
            }
            Const::Val(..) | Const::Ty(..) => {}
        }
        if let Some(did) = c.check_static_ptr(tcx) {
            fields.push(("static", J::s(path_s(tcx, did))));
            fields.push(("static_mut", J::Bool(tcx.is_mutable_static(did))));
            let sty = tcx.type_of(did).instantiate_identity().skip_norm_wip();
            let senv = TypingEnv::fully_monomorphized();
            fields.push(("static_freeze", J::Bool(sty.is_freeze(tcx, senv))));
            fields.push(("static_ty", J::s(ty_s(sty))));
            fields.push(("static_crate", J::s(crate_s(tcx, did))));
        }

        // Try to evaluate
        let tenv = TypingEnv::post_analysis(tcx, owner);
        let evaluated = c.const_.eval(tcx, tenv, c.span).ok();
        if let Some(val) = evaluated {
            if let Some(int) = val.try_to_scalar_int() {
                let size = int.size();
                let bits = int.to_bits(size);
                let signed = matches!(ty.kind(), ty::Int(_));
                let v: i128 = if signed { int.to_int(size) } else { bits as i128 };
                fields.push(("int", J::Int(v)));
                if let ty::Adt(def, _) = ty.kind() {
                    if def.is_enum() {
                        for (vidx, discr) in def.discriminants(tcx) {
                            if discr.val == bits {
                                fields.push(("variant", J::s(def.variant(vidx).name.to_string())));
                            }
                        }
                    }
                }
                if ty.is_bool() {
                    fields.push(("bool", J::Bool(bits != 0)));
                }
                if ty.is_char() {
                    if let Some(ch) = char::from_u32(bits as u32) {
                        fields.push(("char", J::s(ch.to_string())));
                    }
                }
            }
            let pretty = pp!({
                let mut s = String::new();
                use std::fmt::Write;
                let _ = write!(s, "{}", Const::Val(val, ty));
                s
            });
            fields.push(("v", J::s(pretty)));
            // string / byte-string literals
            if let ty::Ref(_, inner, _) = ty.kind() {
                let is_slice_val = matches!(val, mir::ConstValue::Slice { .. });
                if inner.is_str() && is_slice_val {
                    if let Some(bytes) = val.try_get_slice_bytes_for_diagnostics(tcx) {
                        if let Ok(s) = std::str::from_utf8(bytes) {
                            fields.push(("str", J::s(s)));
                        }
                    }
                }
                if let ty::Array(elem, _) | ty::Slice(elem) = inner.kind() {
                    if *elem == tcx.types.u8 {
                        let bytes: Option<Vec<u8>> = if is_slice_val {
                            val.try_get_slice_bytes_for_diagnostics(tcx).map(|b| b.to_vec())
                        } else if let mir::ConstValue::Scalar(rustc_middle::mir::interpret::Scalar::Ptr(ptr, _)) = val {
                            let (prov, offset) = ptr.into_raw_parts();
                            match tcx.try_get_global_alloc(prov.alloc_id()) {
                                Some(rustc_middle::mir::interpret::GlobalAlloc::Memory(alloc)) => {
                                    let alloc = alloc.inner();
                                    let len = alloc.len();
                                    let start = offset.bytes() as usize;
                                    Some(
                                        alloc
                                            .inspect_with_uninit_and_ptr_outside_interpreter(start..len)
                                            .to_vec(),
                                    )
                                }
                                _ => None,
                            }
                        } else {
                            None
                        };
                        if let Some(bytes) = bytes {
                            fields.push((
                                "bytes",
                                J::Arr(bytes.iter().map(|b| J::Int(*b as i128)).collect()),
                            ));
                        }
                    }
                }
            }
        } else {
            let pretty = pp!(format!("{}", c.const_));
            fields.push(("v", J::s(pretty)));
            fields.push(("uneval", J::Bool(true)));
        }
        J::Obj(fields)
    }

    fn operand_j(&self, body: &Body<'tcx>, owner: DefId, op: &Operand<'tcx>) -> J {
        match op {
            Operand::Copy(p) => obj! { "k": J::s("copy"), "pl": self.place_j(body, p) },
            Operand::Move(p) => obj! { "k": J::s("move"), "pl": self.place_j(body, p) },
            Operand::Constant(c) => self.const_j(body, owner, c),
            #[allow(unreachable_patterns)]
            other => obj! { "k": J::s("other"), "dbg": J::s(format!("{other:?}")) },
        }
    }

    fn callee_j(&self, owner: DefId, did: DefId, args: GenericArgsRef<'tcx>) -> J {
        let tcx = self.tcx;
        let kind = tcx.def_kind(did);
        let mut fields: Vec<(&'static str, J)> = vec![
            ("def", J::s(path_s(tcx, did))),
            ("path_args", J::s(path_args_s(tcx, did, args))),
            ("crate", J::s(crate_s(tcx, did))),
            ("kind", J::s(format!("{kind:?}"))),
            ("name", J::s(tcx.item_name(did).to_string())),
            (
                "gargs",
                J::Arr(args.iter().map(|a| J::s(pp!(a.to_string()))).collect()),
            ),
        ];

        if matches!(kind, DefKind::Ctor(..)) {
            // tuple struct / variant constructor used as a function
            let parent = tcx.parent(did);
            let (adt_did, variant) = match tcx.def_kind(parent) {
                DefKind::Variant => (tcx.parent(parent), Some(tcx.item_name(parent).to_string())),
                _ => (parent, None),
            };
            fields.push(("ctor_adt", J::s(path_s(tcx, adt_did))));
            fields.push(("ctor_variant", J::opt_s(variant)));
        }

        if let Some(assoc) = tcx.opt_associated_item(did) {
            let container = assoc.container_id(tcx);
            match tcx.def_kind(container) {
                DefKind::Trait => {
                    fields.push(("trait", J::s(path_s(tcx, container))));
                    if let Some(self_ty) = args.types().next() {
                        fields.push(("self_ty", J::s(ty_s(self_ty))));
                    }
                }
                DefKind::Impl { of_trait } => {
                    if of_trait {
                        let tr = tcx.impl_trait_ref(container);
                        let tr = tr.instantiate_identity().skip_norm_wip();
                        fields.push(("trait", J::s(path_s(tcx, tr.def_id))));
                    }
                    let self_ty = tcx.type_of(container).instantiate(tcx, args).skip_norm_wip();
                    fields.push(("self_ty", J::s(ty_s(self_ty))));
                }
                _ => {}
            }
        }

        // Signature
        if matches!(kind, DefKind::Fn | DefKind::AssocFn | DefKind::Ctor(..)) {
            let sig = tcx.fn_sig(did).instantiate(tcx, args).skip_norm_wip();
            let sig = tcx.instantiate_bound_regions_with_erased(sig);
            fields.push(("inputs", J::Arr(sig.inputs().iter().map(|t| J::s(ty_s(*t))).collect())));
            fields.push(("output", J::s(ty_s(sig.output()))));
            fields.push(("diverges", J::Bool(sig.output().is_never())));
            if matches!(kind, DefKind::Fn | DefKind::AssocFn) {
                let names: Vec<J> = tcx
                    .fn_arg_idents(did)
                    .iter()
                    .map(|i| match i {
                        Some(i) => J::s(i.name.to_string()),
                        None => J::Null,
                    })
                    .collect();
                fields.push(("arg_names", J::Arr(names)));
            }
        }

        // Resolution through the trait system
        if matches!(kind, DefKind::Fn | DefKind::AssocFn) {
            let tenv = TypingEnv::post_analysis(tcx, owner);
            match Instance::try_resolve(tcx, tenv, did, args) {
                Ok(Some(inst)) => {
                    let rdid = inst.def_id();
                    let ikind = match inst.def {
                        ty::InstanceKind::Item(_) => "item".to_string(),
                        other => {
                            let s = format!("{other:?}");
                            s.split('(').next().unwrap_or("").to_string()
                        }
                    };
                    fields.push((
                        "resolved",
                        obj! {
                            "def": J::s(path_s(tcx, rdid)),
                            "path_args": J::s(path_args_s(tcx, rdid, inst.args)),
                            "crate": J::s(crate_s(tcx, rdid)),
                            "ikind": J::s(ikind),
                            "kind": J::s(format!("{:?}", tcx.def_kind(rdid))),
                        },
                    ));
                }
                Ok(None) => fields.push(("resolved", J::Null)),
                Err(_) => fields.push(("resolved", J::Null)),
            }
        }

        J::Obj(fields)
    }

    fn rvalue_j(&self, body: &Body<'tcx>, owner: DefId, rv: &Rvalue<'tcx>) -> J {
        let tcx = self.tcx;
        match rv {
            Rvalue::Use(op, ..) => obj! { "k": J::s("use"), "op": self.operand_j(body, owner, op) },
            Rvalue::Ref(_, bk, p) => obj! {
                "k": J::s("ref"),
                "mut": J::Bool(matches!(bk, mir::BorrowKind::Mut { .. })),
                "pl": self.place_j(body, p),
            },
            Rvalue::RawPtr(m, p) => obj! {
                "k": J::s("rawptr"),
                "mut": J::Bool(format!("{m:?}").contains("Mut")),
                "pl": self.place_j(body, p),
            },
            Rvalue::Cast(kind, op, ty) => obj! {
                "k": J::s("cast"),
                "ck": J::s(format!("{kind:?}")),
                "op": self.operand_j(body, owner, op),
                "ty": J::s(ty_s(*ty)),
            },
            Rvalue::BinaryOp(op, ab) => obj! {
                "k": J::s("bin"),
                "op": J::s(format!("{op:?}")),
                "a": self.operand_j(body, owner, &ab.0),
                "b": self.operand_j(body, owner, &ab.1),
            },
            Rvalue::UnaryOp(op, a) => obj! {
                "k": J::s("un"),
                "op": J::s(format!("{op:?}")),
                "a": self.operand_j(body, owner, a),
            },
            Rvalue::Discriminant(p) => obj! { "k": J::s("discr"), "pl": self.place_j(body, p) },
            Rvalue::CopyForDeref(p) => obj! {
                "k": J::s("use"),
                "op": obj! { "k": J::s("copy"), "pl": self.place_j(body, p) },
            },
            Rvalue::Repeat(op, n) => obj! {
                "k": J::s("repeat"),
                "op": self.operand_j(body, owner, op),
                "n": J::s(pp!(n.to_string())),
            },
            Rvalue::Aggregate(kind, ops) => {
                let ops_j: Vec<J> = ops.iter().map(|o| self.operand_j(body, owner, o)).collect();
                match &**kind {
                    AggregateKind::Adt(did, vidx, args, _, active) => {
                        let def = tcx.adt_def(*did);
                        let variant = def.variant(*vidx);
                        let names: Vec<J> = match active {
                            Some(f) => vec![J::s(variant.fields[*f].name.to_string())],
                            None => variant.fields.iter().map(|f| J::s(f.name.to_string())).collect(),
                        };
                        obj! {
                            "k": J::s("agg"),
                            "ak": J::s("adt"),
                            "adt": J::s(path_s(tcx, *did)),
                            "variant": J::s(variant.name.to_string()),
                            "fields": J::Arr(names),
                            "gargs": J::Arr(args.iter().map(|a| J::s(pp!(a.to_string()))).collect()),
                            "ops": J::Arr(ops_j),
                        }
                    }
                    AggregateKind::Tuple => obj! { "k": J::s("agg"), "ak": J::s("tuple"), "ops": J::Arr(ops_j) },
                    AggregateKind::Array(t) => obj! {
                        "k": J::s("agg"), "ak": J::s("array"), "elem": J::s(ty_s(*t)), "ops": J::Arr(ops_j),
                    },
                    AggregateKind::Closure(did, _) => obj! {
                        "k": J::s("agg"), "ak": J::s("closure"), "closure": J::s(path_s(tcx, *did)), "ops": J::Arr(ops_j),
                    },
                    other => obj! {
                        "k": J::s("agg"), "ak": J::s("other"), "dbg": J::s(format!("{other:?}")), "ops": J::Arr(ops_j),
                    },
                }
            }
            other => obj! { "k": J::s("other"), "dbg": J::s(format!("{other:?}")) },
        }
    }

    fn body_j(&self, owner: DefId, body: &Body<'tcx>) -> Vec<(&'static str, J)> {
        let tcx = self.tcx;
        // locals
        let mut names: BTreeMap<usize, String> = BTreeMap::new();
        for vdi in &body.var_debug_info {
            if let mir::VarDebugInfoContents::Place(p) = &vdi.value {
                if p.projection.is_empty() {
                    names.entry(p.local.index()).or_insert_with(|| vdi.name.to_string());
                }
            }
        }
        let locals: Vec<J> = body
            .local_decls
            .iter_enumerated()
            .map(|(l, d)| {
                let adt = match d.ty.peel_refs().kind() {
                    ty::Adt(def, _) => {
                        if def.is_enum() && !def.did().is_local() {
                            self.seen_enums.borrow_mut().insert(def.did());
                        }
                        J::s(path_s(tcx, def.did()))
                    }
                    _ => J::Null,
                };
                obj! {
                    "ty": J::s(ty_s(d.ty)),
                    "name": J::opt_s(names.get(&l.index()).cloned()),
                    "adt": adt,
                }
            })
            .collect();

        let doms = body.basic_blocks.dominators();
        let mut blocks = Vec::new();
        for (bb, data) in body.basic_blocks.iter_enumerated() {
            let mut stmts = Vec::new();
            for st in &data.statements {
                match &st.kind {
                    StatementKind::Assign(b) => {
                        let (place, rv) = &**b;
                        stmts.push(obj! {
                            "k": J::s("assign"),
                            "dst": self.place_j(body, place),
                            "rv": self.rvalue_j(body, owner, rv),
                            "sp": span_j(tcx, st.source_info.span),
                        });
                    }
                    StatementKind::SetDiscriminant { place, variant_index } => {
                        let vname = match place.ty(&body.local_decls, tcx).ty.kind() {
                            ty::Adt(def, _) => def.variant(*variant_index).name.to_string(),
                            _ => variant_index.index().to_string(),
                        };
                        stmts.push(obj! {
                            "k": J::s("setdiscr"),
                            "dst": self.place_j(body, place),
                            "variant": J::s(vname),
                        });
                    }
                    StatementKind::StorageLive(_)
                    | StatementKind::StorageDead(_)
                    | StatementKind::Nop
                    | StatementKind::FakeRead(..)
                    | StatementKind::PlaceMention(..)
                    | StatementKind::AscribeUserType(..)
                    | StatementKind::Coverage(..)
                    | StatementKind::ConstEvalCounter => {}
                    other => stmts.push(obj! { "k": J::s("other"), "dbg": J::s(format!("{other:?}")) }),
                }
            }
            let term = data.terminator();
            let bbj = |b: &BasicBlock| J::Int(b.index() as i128);
            let tj = match &term.kind {
                TerminatorKind::Goto { target } => obj! { "k": J::s("goto"), "t": bbj(target) },
                TerminatorKind::SwitchInt { discr, targets } => {
                    let dty = discr.ty(&body.local_decls, tcx);
                    let signed = matches!(dty.kind(), ty::Int(_));
                    let bits = match dty.kind() {
                        ty::Int(i) => i.bit_width().unwrap_or(64),
                        ty::Uint(u) => u.bit_width().unwrap_or(64),
                        ty::Bool => 8,
                        ty::Char => 32,
                        _ => 128,
                    };
                    let tg: Vec<J> = targets
                        .iter()
                        .map(|(v, b)| {
                            let vi: i128 = if signed && bits < 128 {
                                let shift = 128 - bits as u32;
                                ((v << shift) as i128) >> shift
                            } else {
                                v as i128
                            };
                            J::Arr(vec![J::Int(vi), bbj(&b)])
                        })
                        .collect();
                    obj! {
                        "k": J::s("switch"),
                        "op": self.operand_j(body, owner, discr),
                        "ty": J::s(ty_s(dty)),
                        "targets": J::Arr(tg),
                        "otherwise": bbj(&targets.otherwise()),
                    }
                }
                TerminatorKind::Return => obj! { "k": J::s("return") },
                TerminatorKind::Unreachable => obj! { "k": J::s("unreachable") },
                TerminatorKind::UnwindResume => obj! { "k": J::s("resume") },
                TerminatorKind::UnwindTerminate(_) => obj! { "k": J::s("terminate") },
                TerminatorKind::Drop { place, target, .. } => obj! {
                    "k": J::s("drop"), "pl": self.place_j(body, place), "t": bbj(target),
                },
                TerminatorKind::Call { func, args, destination, target, fn_span, .. } => {
                    let fty = func.ty(&body.local_decls, tcx);
                    let callee = match fty.kind() {
                        ty::FnDef(did, gargs) => self.callee_j(owner, *did, gargs),
                        _ => obj! {
                            "indirect": self.operand_j(body, owner, func),
                            "ty": J::s(ty_s(fty)),
                        },
                    };
                    obj! {
                        "k": J::s("call"),
                        "callee": callee,
                        "args": J::Arr(args.iter().map(|a| self.operand_j(body, owner, &a.node)).collect()),
                        "dst": self.place_j(body, destination),
                        "t": match target { Some(t) => bbj(t), None => J::Null },
                        "sp": span_j(tcx, term.source_info.span),
                        "fn_sp": span_j(tcx, *fn_span),
                    }
                }
                TerminatorKind::Assert { cond, expected, msg, target, .. } => {
                    let (kind, ops): (String, Vec<J>) = match &**msg {
                        mir::AssertKind::BoundsCheck { len, index } => (
                            "BoundsCheck".into(),
                            vec![self.operand_j(body, owner, len), self.operand_j(body, owner, index)],
                        ),
                        mir::AssertKind::Overflow(op, a, b) => (
                            format!("Overflow({op:?})"),
                            vec![self.operand_j(body, owner, a), self.operand_j(body, owner, b)],
                        ),
                        mir::AssertKind::OverflowNeg(a) => ("OverflowNeg".into(), vec![self.operand_j(body, owner, a)]),
                        mir::AssertKind::DivisionByZero(a) => ("DivisionByZero".into(), vec![self.operand_j(body, owner, a)]),
                        mir::AssertKind::RemainderByZero(a) => ("RemainderByZero".into(), vec![self.operand_j(body, owner, a)]),
                        other => (format!("{other:?}").split('(').next().unwrap_or("").to_string(), vec![]),
                    };
                    obj! {
                        "k": J::s("assert"),
                        "cond": self.operand_j(body, owner, cond),
                        "expected": J::Bool(*expected),
                        "msg": J::s(kind),
                        "ops": J::Arr(ops),
                        "t": bbj(target),
                        "sp": span_j(tcx, term.source_info.span),
                    }
                }
                TerminatorKind::FalseEdge { real_target, .. } => obj! { "k": J::s("goto"), "t": bbj(real_target) },
                TerminatorKind::FalseUnwind { real_target, .. } => obj! { "k": J::s("goto"), "t": bbj(real_target) },
                other => obj! { "k": J::s("other"), "dbg": J::s(format!("{other:?}")) },
            };
            let idom = doms.immediate_dominator(bb).map(|b| J::Int(b.index() as i128)).unwrap_or(J::Null);
            blocks.push(obj! {
                "stmts": J::Arr(stmts),
                "term": tj,
                "cleanup": J::Bool(data.is_cleanup),
                "idom": idom,
            });
        }
        vec![
            ("arg_count", J::Int(body.arg_count as i128)),
            ("locals", J::Arr(locals)),
            ("blocks", J::Arr(blocks)),
        ]
    }
}

fn vis_s(tcx: TyCtxt<'_>, did: DefId) -> String {
    match tcx.visibility(did) {
        ty::Visibility::Public => "pub".into(),
        ty::Visibility::Restricted(m) => format!("restricted:{}", path_s(tcx, m)),
    }
}

/// Deep search for interior mutability reachable from a value of type `ty` by safe code.
/// ADT fields are walked; `PhantomData` is skipped; raw pointers stop the walk, but an ADT that
/// (transitively) stores a raw pointer is treated as a container of its generic type arguments
/// (`Vec<T>`, `Arc<T>`, `HashMap<K, V>` own their `T` behind a pointer). Reference counts of
/// `Arc`/`Rc` are therefore not reported (they sit behind the pointer); rules that care about
/// them forbid the observing calls instead. Returns whether a raw pointer was met.
fn deep_unsafe_cell<'tcx>(
    tcx: TyCtxt<'tcx>,
    ty: Ty<'tcx>,
    seen: &mut HashSet<Ty<'tcx>>,
    path: &mut Vec<String>,
    found: &mut Vec<String>,
    params: &mut Vec<String>,
    depth: usize,
) -> bool {
    if depth > 40 || !seen.insert(ty) {
        return false;
    }
    match ty.kind() {
        ty::Adt(def, args) => {
            if def.is_unsafe_cell() {
                found.push(format!("{} :: {}", path.join(" > "), ty_s(ty)));
                return false;
            }
            if def.is_phantom_data() {
                return false;
            }
            let mut ptr = false;
            for v in def.variants() {
                for f in &v.fields {
                    let fty = f.ty(tcx, args);
                    path.push(format!("{}.{}", path_s(tcx, def.did()), f.name));
                    ptr |= deep_unsafe_cell(tcx, fty, seen, path, found, params, depth + 1);
                    path.pop();
                }
            }
            if ptr {
                for a in args.types() {
                    path.push(format!("{}<..>", path_s(tcx, def.did())));
                    deep_unsafe_cell(tcx, a, seen, path, found, params, depth + 1);
                    path.pop();
                }
            }
            ptr
        }
        ty::Ref(_, inner, _) | ty::Slice(inner) | ty::Array(inner, _) => {
            deep_unsafe_cell(tcx, *inner, seen, path, found, params, depth + 1)
        }
        ty::Tuple(ts) => {
            let mut ptr = false;
            for t in ts.iter() {
                ptr |= deep_unsafe_cell(tcx, t, seen, path, found, params, depth + 1);
            }
            ptr
        }
        ty::RawPtr(..) => true,
        ty::Param(p) => {
            let s = p.name.to_string();
            if !params.contains(&s) {
                params.push(s);
            }
            false
        }
        ty::Alias(..) | ty::Dynamic(..) => {
            let s = ty_s(ty);
            if !params.contains(&s) {
                params.push(s);
            }
            false
        }
        // fn pointers, primitives, closures without captures...: nothing to find
        _ => false,
    }
}

struct UnsafeFinder<'tcx> {
    tcx: TyCtxt<'tcx>,
    found: Vec<J>,
}

impl<'tcx> rustc_hir::intravisit::Visitor<'tcx> for UnsafeFinder<'tcx> {
    type NestedFilter = rustc_middle::hir::nested_filter::All;

    fn maybe_tcx(&mut self) -> Self::MaybeTyCtxt {
        self.tcx
    }

    fn visit_block(&mut self, b: &'tcx rustc_hir::Block<'tcx>) {
        if let rustc_hir::BlockCheckMode::UnsafeBlock(src) = b.rules {
            self.found.push(obj! {
                "what": J::s("block"),
                "user": J::Bool(matches!(src, rustc_hir::UnsafeSource::UserProvided)),
                "sp": span_j(self.tcx, b.span),
            });
        }
        rustc_hir::intravisit::walk_block(self, b);
    }
}

fn dump(tcx: TyCtxt<'_>, out_dir: &str) {
    let cx = Cx { tcx, seen_enums: Default::default() };
    let crate_name = tcx.crate_name(LOCAL_CRATE).to_string();
    let pkg = std::env::var("CARGO_PKG_NAME").unwrap_or_default();
    let crate_types: Vec<String> = tcx.crate_types().iter().map(|t| format!("{t:?}")).collect();
    let pkg_ident = pkg.replace('-', "_");
    let is_exe = crate_types.iter().any(|t| t == "Executable");
    let prefix = if is_exe || pkg_ident == crate_name || pkg_ident.is_empty() {
        crate_name.clone()
    } else {
        pkg_ident
    };
    LOCAL_PREFIX.with(|p| *p.borrow_mut() = prefix.clone());

    let mut fns = Vec::new();
    let keys = tcx.mir_keys(());
    let mut keys: Vec<LocalDefId> = keys.iter().copied().collect();
    keys.sort_by_key(|k| tcx.def_path_str(k.to_def_id()));

    for ldid in keys {
        let did = ldid.to_def_id();
        let kind = tcx.def_kind(did);
        let body: &Body<'_> = match kind {
            DefKind::Fn | DefKind::AssocFn | DefKind::Closure => tcx.optimized_mir(did),
            DefKind::Const { .. } | DefKind::AssocConst { .. } | DefKind::Static { .. } | DefKind::AnonConst | DefKind::InlineConst => {
                tcx.mir_for_ctfe(did)
            }
            _ => continue,
        };
        let span = tcx.def_span(did);
        let mut fields: Vec<(&'static str, J)> = vec![
            ("id", J::s(path_s(tcx, did))),
            ("kind", J::s(format!("{kind:?}"))),
            ("name", J::s(tcx.opt_item_name(did).map(|n| n.to_string()).unwrap_or_default())),
            ("sp", span_j(tcx, span)),
            ("body_sp", span_j(tcx, body.span)),
        ];
        if matches!(kind, DefKind::Fn | DefKind::AssocFn | DefKind::Const { .. } | DefKind::AssocConst { .. } | DefKind::Static { .. }) {
            fields.push(("vis", J::s(vis_s(tcx, did))));
        }
        if matches!(kind, DefKind::Fn | DefKind::AssocFn) {
            fields.push(("const_fn", J::Bool(tcx.is_const_fn(did))));
            let sig = tcx.fn_sig(did).instantiate_identity().skip_norm_wip();
            let sig = tcx.instantiate_bound_regions_with_erased(sig);
            fields.push(("inputs", J::Arr(sig.inputs().iter().map(|t| J::s(ty_s(*t))).collect())));
            fields.push(("output", J::s(ty_s(sig.output()))));
            fields.push(("unsafe_fn", J::Bool(!sig.safety().is_safe())));
        }
        // parent chain: nearest enclosing fn (for closures) and impl
        let mut p = did;
        let mut parent_fn = J::Null;
        let mut impl_j = J::Null;
        let mut guard = 0;
        while let Some(pp) = tcx.opt_parent(p) {
            guard += 1;
            if guard > 32 {
                break;
            }
            let pk = tcx.def_kind(pp);
            if matches!(parent_fn, J::Null)
                && matches!(pk, DefKind::Fn | DefKind::AssocFn | DefKind::Closure | DefKind::Const { .. } | DefKind::Static { .. } | DefKind::AssocConst { .. })
            {
                parent_fn = J::s(path_s(tcx, pp));
            }
            if let DefKind::Impl { of_trait } = pk {
                let self_ty = tcx.type_of(pp).instantiate_identity().skip_norm_wip();
                let tr = if of_trait {
                    let tr = tcx.impl_trait_ref(pp).instantiate_identity().skip_norm_wip();
                    J::s(path_s(tcx, tr.def_id))
                } else {
                    J::Null
                };
                let tr_full = if of_trait {
                    let tr = tcx.impl_trait_ref(pp).instantiate_identity().skip_norm_wip();
                    J::s(pp!(tr.to_string()))
                } else {
                    J::Null
                };
                impl_j = obj! {
                    "trait": tr,
                    "trait_ref": tr_full,
                    "self": J::s(ty_s(self_ty)),
                    "self_adt": match self_ty.kind() { ty::Adt(d, _) => J::s(path_s(tcx, d.did())), _ => J::Null },
                    "derived": J::Bool(tcx.is_automatically_derived(pp)),
                    "id": J::s(path_s(tcx, pp)),
                };
                break;
            }
            if matches!(pk, DefKind::Mod) {
                break;
            }
            p = pp;
        }
        fields.push(("parent", parent_fn));
        fields.push(("impl", impl_j));
        fields.push(("module", J::s(path_s(tcx, tcx.parent_module_from_def_id(ldid).to_def_id()))));
        fields.extend(cx.body_j(did, body));

        // promoted bodies
        if matches!(kind, DefKind::Fn | DefKind::AssocFn | DefKind::Closure) {
            let promoted = tcx.promoted_mir(did);
            let pj: Vec<J> = promoted.iter().map(|b| J::Obj(cx.body_j(did, b))).collect();
            fields.push(("promoted", J::Arr(pj)));
        }
        fns.push(J::Obj(fields));
    }

    // ADTs, statics, impls, traits defined in this crate
    let mut adts = Vec::new();
    let mut statics = Vec::new();
    let mut impls = Vec::new();
    let mut unsafe_items = Vec::new();
    for id in tcx.hir_free_items() {
        let did = id.owner_id.to_def_id();
        let kind = tcx.def_kind(did);
        match kind {
            DefKind::Struct | DefKind::Enum | DefKind::Union => {
                let def = tcx.adt_def(did);
                let ident_args = ty::GenericArgs::identity_for_item(tcx, did);
                let mut variants = Vec::new();
                for v in def.variants() {
                    let fields_j: Vec<J> = v
                        .fields
                        .iter()
                        .map(|f| {
                            obj! {
                                "name": J::s(f.name.to_string()),
                                "ty": J::s(ty_s(f.ty(tcx, ident_args))),
                                "vis": J::s(match f.vis {
                                    ty::Visibility::Public => "pub".to_string(),
                                    ty::Visibility::Restricted(m) => format!("restricted:{}", path_s(tcx, m)),
                                }),
                            }
                        })
                        .collect();
                    variants.push(obj! {
                        "name": J::s(v.name.to_string()),
                        "fields": J::Arr(fields_j),
                        "ctor": J::s(format!("{:?}", v.ctor_kind())),
                    });
                }
                let discrs: Vec<J> = if def.is_enum() {
                    def.discriminants(tcx).map(|(_, d)| J::Int(d.val as i128)).collect()
                } else {
                    vec![]
                };
                let self_ty = tcx.type_of(did).instantiate_identity().skip_norm_wip();
                let mut found = Vec::new();
                let mut params = Vec::new();
                deep_unsafe_cell(tcx, self_ty, &mut HashSet::new(), &mut Vec::new(), &mut found, &mut params, 0);
                adts.push(obj! {
                    "id": J::s(path_s(tcx, did)),
                    "kind": J::s(format!("{kind:?}")),
                    "vis": J::s(vis_s(tcx, did)),
                    "non_exhaustive": J::Bool(def.is_variant_list_non_exhaustive() || def.variants().iter().any(|v| v.is_field_list_non_exhaustive())),
                    "variants": J::Arr(variants),
                    "discrs": J::Arr(discrs),
                    "unsafe_cell": J::Arr(found.into_iter().map(J::Str).collect()),
                    "ty_leaves": J::Arr(params.into_iter().map(J::Str).collect()),
                    "sp": span_j(tcx, tcx.def_span(did)),
                });
            }
            DefKind::Impl { of_trait } => {
                let self_ty = tcx.type_of(did).instantiate_identity().skip_norm_wip();
                let (tr, tr_full, safety) = if of_trait {
                    let tr = tcx.impl_trait_ref(did).instantiate_identity().skip_norm_wip();
                    let header = tcx.impl_trait_header(did);
                    (
                        J::s(path_s(tcx, tr.def_id)),
                        J::s(pp!(tr.to_string())),
                        format!("{:?}", header.safety),
                    )
                } else {
                    (J::Null, J::Null, "Safe".to_string())
                };
                let items: Vec<J> = tcx
                    .associated_items(did)
                    .in_definition_order()
                    .map(|it| obj! { "id": J::s(path_s(tcx, it.def_id)), "name": J::s(it.name().to_string()), "kind": J::s(format!("{:?}", it.kind).split('{').next().unwrap_or("").trim().to_string()) })
                    .collect();
                impls.push(obj! {
                    "id": J::s(path_s(tcx, did)),
                    "trait": tr,
                    "trait_ref": tr_full,
                    "self": J::s(ty_s(self_ty)),
                    "self_adt": match self_ty.kind() { ty::Adt(d, _) => J::s(path_s(tcx, d.did())), _ => J::Null },
                    "derived": J::Bool(tcx.is_automatically_derived(did)),
                    "safety": J::s(safety),
                    "items": J::Arr(items),
                    "sp": span_j(tcx, tcx.def_span(did)),
                });
            }
            DefKind::ForeignMod => {
                unsafe_items.push(obj! { "what": J::s("extern_block"), "user": J::Bool(!tcx.def_span(did).from_expansion()), "sp": span_j(tcx, tcx.def_span(did)) });
            }
            _ => {}
        }
    }
    // statics (including those nested in function bodies)
    for ldid in tcx.hir_body_owners() {
        let did = ldid.to_def_id();
        if let DefKind::Static { mutability, nested, .. } = tcx.def_kind(did) {
            let ty = tcx.type_of(did).instantiate_identity().skip_norm_wip();
            let tenv = TypingEnv::post_analysis(tcx, did);
            let mut found = Vec::new();
            let mut params = Vec::new();
            deep_unsafe_cell(tcx, ty, &mut HashSet::new(), &mut Vec::new(), &mut found, &mut params, 0);
            statics.push(obj! {
                "id": J::s(path_s(tcx, did)),
                "ty": J::s(ty_s(ty)),
                "ty_adt": match ty.kind() { ty::Adt(d, _) => J::s(path_s(tcx, d.did())), _ => J::Null },
                "ty_args": match ty.kind() { ty::Adt(_, a) => J::Arr(a.iter().map(|x| J::s(pp!(x.to_string()))).collect()), _ => J::Arr(vec![]) },
                "mutable": J::Bool(matches!(mutability, rustc_hir::Mutability::Mut)),
                "nested": J::Bool(nested),
                "freeze": J::Bool(ty.is_freeze(tcx, tenv)),
                "ty_args_cells": match ty.kind() {
                    ty::Adt(_, a) => J::Arr(a.types().map(|x| {
                        let mut f = Vec::new();
                        let mut p = Vec::new();
                        deep_unsafe_cell(tcx, x, &mut HashSet::new(), &mut Vec::new(), &mut f, &mut p, 0);
                        obj! { "ty": J::s(ty_s(x)), "unsafe_cell": J::Arr(f.into_iter().map(J::Str).collect()), "leaves": J::Arr(p.into_iter().map(J::Str).collect()) }
                    }).collect()),
                    _ => J::Arr(vec![]),
                },
                "unsafe_cell": J::Arr(found.into_iter().map(J::Str).collect()),
                "sp": span_j(tcx, tcx.def_span(did)),
            });
        }
    }
    // unsafe blocks / fns / impls
    let mut finder = UnsafeFinder { tcx, found: Vec::new() };
    tcx.hir_visit_all_item_likes_in_crate(&mut finder);
    unsafe_items.extend(finder.found);

    let mut foreign_enums = Vec::new();
    let mut seen: Vec<DefId> = cx.seen_enums.borrow().iter().copied().collect();
    seen.sort_by_key(|d| tcx.def_path_str(*d));
    for did in seen.iter() {
        let def = tcx.adt_def(*did);
        if def.variants().len() > 64 {
            continue;
        }
        let variants: Vec<J> = def
            .variants()
            .iter()
            .map(|v| obj! { "name": J::s(v.name.to_string()), "fields": J::Arr(v.fields.iter().map(|f| obj! { "name": J::s(f.name.to_string()), "ty": J::s(""), "vis": J::s("") }).collect()), "ctor": J::s("") })
            .collect();
        let discrs: Vec<J> = def.discriminants(tcx).map(|(_, d)| J::Int(d.val as i128)).collect();
        foreign_enums.push(obj! {
            "id": J::s(path_s(tcx, *did)),
            "kind": J::s("Enum"),
            "foreign": J::Bool(true),
            "variants": J::Arr(variants),
            "discrs": J::Arr(discrs),
        });
    }

    let root = obj! {
        "foreign_enums": J::Arr(foreign_enums),
        "crate": J::s(crate_name.clone()),
        "prefix": J::s(prefix.clone()),
        "pkg": J::s(pkg.clone()),
        "crate_types": J::Arr(crate_types.iter().cloned().map(J::Str).collect()),
        "features": J::Arr(
            std::env::vars()
                .filter(|(k, _)| k.starts_with("CARGO_FEATURE_"))
                .map(|(k, _)| J::Str(k["CARGO_FEATURE_".len()..].to_lowercase()))
                .collect(),
        ),
        "fns": J::Arr(fns),
        "adts": J::Arr(adts),
        "statics": J::Arr(statics),
        "impls": J::Arr(impls),
        "unsafe": J::Arr(unsafe_items),
    };

    let mut out = String::new();
    root.write(&mut out);
    let mut h = std::collections::hash_map::DefaultHasher::new();
    for a in std::env::args() {
        a.hash(&mut h);
    }
    let kind = crate_types.first().cloned().unwrap_or_default().to_lowercase();
    let file = format!("{out_dir}/{pkg}--{crate_name}--{kind}--{:016x}.json", h.finish());
    let tmp = format!("{file}.tmp");
    std::fs::write(&tmp, out).expect("mirfacts: cannot write fact file");
    std::fs::rename(&tmp, &file).expect("mirfacts: cannot rename fact file");
}
